//! Line protocol shared with the Lean driver (see lean/DuckModel/Wire.lean).
pub fn enc_str(s: &str) -> String {
    let mut o = String::with_capacity(1 + s.len() * 2);
    o.push('h');
    for b in s.as_bytes() {
        o.push_str(&format!("{:02x}", b));
    }
    o
}
pub fn enc_opt(s: &Option<String>) -> String {
    match s {
        None => "-".to_string(),
        Some(v) => enc_str(v),
    }
}
pub fn enc_list(l: &[String]) -> String {
    format!("[{}]", l.iter().map(|s| enc_str(s)).collect::<Vec<_>>().join(","))
}
pub fn enc_opt_list(l: &Option<Vec<String>>) -> String {
    match l {
        None => "-".to_string(),
        Some(v) => enc_list(v),
    }
}
pub fn enc_opt_num(n: &Option<usize>) -> String {
    match n {
        None => "-".to_string(),
        Some(v) => v.to_string(),
    }
}
pub fn dec_str(t: &str) -> Option<String> {
    let t = t.strip_prefix('h')?;
    if t.len() % 2 != 0 {
        return None;
    }
    let mut bytes = Vec::with_capacity(t.len() / 2);
    let b = t.as_bytes();
    let mut i = 0;
    while i < b.len() {
        let hi = (b[i] as char).to_digit(16)?;
        let lo = (b[i + 1] as char).to_digit(16)?;
        bytes.push((hi * 16 + lo) as u8);
        i += 2;
    }
    String::from_utf8(bytes).ok()
}
pub fn dec_opt(t: &str) -> Option<Option<String>> {
    if t == "-" {
        Some(None)
    } else {
        dec_str(t).map(Some)
    }
}
pub fn dec_list(t: &str) -> Option<Vec<String>> {
    let inner = t.strip_prefix('[')?.strip_suffix(']')?;
    if inner.is_empty() {
        return Some(vec![]);
    }
    inner.split(',').map(dec_str).collect()
}
pub fn dec_opt_list(t: &str) -> Option<Option<Vec<String>>> {
    if t == "-" {
        Some(None)
    } else {
        dec_list(t).map(Some)
    }
}

use duckscript::types::error::ScriptError;
use duckscript::types::instruction::{Instruction, InstructionMetaInfo, InstructionType};

pub fn enc_meta(m: &InstructionMetaInfo) -> String {
    format!("{}:{}", enc_opt_num(&m.line), enc_opt(&m.source))
}
pub fn enc_instr(i: &Instruction) -> String {
    match &i.instruction_type {
        InstructionType::Empty => format!("E:{}", enc_meta(&i.meta_info)),
        InstructionType::PreProcess(p) => format!(
            "P:{}:{}:{}",
            enc_meta(&i.meta_info),
            enc_opt(&p.command),
            enc_opt_list(&p.arguments)
        ),
        InstructionType::Script(s) => format!(
            "S:{}:{}:{}:{}:{}",
            enc_meta(&i.meta_info),
            enc_opt(&s.label),
            enc_opt(&s.output),
            enc_opt(&s.command),
            enc_opt_list(&s.arguments)
        ),
    }
}
pub fn enc_script_error(e: &ScriptError) -> String {
    match e {
        ScriptError::ErrorReadingFile(f, _) => format!("ErrorReadingFile:{} -:-", enc_str(f)),
        ScriptError::Initialization(_) => "Initialization -:-".to_string(),
        ScriptError::Runtime(_, m) => format!(
            "Runtime {}",
            enc_meta(&m.clone().unwrap_or_default())
        ),
        ScriptError::PreProcessNoCommandFound(m) => format!("PreProcessNoCommandFound {}", enc_meta(m)),
        ScriptError::ControlWithoutValidValue(m) => format!("ControlWithoutValidValue {}", enc_meta(m)),
        ScriptError::InvalidControlLocation(m) => format!("InvalidControlLocation {}", enc_meta(m)),
        ScriptError::MissingEndQuotes(m) => format!("MissingEndQuotes {}", enc_meta(m)),
        ScriptError::MissingOutputVariableName(m) => format!("MissingOutputVariableName {}", enc_meta(m)),
        ScriptError::InvalidEqualsLocation(m) => format!("InvalidEqualsLocation {}", enc_meta(m)),
        ScriptError::InvalidQuotesLocation(m) => format!("InvalidQuotesLocation {}", enc_meta(m)),
        ScriptError::EmptyLabel(m) => format!("EmptyLabel {}", enc_meta(m)),
        ScriptError::UnknownPreProcessorCommand(m) => format!("UnknownPreProcessorCommand {}", enc_meta(m)),
    }
}
pub fn enc_parse(r: &Result<Vec<Instruction>, ScriptError>) -> String {
    match r {
        Ok(is) => format!(
            "OK {} {}",
            is.len(),
            is.iter().map(enc_instr).collect::<Vec<_>>().join(";")
        ),
        Err(e) => format!("ERR {}", enc_script_error(e)),
    }
}
