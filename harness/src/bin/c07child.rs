//! C07 child process: runs ONE script with the standard library loaded, isolated from the
//! harness because the script may abort the process (stack overflow, allocation failure).
//!
//!   c07child text <script-file> [halt-ms]   run_script(text of the file)
//!   c07child file <script-file> [halt-ms]   run_script_file(path)   (include cycles)
//!   c07child list                           print `alias<TAB>full name` of every command
//!   c07child cwdtext <script-file> <halt-ms> <dir>   chdir(dir), run_script(text of the file);
//!                                           exit 0 = Ok, 6 = the run returned an error
//!
//! exit status: 0 = control returned (result context or error value), 3 = panic (caught),
//! 4 = no return within 5 s (hang), anything else / a signal = the process aborted.
//! Address space is capped at 4 GiB so that a runaway allocation fails fast.
use duckscript::types::env::Env;
use duckscript::types::runtime::Context;
use std::io::Write;
use std::sync::atomic::{AtomicBool, Ordering};
use std::sync::Arc;
use std::time::Duration;

struct Sink;
impl Write for Sink {
    fn write(&mut self, b: &[u8]) -> std::io::Result<usize> {
        Ok(b.len())
    }
    fn flush(&mut self) -> std::io::Result<()> {
        Ok(())
    }
}

extern "C" {
    fn setrlimit(resource: i32, rlim: *const [u64; 2]) -> i32;
}

fn main() {
    let args: Vec<String> = std::env::args().collect();
    if args.len() < 2 {
        std::process::exit(2);
    }
    let mut ctx = Context::new();
    duckscriptsdk::load(&mut ctx.commands).expect("sdk load");
    if args[1] == "list" {
        let mut l: Vec<(String, String)> = ctx.commands.aliases.iter().map(|(a, n)| (a.clone(), n.clone())).collect();
        l.sort();
        for (a, n) in l {
            println!("{}\t{}", a, n);
        }
        return;
    }
    if args.len() < 3 {
        std::process::exit(2);
    }
    // RLIMIT_AS = 9 on Linux
    let lim: [u64; 2] = [4 << 30, 4 << 30];
    unsafe {
        setrlimit(9, &lim);
    }
    std::panic::set_hook(Box::new(|_| {}));
    let halt_ms: u64 = args.get(3).and_then(|v| v.parse().ok()).unwrap_or(1000);
    let halt = Arc::new(AtomicBool::new(false));
    {
        let halt = halt.clone();
        std::thread::spawn(move || {
            std::thread::sleep(Duration::from_millis(halt_ms));
            halt.store(true, Ordering::SeqCst);
            std::thread::sleep(Duration::from_millis(5000));
            // the run ignored the halt flag for 5 s: hang
            std::process::exit(4);
        });
    }
    let mode = args[1].clone();
    let path = args[2].clone();
    let r = std::panic::catch_unwind(std::panic::AssertUnwindSafe(move || {
        let env = Env::new(Some(Box::new(Sink)), Some(Box::new(Sink)), Some(halt));
        if mode == "file" {
            duckscript::runner::run_script_file(&path, ctx, Some(env)).is_ok()
        } else if mode == "cwdtext" {
            let text = std::fs::read_to_string(&path).expect("script file");
            std::env::set_current_dir(&args[4]).expect("chdir");
            if duckscript::runner::run_script(&text, ctx, Some(env)).is_err() {
                std::process::exit(6);
            }
            true
        } else {
            let text = std::fs::read_to_string(&path).expect("script file");
            duckscript::runner::run_script(&text, ctx, Some(env)).is_ok()
        }
    }));
    match r {
        Ok(_) => std::process::exit(0),
        Err(_) => std::process::exit(3),
    }
}
