//! Correspondence harness: runs the real duckscript code and the Lean model on the same
//! generated cases and reports where they differ.  See /verif/DESIGN.md section 4.3.
mod driver;
mod pools;
mod props;
mod rng;
mod scripted;
mod sdkenv;
mod wire;

use driver::Driver;
use rng::Rng;
use serde_json::{json, Value};
use std::collections::{BTreeMap, HashSet};
use std::hash::{Hash, Hasher};
use std::panic;
use std::sync::{Arc, Mutex};

#[derive(Clone, Copy, PartialEq, Eq, Debug)]
pub enum Tier {
    Quick,
    Thorough,
}

#[derive(Clone, Debug)]
pub struct Case {
    /// request line sent to the model driver (`<op> <tok>…`)
    pub req: String,
    /// inside the property's quantifier (a model/implementation difference is then a
    /// violation of the property itself, because the model provably satisfies it there)
    pub in_domain: bool,
    /// counts towards distinct_nontrivial
    pub nontrivial: bool,
    pub tags: Vec<&'static str>,
}

pub trait Prop: Sync {
    fn id(&self) -> &'static str;
    /// how cases are generated and what makes one non-trivial
    fn rule(&self) -> &'static str;
    /// number of generated cases per tier (split over the workers)
    fn budget(&self, tier: Tier) -> usize;
    /// deterministic cases that run first (exhaustive small scopes, regression corpus)
    fn fixed_cases(&self, _tier: Tier) -> Vec<Case> {
        vec![]
    }
    fn generate(&self, rng: &mut Rng, tier: Tier) -> Case;
    /// run the real code; `model_out` is available for cases whose input is produced by
    /// the model (e.g. a rendering)
    fn run_impl(&self, req: &str, model_out: &str) -> String;
    /// the property's own relation evaluated on the implementation output alone
    /// (None: the relation is "equals the proved model")
    fn relation(&self, _req: &str, _model_out: &str, _impl_out: &str) -> Option<bool> {
        None
    }
    fn shrink(&self, _req: &str) -> Vec<String> {
        vec![]
    }
    /// known finding id for a failing case (listed in known_findings.json)
    fn known(&self, _req: &str, _model_out: &str, _impl_out: &str) -> Option<String> {
        None
    }
    /// coarse classification of an implementation output (for the histogram)
    fn outcome_kind(&self, imp: &str) -> String {
        let t = imp.split(' ').next().unwrap_or("");
        if t.len() <= 24 && t.chars().all(|c| c.is_ascii_alphabetic() || c == '-') { t.to_string() } else { "other".to_string() }
    }
    /// human-readable rendering of a request for samples
    fn describe(&self, req: &str) -> String {
        req.to_string()
    }
}

pub fn run_caught<F: FnOnce() -> String + panic::UnwindSafe>(f: F) -> String {
    match panic::catch_unwind(f) {
        Ok(s) => s,
        Err(e) => {
            let msg = if let Some(s) = e.downcast_ref::<&str>() {
                s.to_string()
            } else if let Some(s) = e.downcast_ref::<String>() {
                s.clone()
            } else {
                "?".to_string()
            };
            let _ = msg;
            "PANIC".to_string()
        }
    }
}

#[derive(Default)]
struct Stats {
    evaluations: usize,
    in_domain: usize,
    nontrivial_hashes: HashSet<u64>,
    tags: BTreeMap<String, usize>,
    samples: Vec<Value>,
    failures: Vec<Value>,
    known: BTreeMap<String, (usize, String)>,
    relation_checked: usize,
}

/// cases whose implementation run had to be stopped by the watchdog; after a handful the run is
/// cut short (the failures found so far are reported) so that a change that makes the interpreter
/// loop cannot make the check itself run for hours
pub static SLOW_CASES: std::sync::atomic::AtomicUsize = std::sync::atomic::AtomicUsize::new(0);
const SLOW_LIMIT: usize = 6;

fn too_slow() -> bool {
    SLOW_CASES.load(std::sync::atomic::Ordering::SeqCst) >= SLOW_LIMIT
}

pub fn hash_str(s: &str) -> u64 {
    let mut h = std::collections::hash_map::DefaultHasher::new();
    s.hash(&mut h);
    h.finish()
}

fn eval_case(p: &dyn Prop, d: &mut Driver, req: &str) -> (String, String) {
    let model = d.query(req);
    if model == "MODEL-TIMEOUT" {
        // the model did not answer in time: the case is skipped (counted as slow), never a failure
        return (model, "timeout (model did not answer; case skipped)".to_string());
    }
    let imp = {
        let m = model.clone();
        let r = req.to_string();
        run_caught(panic::AssertUnwindSafe(move || p.run_impl(&r, &m))).trim_end().to_string()
    };
    (model, imp)
}

fn fails(p: &dyn Prop, req: &str, model: &str, imp: &str) -> (bool, bool) {
    if model == "MODEL-TIMEOUT" {
        return (false, false);
    }
    // (model differs, relation violated)
    // a structured-program model that ran out of ITS fuel has no opinion (the relation against
    // the tree interpreter / the implementation's own output is still evaluated)
    let model_no_opinion = model.split(' ').any(|t| t == "M:fuel");
    let differs = model != imp && !model_no_opinion;
    let rel = p.relation(req, model, imp).map(|ok| !ok).unwrap_or(false);
    (differs, rel)
}

fn shrink_case(p: &dyn Prop, d: &mut Driver, req: &str, want_rel: bool) -> String {
    let mut cur = req.to_string();
    let mut rounds = 0;
    let mut slow_candidates = 0;
    let started = std::time::Instant::now();
    'outer: loop {
        rounds += 1;
        if rounds > 200 {
            break;
        }
        for cand in p.shrink(&cur) {
            if cand.len() >= cur.len() && cand == cur {
                continue;
            }
            if slow_candidates >= 3 || started.elapsed().as_secs() >= 10 {
                // shrinking can create programs that no longer terminate (e.g. a loop without its
                // counter increment); each costs a watchdog timeout — give up shrinking, keep `cur`
                break 'outer;
            }
            let (m, i) = eval_case(p, d, &cand);
            if i.contains("timeout") || i.contains("HANG") {
                slow_candidates += 1;
                continue;
            }
            let (differs, rel) = fails(p, &cand, &m, &i);
            let still = if want_rel { rel } else { differs };
            if still && p.known(&cand, &m, &i).is_none() {
                cur = cand;
                continue 'outer;
            }
        }
        break;
    }
    cur
}

static JOURNAL_NO: std::sync::atomic::AtomicUsize = std::sync::atomic::AtomicUsize::new(0);
thread_local! {
    /// with VERIF_JOURNAL=<dir> every worker appends each request to its own file BEFORE running
    /// it (flushed): if the implementation kills the process (stack overflow, abort), bin/check
    /// finds the request in flight as the last line of one of the journals
    static JOURNAL: std::cell::RefCell<Option<std::fs::File>> = std::cell::RefCell::new(
        std::env::var("VERIF_JOURNAL").ok().and_then(|d| {
            let n = JOURNAL_NO.fetch_add(1, std::sync::atomic::Ordering::SeqCst);
            std::fs::File::create(std::path::Path::new(&d).join(format!("w{}.journal", n))).ok()
        })
    );
}

fn journal(req: &str) {
    use std::io::Write;
    JOURNAL.with(|j| {
        if let Some(f) = j.borrow_mut().as_mut() {
            let _ = writeln!(f, "{}", req);
            let _ = f.flush();
        }
    });
}

fn process(p: &dyn Prop, d: &mut Driver, case: &Case, st: &mut Stats, sample_every: usize) {
    journal(&case.req);
    let (model, imp) = eval_case(p, d, &case.req);
    st.evaluations += 1;
    if case.in_domain {
        st.in_domain += 1;
    }
    if case.nontrivial {
        st.nontrivial_hashes.insert(hash_str(&case.req));
    }
    for t in &case.tags {
        *st.tags.entry(t.to_string()).or_insert(0) += 1;
    }
    let out_kind = p.outcome_kind(&imp);
    *st.tags.entry(format!("impl:{}", out_kind)).or_insert(0) += 1;
    if st.samples.len() < 6 && (st.evaluations % sample_every == 1 || sample_every == 1) {
        st.samples.push(json!({"case": p.describe(&case.req), "request": case.req, "model": model, "impl": imp}));
    }
    let slow = imp.contains("timeout") || imp.contains("HANG");
    if slow {
        SLOW_CASES.fetch_add(1, std::sync::atomic::Ordering::SeqCst);
    }
    let (differs, rel) = fails(p, &case.req, &model, &imp);
    if p.relation(&case.req, &model, &imp).is_some() {
        st.relation_checked += 1;
    }
    if !differs && !rel {
        return;
    }
    if let Some(k) = p.known(&case.req, &model, &imp) {
        let e = st.known.entry(k).or_insert((0, p.describe(&case.req)));
        e.0 += 1;
        return;
    }
    // keep room for violations of the property itself: differences outside the property's
    // domain (they come first when small exhaustive cases run first) must not fill the list
    let likely_real = rel || (case.in_domain && differs);
    let kept_real = st.failures.iter().filter(|f| f["property_violation"] == json!(true)).count();
    let kept_other = st.failures.len() - kept_real;
    if (likely_real && kept_real >= 15) || (!likely_real && kept_other >= 5) {
        return;
    }
    let small = if slow || too_slow() { case.req.clone() } else { shrink_case(p, d, &case.req, rel) };
    let (m2, i2) = eval_case(p, d, &small);
    let (d2, r2) = fails(p, &small, &m2, &i2);
    // a failing case counts as a violation of the property itself when the case is in the
    // property's domain (the model provably satisfies the property there) or when the
    // property's own relation fails on the implementation output
    let violation = r2 || (case.in_domain && d2);
    st.failures.push(json!({
        "request": small, "case": p.describe(&small), "model": m2, "impl": i2,
        "original_request": case.req, "first_model": model, "first_impl": imp,
        "in_domain": case.in_domain, "relation_violated": r2, "model_differs": d2,
        "property_violation": violation,
    }));
}

/// remove whatever scratch directories / files this process left in the temp directory
/// (per-thread C10 roots, C07 probe files, C14/C18/C19 trees of cases cut short, C20 scripts)
fn sweep_scratch() {
    let pid = std::process::id();
    let prefixes: Vec<String> = ["verif-c10-", "c07-", "duck-c14-", "duckverif-c18-", "duck-c19-", "verif-c20-"].iter().map(|p| format!("{}{}-", p, pid)).collect();
    if let Ok(rd) = std::fs::read_dir(std::env::temp_dir()) {
        for e in rd.flatten() {
            let name = e.file_name().to_string_lossy().to_string();
            if prefixes.iter().any(|p| name.starts_with(p)) {
                let path = e.path();
                if path.is_dir() {
                    let _ = std::fs::remove_dir_all(&path);
                } else {
                    let _ = std::fs::remove_file(&path);
                }
            }
        }
    }
}

fn main() {
    let args: Vec<String> = std::env::args().collect();
    if args.len() < 2 {
        eprintln!("usage: harness check <prop> <quick|thorough> <seed> <driver> <out.json> | harness replay <prop> <driver> <file>");
        std::process::exit(2);
    }
    if std::env::var("VERIF_SHOW_PANICS").is_ok() { } else { panic::set_hook(Box::new(|_| {})); }
    match args[1].as_str() {
        "check" => {
            let prop = props::lookup(&args[2]).expect("unknown property");
            let tier = if args[3] == "thorough" { Tier::Thorough } else { Tier::Quick };
            let seed: u64 = args[4].parse().expect("seed");
            let driver_path = args[5].clone();
            let out = args[6].clone();
            let workers: usize = std::env::var("VERIF_WORKERS").ok().and_then(|v| v.parse().ok()).unwrap_or(12);
            let budget_scale: f64 = std::env::var("VERIF_BUDGET_SCALE").ok().and_then(|v| v.parse().ok()).unwrap_or(1.0);
            let total = ((prop.budget(tier) as f64) * budget_scale) as usize;
            let merged = Arc::new(Mutex::new(Stats::default()));
            let start = std::time::Instant::now();
            // fixed cases (exhaustive small scopes, regression corpus) are dealt round-robin to
            // the workers and run before each worker's random cases
            // regression corpus (minimised past failures, inputs that expose seeded changes) runs first
            let mut all_fixed = load_corpus(prop.id());
            all_fixed.extend(prop.fixed_cases(tier));
            let fixed = Arc::new(all_fixed);
            std::thread::scope(|s| {
                for w in 0..workers {
                    let merged = merged.clone();
                    let driver_path = driver_path.clone();
                    let fixed = fixed.clone();
                    s.spawn(move || {
                        let mut d = Driver::spawn(&driver_path);
                        let mut rng = Rng::new(seed, w as u64 + 1);
                        let mut st = Stats::default();
                        let mine = fixed.len() / workers + 1;
                        let every = (mine / 2).max(1);
                        let mut k = w;
                        while k < fixed.len() && !too_slow() {
                            process(prop, &mut d, &fixed[k], &mut st, every);
                            k += workers;
                        }
                        let n = total / workers + if w < total % workers { 1 } else { 0 };
                        let every = (n / 3).max(1);
                        for _ in 0..n {
                            if too_slow() {
                                break;
                            }
                            let c = prop.generate(&mut rng, tier);
                            process(prop, &mut d, &c, &mut st, every);
                        }
                        merge(&mut merged.lock().unwrap(), st);
                    });
                }
            });
            let st = merged.lock().unwrap();
            let known: Vec<Value> = st.known.iter().map(|(k, (n, ex))| json!({"id": k, "count": n, "example": ex})).collect();
            let res = json!({
                "property": prop.id(), "seed": seed, "tier": args[3],
                "evaluations": st.evaluations, "in_domain": st.in_domain,
                "distinct_nontrivial": st.nontrivial_hashes.len(),
                "relation_checked_on_impl": st.relation_checked,
                "rule": prop.rule(), "histogram": st.tags, "samples": st.samples,
                "failures": st.failures, "known": known,
                "cut_short_after_slow_cases": SLOW_CASES.load(std::sync::atomic::Ordering::SeqCst),
                "wall_s": start.elapsed().as_secs_f64(),
            });
            std::fs::write(&out, serde_json::to_string_pretty(&res).unwrap()).unwrap();
            sweep_scratch();
        }
        "replay" => {
            let prop = props::lookup(&args[2]).expect("unknown property");
            let mut d = Driver::spawn(&args[3]);
            let text = std::fs::read_to_string(&args[4]).expect("replay file");
            let mut bad = false;
            for line in text.lines() {
                let line = line.trim();
                if line.is_empty() || line.starts_with('#') {
                    continue;
                }
                let (m, i) = eval_case(prop, &mut d, line);
                let (differs, rel) = fails(prop, line, &m, &i);
                println!("case : {}", prop.describe(line));
                println!("request: {}", line);
                println!("model: {}", m);
                println!("impl : {}", i);
                println!("model_differs={} relation_violated={}", differs, rel);
                if differs || rel {
                    bad = true;
                }
            }
            sweep_scratch();
            std::process::exit(if bad { 1 } else { 0 });
        }
        _ => {
            eprintln!("unknown mode");
            std::process::exit(2);
        }
    }
}

/// request lines kept under /verif/corpus/<id>/*.case (`#` lines are comments)
fn load_corpus(id: &str) -> Vec<Case> {
    let mut out = vec![];
    let dir = std::path::Path::new("corpus").join(id);
    let mut files: Vec<std::path::PathBuf> = match std::fs::read_dir(&dir) {
        Ok(rd) => rd.filter_map(|e| e.ok()).map(|e| e.path()).filter(|p| p.extension().map(|x| x == "case").unwrap_or(false)).collect(),
        Err(_) => return out,
    };
    files.sort();
    for f in files {
        if let Ok(text) = std::fs::read_to_string(&f) {
            for line in text.lines() {
                let line = line.trim();
                if line.is_empty() || line.starts_with('#') {
                    continue;
                }
                out.push(Case { req: line.to_string(), in_domain: !line.starts_with("X "), nontrivial: true, tags: vec!["corpus"] });
            }
        }
    }
    out
}

fn merge(into: &mut Stats, st: Stats) {
    into.evaluations += st.evaluations;
    into.in_domain += st.in_domain;
    into.relation_checked += st.relation_checked;
    into.nontrivial_hashes.extend(st.nontrivial_hashes);
    for (k, v) in st.tags {
        *into.tags.entry(k).or_insert(0) += v;
    }
    for s in st.samples {
        if into.samples.len() < 8 {
            into.samples.push(s);
        }
    }
    for f in st.failures {
        // violations of the property itself first; differences outside its domain fill what is left
        let real = f["property_violation"] == json!(true);
        let others = into.failures.iter().filter(|g| g["property_violation"] != json!(true)).count();
        if into.failures.len() < 40 && (real || others < 10) {
            into.failures.push(f);
        }
    }
    for (k, (n, ex)) in st.known {
        let e = into.known.entry(k).or_insert((0, ex));
        e.0 += n;
    }
}
