//! The Lean model driver as a child process answering one line per request.
//! A request that the model does not answer within `TIMEOUT` (pathological fuel-bounded
//! evaluation of a program that does not terminate, typically a shrink candidate) is abandoned:
//! the driver is restarted and the answer is `MODEL-TIMEOUT`.
use std::io::{BufRead, BufReader, Write};
use std::process::{Child, ChildStdin, Command, Stdio};
use std::sync::mpsc::{channel, Receiver, RecvTimeoutError};
use std::time::Duration;

const TIMEOUT: Duration = Duration::from_secs(8);

pub struct Driver {
    path: String,
    child: Child,
    stdin: ChildStdin,
    lines: Receiver<String>,
}

fn start(path: &str) -> (Child, ChildStdin, Receiver<String>) {
    let mut child = Command::new(path)
        .stdin(Stdio::piped())
        .stdout(Stdio::piped())
        .stderr(Stdio::inherit())
        .spawn()
        .unwrap_or_else(|e| panic!("cannot start model driver {}: {}", path, e));
    let stdin = child.stdin.take().unwrap();
    let stdout = child.stdout.take().unwrap();
    let (tx, rx) = channel();
    std::thread::spawn(move || {
        let mut r = BufReader::new(stdout);
        loop {
            let mut line = String::new();
            match r.read_line(&mut line) {
                Ok(0) | Err(_) => break,
                Ok(_) => {
                    if tx.send(line.trim_end().to_string()).is_err() {
                        break;
                    }
                }
            }
        }
    });
    (child, stdin, rx)
}

impl Driver {
    pub fn spawn(path: &str) -> Driver {
        let (child, stdin, lines) = start(path);
        Driver { path: path.to_string(), child, stdin, lines }
    }
    fn restart(&mut self) {
        let _ = self.child.kill();
        let _ = self.child.wait();
        let (child, stdin, lines) = start(&self.path);
        self.child = child;
        self.stdin = stdin;
        self.lines = lines;
    }
    pub fn query(&mut self, req: &str) -> String {
        debug_assert!(!req.contains('\n'));
        let ok = self.stdin.write_all(req.as_bytes()).is_ok() && self.stdin.write_all(b"\n").is_ok() && self.stdin.flush().is_ok();
        if !ok {
            self.restart();
            return "MODEL-DRIVER-DIED".to_string();
        }
        match self.lines.recv_timeout(TIMEOUT) {
            Ok(line) => line,
            Err(RecvTimeoutError::Timeout) => {
                self.restart();
                "MODEL-TIMEOUT".to_string()
            }
            Err(RecvTimeoutError::Disconnected) => {
                self.restart();
                "MODEL-DRIVER-DIED".to_string()
            }
        }
    }
}

impl Drop for Driver {
    fn drop(&mut self) {
        let _ = self.child.kill();
        let _ = self.child.wait();
    }
}
