//! The Lean model driver as a child process answering one line per request.
use std::io::{BufRead, BufReader, Write};
use std::process::{Child, ChildStdin, ChildStdout, Command, Stdio};

pub struct Driver {
    child: Child,
    stdin: ChildStdin,
    stdout: BufReader<ChildStdout>,
}

impl Driver {
    pub fn spawn(path: &str) -> Driver {
        let mut child = Command::new(path)
            .stdin(Stdio::piped())
            .stdout(Stdio::piped())
            .stderr(Stdio::inherit())
            .spawn()
            .unwrap_or_else(|e| panic!("cannot start model driver {}: {}", path, e));
        let stdin = child.stdin.take().unwrap();
        let stdout = BufReader::new(child.stdout.take().unwrap());
        Driver { child, stdin, stdout }
    }
    pub fn query(&mut self, req: &str) -> String {
        debug_assert!(!req.contains('\n'));
        self.stdin.write_all(req.as_bytes()).unwrap();
        self.stdin.write_all(b"\n").unwrap();
        self.stdin.flush().unwrap();
        let mut line = String::new();
        let n = self.stdout.read_line(&mut line).unwrap_or(0);
        if n == 0 {
            return "MODEL-DRIVER-DIED".to_string();
        }
        line.trim_end().to_string()
    }
}

impl Drop for Driver {
    fn drop(&mut self) {
        let _ = self.child.kill();
        let _ = self.child.wait();
    }
}
