//! Helpers to run the real interpreter with the standard library loaded.
use crate::scripted::Sink;
use duckscript::types::command::CommandResult;
use duckscript::types::env::Env;
use duckscript::types::instruction::{Instruction, InstructionMetaInfo, InstructionType, ScriptInstruction};
use duckscript::types::runtime::Context;
use std::sync::atomic::AtomicBool;
use std::sync::Arc;

thread_local! {
    static SDK: Context = {
        let mut c = Context::new();
        duckscriptsdk::load(&mut c.commands).expect("sdk load");
        c
    };
}

/// a fresh context with the standard library loaded (cloned from a per-thread template)
pub fn sdk_context() -> Context {
    SDK.with(|c| c.clone())
}

pub fn quiet_env(halt: Option<Arc<AtomicBool>>) -> Env {
    Env::new(Some(Box::new(Sink)), Some(Box::new(Sink)), halt)
}

/// run one command with the given (written) arguments in `ctx`
pub fn run_one(ctx: &mut Context, command: &str, args: Vec<String>, output: Option<String>) -> (CommandResult, Option<String>) {
    let mut si = ScriptInstruction::new();
    si.command = Some(command.to_string());
    si.arguments = if args.is_empty() { None } else { Some(args) };
    si.output = output;
    let ins = Instruction { meta_info: InstructionMetaInfo::new(), instruction_type: InstructionType::Script(si) };
    let instructions = vec![ins.clone()];
    let mut env = quiet_env(None);
    duckscript::runner::run_instruction(&mut ctx.commands, &mut ctx.variables, &mut ctx.state, &instructions, ins, 0, &mut env)
}

pub fn run_text(text: &str, ctx: Context) -> Result<Context, duckscript::types::error::ScriptError> {
    duckscript::runner::run_script(text, ctx, Some(quiet_env(None)))
}

use duckscript::types::command::{Command, CommandInvocationContext};
use std::cell::RefCell;
use std::rc::Rc;
use std::sync::atomic::Ordering;
use std::sync::Mutex;
use std::time::{Duration, Instant};

/// harness command `emit`: records its (bound) arguments
#[derive(Clone)]
pub struct Emit {
    pub seen: Rc<RefCell<Vec<Vec<String>>>>,
    /// C13: when present, `emit __halt__` raises the embedder's halt flag (and notes that it did)
    pub raise: Option<Rc<std::cell::Cell<bool>>>,
}
impl Command for Emit {
    fn name(&self) -> String { "emit".to_string() }
    fn clone_and_box(&self) -> Box<dyn Command> { Box::new(self.clone()) }
    fn run(&self, ctx: CommandInvocationContext) -> CommandResult {
        self.seen.borrow_mut().push(ctx.arguments.clone());
        if let Some(r) = &self.raise {
            if ctx.arguments.len() == 1 && ctx.arguments[0] == "__halt__" {
                ctx.env.halt.store(true, Ordering::SeqCst);
                r.set(true);
            }
        }
        CommandResult::Continue(None)
    }
}

/// harness command `inc n`: decimal successor ("1" for anything that is not a plain decimal)
#[derive(Clone)]
pub struct Inc;
fn plain_decimal(s: &str) -> Option<u128> {
    if s.is_empty() || !s.bytes().all(|b| b.is_ascii_digit()) { None } else { s.parse().ok() }
}
impl Command for Inc {
    fn name(&self) -> String { "inc".to_string() }
    fn clone_and_box(&self) -> Box<dyn Command> { Box::new(self.clone()) }
    fn run(&self, ctx: CommandInvocationContext) -> CommandResult {
        if ctx.arguments.len() != 1 { return CommandResult::Error("inc".into()); }
        match plain_decimal(&ctx.arguments[0]) {
            Some(n) => CommandResult::Continue(Some((n + 1).to_string())),
            None => CommandResult::Continue(Some("1".to_string())),
        }
    }
}

/// harness command `lt a b` on plain decimals
#[derive(Clone)]
pub struct Lt;
impl Command for Lt {
    fn name(&self) -> String { "lt".to_string() }
    fn clone_and_box(&self) -> Box<dyn Command> { Box::new(self.clone()) }
    fn run(&self, ctx: CommandInvocationContext) -> CommandResult {
        if ctx.arguments.len() != 2 { return CommandResult::Error("lt".into()); }
        match (plain_decimal(&ctx.arguments[0]), plain_decimal(&ctx.arguments[1])) {
            (Some(a), Some(b)) => CommandResult::Continue(Some((a < b).to_string())),
            _ => CommandResult::Continue(Some("false".to_string())),
        }
    }
}

static WATCH: Mutex<Vec<(Instant, Arc<AtomicBool>)>> = Mutex::new(Vec::new());
static WATCH_STARTED: AtomicBool = AtomicBool::new(false);

/// a halt flag that a background watchdog raises after `ms` milliseconds
pub fn guarded_halt(ms: u64) -> Arc<AtomicBool> {
    let flag = Arc::new(AtomicBool::new(false));
    WATCH.lock().unwrap().push((Instant::now() + Duration::from_millis(ms), flag.clone()));
    if !WATCH_STARTED.swap(true, Ordering::SeqCst) {
        std::thread::spawn(|| loop {
            std::thread::sleep(Duration::from_millis(50));
            let now = Instant::now();
            let mut w = WATCH.lock().unwrap();
            w.retain(|(deadline, flag)| {
                if Arc::strong_count(flag) == 1 { return false; }
                // past the deadline the flag is raised again on every tick for as long as the run
                // holds it (a changed implementation that resets the flag must still come back)
                if *deadline <= now { flag.store(true, Ordering::SeqCst); }
                true
            });
        });
    }
    flag
}

/// handles are random: print them as `handle:*`
pub fn canon_val(v: &str) -> String {
    if v.starts_with("handle:") { "handle:*".to_string() } else { v.to_string() }
}

/// run a script with the SDK + emit/inc/lt; outcome in the canonical form of lean/DuckModel/Drv/C04.lean
pub fn run_structured(text: &str, vars: &[(String, String)]) -> String {
    run_structured_with(text, vars, false, 1500)
}

/// the same with a short watchdog (malformed programs that may loop; the answer is then `timeout`)
pub fn run_structured_short(text: &str, vars: &[(String, String)], ms: u64) -> String {
    run_structured_with(text, vars, false, ms)
}

/// the same, with `emit __halt__` raising the embedder's halt flag from inside the script (C13)
pub fn run_structured_halting(text: &str, vars: &[(String, String)]) -> String {
    run_structured_with(text, vars, true, 1500)
}

fn run_structured_with(text: &str, vars: &[(String, String)], halting: bool, ms: u64) -> String {
    let seen = Rc::new(RefCell::new(vec![]));
    let raised = Rc::new(std::cell::Cell::new(false));
    let mut ctx = sdk_context();
    ctx.commands.set(Box::new(Emit { seen: seen.clone(), raise: if halting { Some(raised.clone()) } else { None } })).unwrap();
    ctx.commands.set(Box::new(Inc)).unwrap();
    ctx.commands.set(Box::new(Lt)).unwrap();
    for (k, v) in vars {
        ctx.variables.insert(k.clone(), v.clone());
    }
    let halt = guarded_halt(ms);
    let res = duckscript::runner::run_script(text, ctx, Some(quiet_env(Some(halt.clone()))));
    if halt.load(Ordering::SeqCst) && !raised.get() {
        return "timeout".to_string();
    }
    match res {
        Ok(c) => {
            let mut items: Vec<String> = c.variables.iter().map(|(k, v)| format!("{}={}", crate::wire::enc_str(k), crate::wire::enc_str(&canon_val(v)))).collect();
            items.sort();
            let vars = if items.is_empty() { "-".to_string() } else { items.join(",") };
            let emit = seen.borrow().iter().map(|l| crate::wire::enc_list(&l.iter().map(|s| canon_val(s)).collect::<Vec<_>>())).collect::<Vec<_>>().join(";");
            // number of live collection handles in the RETURNED state
            let handles = match c.state.get("handles") {
                Some(duckscript::types::runtime::StateValue::SubState(m)) => m.len(),
                _ => 0,
            };
            format!("ok VARS {} EMIT {} HANDLES {}", vars, emit, handles)
        }
        Err(duckscript::types::error::ScriptError::Runtime(_, m)) => format!("fail {}", crate::wire::enc_opt_num(&m.unwrap_or_default().line)),
        Err(_) => "parse-error".to_string(),
    }
}
