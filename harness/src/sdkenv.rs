//! Helpers to run the real interpreter with the standard library loaded.
use crate::scripted::Sink;
use duckscript::types::command::CommandResult;
use duckscript::types::env::Env;
use duckscript::types::instruction::{Instruction, InstructionMetaInfo, InstructionType, ScriptInstruction};
use duckscript::types::runtime::Context;
use std::sync::atomic::AtomicBool;
use std::sync::Arc;

thread_local! {
    static SDK: Context = {
        let mut c = Context::new();
        duckscriptsdk::load(&mut c.commands).expect("sdk load");
        c
    };
}

/// a fresh context with the standard library loaded (cloned from a per-thread template)
pub fn sdk_context() -> Context {
    SDK.with(|c| c.clone())
}

pub fn quiet_env(halt: Option<Arc<AtomicBool>>) -> Env {
    Env::new(Some(Box::new(Sink)), Some(Box::new(Sink)), halt)
}

/// run one command with the given (written) arguments in `ctx`
pub fn run_one(ctx: &mut Context, command: &str, args: Vec<String>, output: Option<String>) -> (CommandResult, Option<String>) {
    let mut si = ScriptInstruction::new();
    si.command = Some(command.to_string());
    si.arguments = if args.is_empty() { None } else { Some(args) };
    si.output = output;
    let ins = Instruction { meta_info: InstructionMetaInfo::new(), instruction_type: InstructionType::Script(si) };
    let instructions = vec![ins.clone()];
    let mut env = quiet_env(None);
    duckscript::runner::run_instruction(&mut ctx.commands, &mut ctx.variables, &mut ctx.state, &instructions, ins, 0, &mut env)
}

pub fn run_text(text: &str, ctx: Context) -> Result<Context, duckscript::types::error::ScriptError> {
    duckscript::runner::run_script(text, ctx, Some(quiet_env(None)))
}
