//! C13: setting the halt flag stops the run at the next instruction boundary.
//! The k-th invocation of a scripted command raises the real Arc<AtomicBool>; every k.
use crate::pools;
use crate::props::c03::*;
use crate::rng::Rng;
use crate::scripted::*;
use crate::wire::*;
use crate::{Case, Prop, Tier};

pub struct C13Prop;
pub static C13: C13Prop = C13Prop;

impl Prop for C13Prop {
    fn id(&self) -> &'static str {
        "C13"
    }
    fn rule(&self) -> &'static str {
        "three streams. (1) programs over scripted commands (straight-line, goto-label and goto-line loops incl. loops that never end by themselves, handled errors with on_error) in which the k-th command invocation raises the embedder's halt flag, for k drawn over every boundary of the run; the run must return Ok with exactly the invocations up to and including the k-th in the log and the variables as they were then. Observed: call log, final variables, Ok/Err. (2) c13s: structured SDK programs of C05's generator (if/elseif/else, while, for-in, functions, functions in condition position = nested evaluator) in which one `emit` is `emit __halt__`, which raises the flag from inside; compared with the halt-aware model (Sdk/FlowHalt.lean); relation: the run returns Ok and nothing is emitted after it. (3) c13t: loop shapes that never end by themselves (goto, while over a value, while over a command condition, nested for-in over ranges, a goto-only loop, an empty while inside a function in condition position, a looping test run by `test_file` as a sub-run, also with exit_on_error on, a function that loops used as the condition of if / while / not while errors are fatal; and — in a child process with capped memory — loops of the nested evaluator made of jumps only: two functions calling each other for ever under if / not / while, scoped or not) with a SECOND THREAD raising the flag after 0-3000 us; relation: returns Ok within the time limit and at most one `tick` observed the flag set. Non-trivial = the flag is raised and at least one instruction would have followed; distinct = distinct request."
    }
    fn budget(&self, tier: Tier) -> usize {
        match tier {
            Tier::Quick => 20_000,
            Tier::Thorough => 1_000_000,
        }
    }
    fn fixed_cases(&self, _tier: Tier) -> Vec<Case> {
        let c = |shape: usize, us: u64| Case { req: format!("c13t {} {}", shape, us), in_domain: true, nontrivial: true, tags: vec!["second-thread", "fixed"] };
        vec![c(13, 1_200_000), c(11, 150_000), c(12, 150_000), c(9, 500), c(6, 500)]
    }
    fn generate(&self, rng: &mut Rng, _tier: Tier) -> Case {
        if rng.chance(1, 3) {
            return gen_structured_halt(rng);
        }
        if rng.chance(1, 40) {
            // a second thread raises the flag at a random instant of a loop that never ends by itself
            // shapes 100.. = the nested jump-only loops run in a child process (delay in ms)
            if rng.chance(1, 5) {
                return Case { req: format!("c13t {} {}", 100 + rng.below(CHILD_LOOPS.len()), 1 + rng.below(20)), in_domain: true, nontrivial: true, tags: vec!["second-thread", "child-process"] };
            }
            let shape = rng.below(13);
            let delay_us = if shape >= 11 { 20_000 + rng.below(200_000) } else { rng.below(3000) };
            return Case { req: format!("c13t {} {}", shape, delay_us), in_domain: true, nontrivial: true, tags: vec!["second-thread"] };
        }
        if rng.chance(1, 150) {
            // a LONG run: a two-instruction loop executed more than a thousand times, the flag
            // raised at a boundary around a power of two or anywhere in between
            let total = 2100usize;
            let queue: Vec<String> = (0..total).map(|i| if i % 2 == 0 { "C/-".to_string() } else { format!("GL/-/{}", enc_str(":a")) }).collect();
            let halt_at = match rng.below(8) {
                0 => 1023, 1 => 1024, 2 => 1025, 3 => 2047, 4 => 2048, 5 => 2049,
                _ => 900 + rng.below(1200),
            };
            let names: Vec<String> = ["c0", "c1", "c2", "c3"].iter().map(|s| s.to_string()).collect();
            return Case { req: mk_req(":a x = c0 v\nc1", &names, &queue, Some(halt_at), &[], total * 3 + 10), in_domain: true, nontrivial: true, tags: vec!["long-run"] };
        }
        let (text, n) = gen_program(rng, 15);
        let mut names: Vec<String> = ["c0", "c1", "c2", "c3"].iter().map(|s| s.to_string()).collect();
        let on_error = rng.chance(1, 2);
        if on_error {
            names.push("on_error".to_string());
        }
        let qn = 2 + rng.below(25);
        // mostly non-terminal results so that runs are long: continue / goto / error
        let queue: Vec<String> = (0..qn).map(|k| loop {
            let r = gen_result(rng, n, k);
            if (r.starts_with('X') || r.starts_with('Q')) && rng.chance(4, 5) {
                continue;
            }
            break r;
        }).collect();
        let mut vars: Vec<(String, String)> = vec![];
        for k in ["x", "y", "z", "w"] {
            if rng.chance(1, 2) {
                vars.push((k.to_string(), pools::value(rng)));
            }
        }
        let halt_at = 1 + rng.below(qn + 1);
        let fuel = (qn + 3) * (n + 3) + 10;
        Case { req: mk_req(&text, &names, &queue, Some(halt_at), &vars, fuel), in_domain: true, nontrivial: halt_at <= qn, tags: vec![if on_error { "on_error" } else { "no-handler" }] }
    }
    fn run_impl(&self, req: &str, model: &str) -> String {
        if req.starts_with("c13t ") {
            let t: Vec<&str> = req.split(' ').collect();
            return run_second_thread(t[1].parse().unwrap(), t[2].parse().unwrap());
        }
        if req.starts_with("c13s ") {
            let t: Vec<&str> = req.split(' ').collect();
            let m: Vec<&str> = model.split(' ').collect();
            if m.len() != 3 || !m[0].starts_with('T') {
                return format!("no-model-output {}", model);
            }
            let text = dec_str(&m[0][1..]).unwrap();
            let vars = crate::scripted::dec_vars(t[2]);
            let out = crate::sdkenv::run_structured_halting(&text, &vars);
            return format!("{} M:{} {}", m[0], out.replace(' ', "_"), m[2]);
        }
        let r = parse_req(req);
        run_scripted(&r.text, None, &r.names, &r.queue.join(","), r.halt_at, &r.vars)
    }
    fn relation(&self, req: &str, _model: &str, imp: &str) -> Option<bool> {
        if imp == "PANIC" {
            return Some(false);
        }
        if req.starts_with("c13t ") {
            return Some(imp == "sched ok");
        }
        if req.starts_with("c13s ") {
            // model-independent: the run returns Ok and nothing is emitted after `emit __halt__`
            let out = imp.split(' ').nth(1)?;
            if out == "M:timeout" {
                return None;
            }
            if !out.starts_with("M:ok_") {
                // a program that fails for a reason of its own (shrinking produces such programs):
                // no verdict from the relation, model and code are still compared
                return None;
            }
            let emit = out.split("_EMIT_").nth(1).unwrap_or("").split("_HANDLES_").next().unwrap_or("");
            let entries: Vec<&str> = if emit.is_empty() { vec![] } else { emit.split(';').collect() };
            let h = enc_list(&["__halt__".to_string()]);
            return Some(match entries.iter().position(|e| *e == h) {
                Some(p) => p + 1 == entries.len(),
                None => true,
            });
        }
        // model-independent: once the k-th invocation has raised the flag, at most one more
        // invocation may be logged (on_error of an in-flight failing instruction)
        let r = parse_req(req);
        let k = r.halt_at?;
        let logged = imp.split(" | LOG ").nth(1).map(|l| if l.is_empty() { 0 } else { l.split(';').count() }).unwrap_or(0);
        if imp == "PANIC" {
            return Some(false);
        }
        Some(logged <= k + 1)
    }
    fn shrink(&self, req: &str) -> Vec<String> {
        if req.starts_with("c13t ") {
            return vec![];
        }
        if req.starts_with("c13s ") {
            return crate::props::c04::shrink_tree(req).into_iter().map(|r| r.replacen("c04 ", "c13s ", 1)).collect();
        }
        shrink_run(req)
    }
    fn describe(&self, req: &str) -> String {
        if req.starts_with("c13t ") {
            let t: Vec<&str> = req.split(' ').collect();
            let k = t[1].parse::<usize>().unwrap();
            let text = if k >= 100 { CHILD_LOOPS[(k - 100) % CHILD_LOOPS.len()] } else { LOOPS[k % LOOPS.len()] };
            return format!("endless loop of shape {} ({}), flag raised by a second thread after {} {}", t[1], text.replace('\n', " / "), t[2], if k >= 100 { "ms (child process)" } else { "us" });
        }
        if req.starts_with("c13s ") {
            return format!("structured program (emit __halt__ raises the flag) {}", crate::props::c04::describe_tree(req));
        }
        describe_run(req)
    }
    fn outcome_kind(&self, imp: &str) -> String {
        if imp.starts_with('T') {
            return imp.split(' ').nth(1).map(|s| s.trim_start_matches("M:").split('_').next().unwrap_or("").to_string()).unwrap_or("odd".into());
        }
        imp.split(' ').next().unwrap_or("odd").to_string()
    }
}

/// a structured program (if / while / for-in / functions, functions also in condition
/// position) in which one `emit` — at top level, inside a block, inside a function body that
/// may run in the nested evaluator — is `emit __halt__`
fn gen_structured_halt(rng: &mut Rng) -> Case {
    let vars = crate::props::c04::init_vars(rng);
    let (mut toks, _rif, _nf) = crate::props::c05::gen_program(rng, false);
    let emit = enc_str("emit");
    let sites: Vec<usize> = (0..toks.len()).filter(|&i| toks[i] == "L" && i + 3 < toks.len() && toks[i + 2] == emit).collect();
    let halt_args = enc_list(&["__halt__".to_string()]);
    let mut tags = vec!["structured"];
    if sites.is_empty() {
        // no emit anywhere: the flag is raised by a last top-level line
        let n: usize = toks[0][1..].parse().unwrap();
        toks[0] = format!("B{}", n + 1);
        toks.extend(crate::props::c04::line(None, "emit", &["__halt__".to_string()]));
        tags.push("halt-last");
    } else {
        let at = sites[rng.below(sites.len())];
        toks[at + 3] = halt_args;
        tags.push("halt-inside");
    }
    if toks.iter().any(|t| t == "D") {
        tags.push("fn");
    }
    Case { req: format!("c13s {} {} 200000", toks.join(";"), vars), in_domain: true, nontrivial: !sites.is_empty(), tags }
}

/// loops that never end by themselves: goto, while over a value, while over a command
/// condition (nested evaluator), for-in over a large range with an inner if
const LOOPS: [&str; 14] = [
    ":top\ntick\ngoto :top\n",
    "while true\n  tick\nend\n",
    "while not tick\n  x = set 1\nend\n",
    "r = range 0 20000\nfor i in ${r}\n  for j in ${r}\n    for k in ${r}\n      if true\n        tick\n      end\n    end\n  end\nend\n",
    // loops made of JUMPS only (no command that answers `Continue` is ever run): in the runner,
    // and in the nested evaluator (a function in condition position)
    ":top\ngoto :top\n",
    "fn spin\n  while true\n  end\nend\nwhile spin\nend\n",
    // a SUB-RUN started by a command (`test_file` runs every test function of a file as a script of
    // its own): `@TESTFILE` = a file whose test loops for ever; with exit_on_error on in the second
    "r = test_file @TESTFILE\n",
    "exit_on_error true\nr = test_file @TESTFILE test_spin\n",
    // errors are FATAL while the flag comes up inside a function used as a condition: being
    // halted is not an error, the run still returns Ok
    "exit_on_error true\nfn spin\n  while true\n    tick\n  end\nend\nif spin\nend\n",
    "exit_on_error true\nfn spin\n  while true\n    tick\n  end\nend\nwhile spin\nend\n",
    "exit_on_error true\nfn spin\n  while true\n    tick\n  end\nend\nx = not spin\n",
    // the flag comes up while a SCRIPT-IMPLEMENTED command (called with an output variable) runs its
    // internal loop in the nested evaluator: being cut short is not a failure of that command
    "r = range 0 200000\n:again\nx = array_contains ${r} zz\ngoto :again\n",
    "r = range 0 200000\n:again\nx = array_join ${r} ,\ngoto :again\n",
    // a long `sleep` in flight (fixed case only: the flag is raised 1.2 s into a sleep of 2.5 s)
    "sleep 2500\n",
];
/// jump-only loops of the NESTED evaluator (labels are not available there; a function call and a
/// function's `end` are jumps): two functions calling each other for ever.  Every round pushes a
/// call frame, so these run in a child process (c07child: address space capped, exit 4 = no return
/// within 5 s of the flag) with the flag raised after 1-20 ms.
const CHILD_LOOPS: [&str; 4] = [
    "fn ping\n  pong\nend\nfn pong\n  ping\nend\nif ping\nend\n",
    "fn ping\n  pong\nend\nfn pong\n  ping\nend\nx = not ping\n",
    "fn <scope> ping\n  pong\nend\nfn pong\n  ping\nend\nwhile ping\nend\n",
    "fn ping\n  if pong\n  end\nend\nfn pong\n  ping\nend\nif ping\nend\n",
];

fn run_child_loop(shape: usize, delay_ms: u64) -> String {
    static N: std::sync::atomic::AtomicUsize = std::sync::atomic::AtomicUsize::new(0);
    let n = N.fetch_add(1, std::sync::atomic::Ordering::SeqCst);
    let me = match std::env::current_exe() { Ok(p) => p, Err(_) => return "sched NO-CHILD-BINARY".to_string() };
    let bin = match me.parent() { Some(d) => d.join("c07child"), None => return "sched NO-CHILD-BINARY".to_string() };
    if !bin.exists() {
        return "sched NO-CHILD-BINARY".to_string();
    }
    let file = std::env::temp_dir().join(format!("duck-c13loop-{}-{}.ds", std::process::id(), n));
    let _ = std::fs::write(&file, CHILD_LOOPS[shape % CHILD_LOOPS.len()]);
    let st = std::process::Command::new(bin)
        .arg("text").arg(&file).arg(delay_ms.to_string())
        .stdin(std::process::Stdio::null()).stdout(std::process::Stdio::null()).stderr(std::process::Stdio::null())
        .status();
    let _ = std::fs::remove_file(&file);
    match st.ok().and_then(|s| s.code()) {
        Some(0) => "sched ok".to_string(),
        Some(4) => "sched hang".to_string(),
        Some(3) => "PANIC".to_string(),
        Some(c) => format!("sched child-exit-{}", c),
        None => "sched child-killed-by-signal".to_string(),
    }
}

#[derive(Clone)]
struct Tick {
    /// ticks that ran although they could already see the flag set
    saw_flag: std::sync::Arc<std::sync::atomic::AtomicUsize>,
    total: std::sync::Arc<std::sync::atomic::AtomicUsize>,
}
impl duckscript::types::command::Command for Tick {
    fn name(&self) -> String { "tick".to_string() }
    fn clone_and_box(&self) -> Box<dyn duckscript::types::command::Command> { Box::new(self.clone()) }
    fn run(&self, ctx: duckscript::types::command::CommandInvocationContext) -> duckscript::types::command::CommandResult {
        use std::sync::atomic::Ordering;
        self.total.fetch_add(1, Ordering::SeqCst);
        if ctx.env.halt.load(Ordering::SeqCst) {
            self.saw_flag.fetch_add(1, Ordering::SeqCst);
        }
        duckscript::types::command::CommandResult::Continue(None)
    }
}

fn run_second_thread(shape: usize, delay_us: u64) -> String {
    if shape >= 100 {
        return run_child_loop(shape - 100, delay_us);
    }
    // the run itself happens on a thread of its own: an implementation that never comes back is
    // reported (`sched hang`) instead of hanging the check
    // (a shape that hung once is not run again in this process: every hang leaves a thread
    // behind that spins for ever)
    static HUNG: std::sync::atomic::AtomicU64 = std::sync::atomic::AtomicU64::new(0);
    let bit = 1u64 << (shape % 64);
    if HUNG.load(std::sync::atomic::Ordering::SeqCst) & bit != 0 {
        return "sched hang (this shape hung before in this run; not repeated)".to_string();
    }
    let (tx, rx) = std::sync::mpsc::channel();
    std::thread::spawn(move || {
        let _ = tx.send(run_second_thread_here(shape, delay_us));
    });
    match rx.recv_timeout(std::time::Duration::from_secs(12)) {
        Ok(s) => s,
        Err(_) => {
            HUNG.fetch_or(bit, std::sync::atomic::Ordering::SeqCst);
            "sched hang".to_string()
        }
    }
}

fn run_second_thread_here(shape: usize, delay_us: u64) -> String {
    use std::sync::atomic::{AtomicBool, AtomicUsize, Ordering};
    use std::sync::Arc;
    let mut ctx = crate::sdkenv::sdk_context();
    let saw = Arc::new(AtomicUsize::new(0));
    let total = Arc::new(AtomicUsize::new(0));
    ctx.commands.set(Box::new(Tick { saw_flag: saw.clone(), total: total.clone() })).unwrap();
    let halt = Arc::new(AtomicBool::new(false));
    let h2 = halt.clone();
    let raised_at = Arc::new(std::sync::Mutex::new(None));
    let r2 = raised_at.clone();
    let done = Arc::new(AtomicBool::new(false));
    let d2 = done.clone();
    let raiser = std::thread::spawn(move || {
        std::thread::sleep(std::time::Duration::from_micros(delay_us));
        // (noted BEFORE the store: the run may return the very moment the flag is up)
        *r2.lock().unwrap() = Some(std::time::Instant::now());
        h2.store(true, Ordering::SeqCst);
        // a changed implementation that resets the flag must still come back: raise it again and again
        for _ in 0..1000 {
            if d2.load(Ordering::SeqCst) {
                break;
            }
            std::thread::sleep(std::time::Duration::from_millis(5));
            h2.store(true, Ordering::SeqCst);
        }
    });
    let text = LOOPS[shape % LOOPS.len()].to_string();
    let mut test_file = None;
    let text = if text.contains("@TESTFILE") {
        static N: AtomicUsize = AtomicUsize::new(0);
        let f = std::env::temp_dir().join(format!("duck-c13-testfile-{}-{}.ds", std::process::id(), N.fetch_add(1, Ordering::SeqCst)));
        let _ = std::fs::write(&f, "fn test_spin\n  while true\n    tick\n  end\nend\n");
        let t = text.replace("@TESTFILE", &f.to_string_lossy());
        test_file = Some(f);
        t
    } else { text };
    let text = text.as_str();
    let res = duckscript::runner::run_script(text, ctx, Some(crate::sdkenv::quiet_env(Some(halt.clone()))));
    let returned = std::time::Instant::now();
    done.store(true, Ordering::SeqCst);
    if let Some(f) = test_file {
        let _ = std::fs::remove_file(f);
    }
    let raised = raised_at.lock().unwrap().clone();
    drop(raiser); // detached: it only touches its own Arc clones
    let late = match raised {
        Some(t) => returned.duration_since(t).as_millis() > 4000,
        None => false, // returned before the flag was raised?!
    };
    if res.is_err() {
        return "sched run-failed".to_string();
    }
    if raised.is_none() {
        return "sched returned-before-halt".to_string();
    }
    if late {
        return "sched late".to_string();
    }
    let extra = saw.load(Ordering::SeqCst);
    if extra > 1 {
        return format!("sched ticks-after-flag={}", extra);
    }
    "sched ok".to_string()
}
