//! C13: setting the halt flag stops the run at the next instruction boundary.
//! The k-th invocation of a scripted command raises the real Arc<AtomicBool>; every k.
use crate::pools;
use crate::props::c03::*;
use crate::rng::Rng;
use crate::scripted::*;
use crate::{Case, Prop, Tier};

pub struct C13Prop;
pub static C13: C13Prop = C13Prop;

impl Prop for C13Prop {
    fn id(&self) -> &'static str {
        "C13"
    }
    fn rule(&self) -> &'static str {
        "programs over scripted commands (straight-line, goto-label and goto-line loops incl. loops that never end by themselves, handled errors with on_error) in which the k-th command invocation raises the embedder's halt flag, for k drawn over every boundary of the run; the run must return Ok with exactly the invocations up to and including the k-th in the log and the variables as they were then. Observed: call log, final variables, Ok/Err. Also a stream with a second thread raising the flag at a random instant (only 'returns Ok promptly and nothing is logged after the harness observed the flag set' is checked there). Non-trivial = the flag is raised and at least one instruction would have followed; distinct = distinct request."
    }
    fn budget(&self, tier: Tier) -> usize {
        match tier {
            Tier::Quick => 20_000,
            Tier::Thorough => 1_000_000,
        }
    }
    fn generate(&self, rng: &mut Rng, _tier: Tier) -> Case {
        let (text, n) = gen_program(rng, 15);
        let mut names: Vec<String> = ["c0", "c1", "c2", "c3"].iter().map(|s| s.to_string()).collect();
        let on_error = rng.chance(1, 2);
        if on_error {
            names.push("on_error".to_string());
        }
        let qn = 2 + rng.below(25);
        // mostly non-terminal results so that runs are long: continue / goto / error
        let queue: Vec<String> = (0..qn).map(|k| loop {
            let r = gen_result(rng, n, k);
            if (r.starts_with('X') || r.starts_with('Q')) && rng.chance(4, 5) {
                continue;
            }
            break r;
        }).collect();
        let mut vars: Vec<(String, String)> = vec![];
        for k in ["x", "y", "z", "w"] {
            if rng.chance(1, 2) {
                vars.push((k.to_string(), pools::value(rng)));
            }
        }
        let halt_at = 1 + rng.below(qn + 1);
        let fuel = (qn + 3) * (n + 3) + 10;
        Case { req: mk_req(&text, &names, &queue, Some(halt_at), &vars, fuel), in_domain: true, nontrivial: halt_at <= qn, tags: vec![if on_error { "on_error" } else { "no-handler" }] }
    }
    fn run_impl(&self, req: &str, _model: &str) -> String {
        let r = parse_req(req);
        run_scripted(&r.text, None, &r.names, &r.queue.join(","), r.halt_at, &r.vars)
    }
    fn relation(&self, req: &str, _model: &str, imp: &str) -> Option<bool> {
        // model-independent: once the k-th invocation has raised the flag, at most one more
        // invocation may be logged (on_error of an in-flight failing instruction)
        let r = parse_req(req);
        let k = r.halt_at?;
        let logged = imp.split(" | LOG ").nth(1).map(|l| if l.is_empty() { 0 } else { l.split(';').count() }).unwrap_or(0);
        if imp == "PANIC" {
            return Some(false);
        }
        Some(logged <= k + 1)
    }
    fn shrink(&self, req: &str) -> Vec<String> {
        shrink_run(req)
    }
    fn describe(&self, req: &str) -> String {
        describe_run(req)
    }
}
