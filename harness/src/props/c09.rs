//! C09: wrapping a command in if / elseif / while / not / a user alias / eval does not change
//! its arguments.  A capture command `cap` is invoked with values held in variables, directly
//! (`cap ${a0} ${a1} …` — the oracle) and through a wrapper; the case passes iff the wrapped
//! invocation received exactly the arguments of the direct one.  The Lean model
//! (`Reser.roundTripFull`) predicts what arrives for EVERY value, so recorded finding classes
//! K1..K7 are recognised by input class and must still fail the way the model says.
use crate::pools;
use crate::rng::Rng;
use crate::wire::*;
use crate::{Case, Prop, Tier};
use duckscript::types::command::{Command, CommandInvocationContext, CommandResult};
use std::cell::RefCell;
use std::rc::Rc;
use std::sync::atomic::Ordering;

pub struct C09Prop;
pub static C09: C09Prop = C09Prop;

/// records its (bound) arguments; answers "false" so that `while` / `if` bodies are skipped
#[derive(Clone)]
struct Cap {
    seen: Rc<RefCell<Vec<Vec<String>>>>,
}
impl Command for Cap {
    fn name(&self) -> String {
        "cap".to_string()
    }
    fn clone_and_box(&self) -> Box<dyn Command> {
        Box::new(self.clone())
    }
    fn run(&self, ctx: CommandInvocationContext) -> CommandResult {
        self.seen.borrow_mut().push(ctx.arguments.clone());
        CommandResult::Continue(Some("false".to_string()))
    }
}

const WRAPPERS: [&str; 10] = ["not", "if", "elseif", "while", "alias", "alias1", "eval", "alias2", "aliasjump", "aliasdeep"];
const HIST_WRAPPERS: [&'static str; 5] = ["hist:not", "hist:if", "hist:while", "hist:alias", "hist:eval"];

/// mirror of `Reser.Safe` / `firstOK` / `lastOK` (cross-checked against the model on every
/// case: the D/X flag is part of the compared line; and per value by the fixed `safe` cases)
/// mirror of `Reser.xStable`: the second binding leaves the value alone
fn x_stable(v: &str) -> bool {
    let mut mode = 0; // 0 normal, 1 right after a live backslash, 2 right after a live '$'
    for c in v.chars() {
        if c == '%' {
            return false;
        }
        mode = match mode {
            0 => if c == '\\' { 1 } else if c == '$' { 2 } else { 0 },
            1 => if c == '$' { return false } else { 0 },
            _ => if c == '{' { return false } else { 0 },
        };
    }
    true
}
fn safe(v: &str) -> bool {
    x_stable(v) && !v.contains(|c| c == '\r' || c == '\n')
        && if v.contains(' ') { !v.contains('"') } else { !v.contains('#') && !v.starts_with('"') }
}
fn first_ok(v: &str) -> bool {
    v.contains(' ') || !v.starts_with('=')
}
fn last_ok(v: &str) -> bool {
    v.contains(' ') || v.chars().last().map_or(true, |c| !c.is_whitespace())
}
pub fn in_domain(vals: &[String]) -> bool {
    vals.iter().all(|v| safe(v)) && vals.first().map_or(true, |v| first_ok(v)) && vals.last().map_or(true, |v| last_ok(v))
}

fn arg_refs(from: usize, n: usize) -> String {
    (from..n).map(|i| format!(" ${{a{}}}", i)).collect()
}

fn script(wrapper: &str, n: usize) -> String {
    if let Some(w) = wrapper.strip_prefix("hist:") {
        // a history in the same run: forty alias / eval invocations whose rebuilt line does not
        // parse (an unterminated quote) before the direct and the wrapped call — state kept by the
        // wrappers between invocations must not change what later wrapped calls receive
        let pre = "hist_bad = set \"\\\"x\"\nalias hist_probe noop_hist p\nhist_r = range 0 40\nfor hist_i in ${hist_r}\n    hist_probe ${hist_bad}\n    eval noop_hist ${hist_bad}\nend\nrelease ${hist_r}\n";
        return format!("{}{}", pre, script(w, n));
    }
    let all = arg_refs(0, n);
    let wrapped = match wrapper {
        "not" => format!("not cap{}", all),
        "if" => format!("if cap{}\nend", all),
        "elseif" => format!("if false\nelseif cap{}\nend", all),
        "while" => format!("while cap{}\nend", all),
        "alias" => format!("alias mycap cap\nmycap{}", all),
        "alias1" => {
            if n == 0 {
                "alias mycap cap\nmycap".to_string()
            } else {
                format!("alias mycap cap ${{a0}}\nmycap{}", arg_refs(1, n))
            }
        }
        // an alias of an alias, the inner one re-defined in between: the outer alias resolves the
        // inner NAME when it is called (two passes through the rebuilt line)
        "alias2" => format!("alias mid cap OLD\nalias outer mid\nunalias mid\nalias mid cap\nouter{}", all),
        // a chain of 41 aliases, each naming the previous one (41 passes through the rebuilt line)
        "aliasdeep" => {
            let mut t = String::from("alias m1 cap\n");
            for k in 2..=41 {
                t.push_str(&format!("alias m{} m{}\n", k, k - 1));
            }
            format!("{}m41{}", t, all)
        }
        // an alias of a command that answers with a jump: the jump is the alias's result
        // (`cap SKIPPED` must not run, `cap AFTER` must)
        "aliasjump" => format!("alias myjump capjump\nmyjump{}\ncap SKIPPED\n:c09target\ncap AFTER", all),
        _ => format!("eval cap{}", all),
    };
    format!("cap{}\n{}\n", all, wrapped)
}

fn enc_recv(calls: &[Vec<String>]) -> String {
    match calls.len() {
        0 => "nocall".to_string(),
        1 => format!("call:{}", enc_list(&calls[0])),
        n => format!("calls:{}", n),
    }
}

/// like `cap`, but answers with a jump to the label `:c09target`
#[derive(Clone)]
struct CapJump {
    seen: Rc<RefCell<Vec<Vec<String>>>>,
}
impl Command for CapJump {
    fn name(&self) -> String {
        "capjump".to_string()
    }
    fn clone_and_box(&self) -> Box<dyn Command> {
        Box::new(self.clone())
    }
    fn run(&self, ctx: CommandInvocationContext) -> CommandResult {
        self.seen.borrow_mut().push(ctx.arguments.clone());
        CommandResult::GoTo(None, duckscript::types::command::GoToValue::Label(":c09target".to_string()))
    }
}

/// run the real interpreter: returns (direct calls, wrapped calls) of `cap`
fn run_real(vars: &[(String, String)], vals: &[String], wrapper: &str) -> Option<(Vec<Vec<String>>, Vec<Vec<String>>)> {
    let seen = Rc::new(RefCell::new(vec![]));
    let mut ctx = crate::sdkenv::sdk_context();
    ctx.commands.set(Box::new(Cap { seen: seen.clone() })).unwrap();
    ctx.commands.set(Box::new(CapJump { seen: seen.clone() })).unwrap();
    for (k, v) in vars {
        ctx.variables.insert(k.clone(), v.clone());
    }
    for (i, v) in vals.iter().enumerate() {
        ctx.variables.insert(format!("a{}", i), v.clone());
    }
    let halt = crate::sdkenv::guarded_halt(3000);
    let _ = duckscript::runner::run_script(&script(wrapper, vals.len()), ctx, Some(crate::sdkenv::quiet_env(Some(halt.clone()))));
    if halt.load(Ordering::SeqCst) && !(wrapper.ends_with("while") && !in_domain(vals)) {
        // (a `while` whose rebuilt condition line is broken — a value outside the safe class, the
        // recorded K-classes — may test something that stays true for ever: the watchdog ends it and
        // the calls seen so far are reported like for every other wrapper)
        return None;
    }
    let s = seen.borrow();
    if s.is_empty() {
        return Some((vec![], vec![]));
    }
    if wrapper == "aliasjump" && s.len() >= 2 {
        // the jump was taken iff the last call is `cap AFTER` and `cap SKIPPED` never ran; then
        // only the call through the alias counts as "wrapped"
        let after = s.last() == Some(&vec!["AFTER".to_string()]);
        let skipped = s[1..].iter().any(|c| *c == vec!["SKIPPED".to_string()]);
        let mid: Vec<Vec<String>> = s[1..s.len() - 1].iter().filter(|c| **c != vec!["SKIPPED".to_string()]).cloned().collect();
        if after && !skipped {
            return Some((vec![s[0].clone()], mid));
        }
        if in_domain(vals) || (after && skipped && mid.len() == 1) {
            // the alias ran but its jump was lost
            return Some((vec![s[0].clone()], vec![vec!["JUMP-NOT-TAKEN".to_string()]]));
        }
        return Some((vec![s[0].clone()], mid));
    }
    Some((vec![s[0].clone()], s[1..].to_vec()))
}

fn parse_req(req: &str) -> (Vec<(String, String)>, Vec<String>, String) {
    let t: Vec<&str> = req.split(' ').collect();
    (crate::scripted::dec_vars(t[1]), dec_list(t[2]).unwrap(), t[3].to_string())
}

fn mk_req(vars: &[(String, String)], vals: &[String], wrapper: &str) -> String {
    let vs = if vars.is_empty() { "-".to_string() } else { vars.iter().map(|(k, v)| format!("{}={}", enc_str(k), enc_str(v))).collect::<Vec<_>>().join(",") };
    format!("c09 {} {} {}", vs, enc_list(vals), wrapper)
}

fn mk_case(vars: &[(String, String)], vals: &[String], wrapper: &'static str, tag: &'static str) -> Case {
    let dom = in_domain(vals);
    let nontrivial = vals.iter().any(|v| v.is_empty() || v.chars().any(|c| !c.is_ascii_alphanumeric()));
    Case { req: mk_req(vars, vals, wrapper), in_domain: dom, nontrivial, tags: vec![tag, wrapper, if dom { "safe-domain" } else { "outside-safe" }] }
}

/// a value inside the safe class that still carries syntax characters
fn safe_value(rng: &mut Rng) -> String {
    let raw = if rng.chance(1, 3) { rng.pick(&pools::VALUES).to_string() } else { pools::text(rng, 8) };
    let mut v: String = raw.chars().filter(|c| !"%\r\n".contains(*c)).collect();
    while !x_stable(&v) {
        v = v.replacen("${", "$", 1).replacen("\\$", "$", 1);
    }
    if v.contains(' ') {
        v = v.chars().filter(|c| *c != '"').collect();
    } else {
        v = v.chars().filter(|c| *c != '#').collect();
        while v.starts_with('"') {
            v.remove(0);
        }
    }
    v
}

const ALPHABET: [char; 13] = ['a', 'x', ' ', '"', '\\', '#', '$', '%', '{', '}', '\n', '\t', '='];

fn all_strings(max_len: usize) -> Vec<String> {
    let mut out = vec![String::new()];
    let mut layer = vec![String::new()];
    for _ in 0..max_len {
        let mut next = vec![];
        for s in &layer {
            for c in ALPHABET {
                let mut t = s.clone();
                t.push(c);
                next.push(t);
            }
        }
        out.extend(next.iter().cloned());
        layer = next;
    }
    out
}

fn class_of(vals: &[String]) -> Option<&'static str> {
    if vals.iter().any(|v| v.contains('\r') || v.contains('\n')) {
        return Some("C09/K1-crlf");
    }
    if vals.first().map_or(false, |v| v.starts_with('=') && !v.contains(' ')) {
        return Some("C09/K6-leading-equals");
    }
    if vals.last().map_or(false, |v| !v.contains(' ') && v.chars().last().map_or(false, |c| c.is_whitespace())) {
        return Some("C09/K7-trailing-ws");
    }
    if vals.iter().any(|v| v.contains('#') && !v.contains(' ')) {
        return Some("C09/K2-hash");
    }
    if vals.iter().any(|v| (v.contains('"') && v.contains(' ')) || v.starts_with('"')) {
        return Some("C09/K3-quote");
    }
    if vals.iter().any(|v| v.contains("${") || v.contains("\\$") || v.contains("\\%")) {
        return Some("C09/K5-dollar-backslash");
    }
    if vals.iter().any(|v| v.contains('%')) {
        return Some("C09/K4-percent");
    }
    None
}

impl Prop for C09Prop {
    fn id(&self) -> &'static str {
        "C09"
    }
    fn rule(&self) -> &'static str {
        "0-4 argument values (adversarial pool: spaces, quotes, backslashes, '#', ${..}, %{..}, CR/LF, tabs and other Unicode white space, '=', multi-byte, empty; half of the cases filtered into the proved-safe class) held in variables a0.. (plus optional x, y), handed to a capture command directly (`cap ${a0} …`, the oracle) and through one of not / if / elseif / while / alias / alias with a stored argument / eval in the real SDK context. Relation (model-free): the wrapped invocation received exactly the direct invocation's arguments. Model comparison on every case: domain flag, what the wrapped call receives (Reser.roundTripFull), what the direct call receives. Two more streams: (after-history) the same comparison after forty alias / eval invocations whose rebuilt line does not parse, in the same run; (branch) programs in which a user function `p` (body `q = set ${o}`, ended by falling off `end`, a bare `return` or `return ${r}`; o, r from a pool of truthy / falsy words incl. trailing LF / CRLF and blanks) is called directly (`d = p x 'y z'`) and as the condition of if / elseif / not / while or inside another function used as condition: the goto-machine model (request c04raw) and the real interpreter run the same text, and the model-free relation demands that the recorded branch is the one the direct call's output determines. Fixed cases: every value of length <= 3 (thorough: 4) over the alphabet a x space \" \\ # $ % { } LF TAB = in first and in later argument position through `not`, plus the finding witnesses through every wrapper. Non-trivial = some value is empty or has a non-alphanumeric character; distinct = distinct request."
    }
    fn budget(&self, tier: Tier) -> usize {
        match tier {
            Tier::Quick => 20_000,
            Tier::Thorough => 2_000_000,
        }
    }
    fn fixed_cases(&self, tier: Tier) -> Vec<Case> {
        let mut out = vec![];
        let vars = vec![("x".to_string(), "XV".to_string())];
        let z = "z".to_string();
        for v in all_strings(if tier == Tier::Thorough { 4 } else { 3 }) {
            out.push(mk_case(&vars, &[v.clone(), z.clone()], "not", "exhaustive-first"));
            out.push(mk_case(&vars, &[z.clone(), v.clone()], "not", "exhaustive-later"));
        }
        let witnesses: [&[&str]; 14] = [
            &["a\nb"], &["a#b"], &["\"ab"], &["a \"b"], &["\"a\""], &["\""], &["p% q"], &["%{x}"], &["${x}"],
            &["\\$x"], &["=x", "y"], &["x\t"], &["a b", "c #d", "a\"b", "é漢😀", "", "a\\", "t\tt", " "], &[],
        ];
        for w in witnesses {
            let vals: Vec<String> = w.iter().map(|s| s.to_string()).collect();
            for wr in WRAPPERS {
                out.push(mk_case(&vars, &vals, wr, "witness"));
            }
        }
        out
    }
    fn generate(&self, rng: &mut Rng, _tier: Tier) -> Case {
        let n = rng.below(5);
        let keep_safe = rng.chance(1, 2);
        let mut vals: Vec<String> = (0..n).map(|_| if keep_safe { safe_value(rng) } else { pools::value(rng) }).collect();
        if keep_safe && !in_domain(&vals) {
            // repair the two position conditions by padding with a plain value
            if !vals.first().map_or(true, |v| first_ok(v)) {
                vals.insert(0, "w".to_string());
            }
            if !vals.last().map_or(true, |v| last_ok(v)) {
                vals.push("w".to_string());
            }
        }
        let mut vars = vec![];
        for k in ["x", "y"] {
            if rng.chance(1, 2) {
                vars.push((k.to_string(), pools::value(rng)));
            }
        }
        if rng.chance(1, 4) {
            return gen_branch_case(rng);
        }
        let wrapper = WRAPPERS[rng.below(WRAPPERS.len())];
        if rng.chance(1, 12) {
            return mk_case(&vars, &vals, HIST_WRAPPERS[rng.below(HIST_WRAPPERS.len())], "after-history");
        }
        mk_case(&vars, &vals, wrapper, "random")
    }
    fn run_impl(&self, req: &str, model: &str) -> String {
        if req.starts_with("c04raw ") {
            return crate::props::c04::run_impl_structured(req, model);
        }
        let (vars, vals, wrapper) = parse_req(req);
        let dom = if in_domain(&vals) { "D" } else { "X" };
        match run_real(&vars, &vals, &wrapper) {
            None => format!("{} timeout timeout", dom),
            Some((direct, wrapped)) => format!("{} {} {}", dom, enc_recv(&wrapped), enc_recv(&direct)),
        }
    }
    fn relation(&self, req: &str, _model: &str, imp: &str) -> Option<bool> {
        if req.starts_with("c04raw ") {
            return branch_relation(imp);
        }
        let t: Vec<&str> = imp.split(' ').collect();
        if t.len() != 3 {
            return Some(false);
        }
        Some(t[1].starts_with("call:") && t[1] == t[2])
    }
    fn known(&self, req: &str, model: &str, imp: &str) -> Option<String> {
        // a recorded class only when the case is outside the proved-safe domain, the input
        // is in the class, AND the code still fails exactly as the model predicts
        if model != imp || req.starts_with("c04raw ") {
            return None;
        }
        let (_, vals, _) = parse_req(req);
        if in_domain(&vals) {
            return None;
        }
        class_of(&vals).map(|s| s.to_string())
    }
    fn outcome_kind(&self, imp: &str) -> String {
        if imp.starts_with('T') {
            return "branch-program".to_string();
        }
        let t: Vec<&str> = imp.split(' ').collect();
        if t.len() != 3 {
            return imp.to_string();
        }
        if t[1] == t[2] { "same-arguments".into() } else if t[1] == "nocall" { "not-called".into() } else { "altered-arguments".into() }
    }
    fn shrink(&self, req: &str) -> Vec<String> {
        if req.starts_with("c04raw ") {
            return vec![];
        }
        let (vars, vals, wrapper) = parse_req(req);
        let mut out = vec![];
        for i in 0..vals.len() {
            let mut v = vals.clone();
            v.remove(i);
            out.push(mk_req(&vars, &v, &wrapper));
        }
        for i in 0..vars.len() {
            let mut v = vars.clone();
            v.remove(i);
            out.push(mk_req(&v, &vals, &wrapper));
        }
        for i in 0..vals.len() {
            let cs: Vec<char> = vals[i].chars().collect();
            for j in 0..cs.len() {
                let mut c = cs.clone();
                c.remove(j);
                let mut v = vals.clone();
                v[i] = c.into_iter().collect();
                out.push(mk_req(&vars, &v, &wrapper));
            }
        }
        if wrapper != "not" {
            out.push(mk_req(&vars, &vals, "not"));
        }
        out
    }
    fn describe(&self, req: &str) -> String {
        if req.starts_with("c04raw ") {
            return format!("branch taken through a wrapper vs the direct call's output: {}", crate::props::c04::describe_tree(req));
        }
        let (vars, vals, wrapper) = parse_req(req);
        format!("cap {:?} directly vs through {} (extra vars {:?})", vals, wrapper, vars)
    }
}

// ---------------------------------------------------------------------------------------------
// the branch taken: a predicate's OUTPUT decides, directly and through every wrapper
// ---------------------------------------------------------------------------------------------

/// values a predicate may yield (truthy / falsy / with line breaks or blanks around a falsy word)
// (operator words and parentheses are plain truthy VALUES when a command yields them)
const OUTS: [&str; 22] = ["true", "false", "0", "1", "no", "", "abc", " ", "FALSE", "No", "0\n", "false\r\n", "\n", "no\n", " 0", "yes\n", "and", "or", "(", ")", "AND", "( )"];

/// `fn p` whose body runs `q = set ${o}` (so the LAST body command yields `${o}`) and then ends
/// by falling off its end, by a bare `return`, or by `return ${r}`; the program calls it directly
/// (`d = p x y`) and through a wrapper, and records the branch taken. The predicate's output
/// comes from variables read INSIDE the body, its arguments are plain words (so the arguments
/// survive the wrappers' re-serialisation and only the output handling is exercised). Both the
/// goto-machine model (request `c04raw`) and the real interpreter run the same text.
fn gen_branch_case(rng: &mut Rng) -> Case {
    use crate::props::c04::line;
    let s = |x: &str| x.to_string();
    let ending = rng.below(5);
    let mut wrapper = rng.below(7);
    if wrapper == 5 && ending != 2 && ending != 4 {
        // (a predicate that yields nothing to `not` — bare return, a removed variable, falling off
        // its end — is always falsy: `while not p` would not end)
        wrapper = 4;
    }
    // the predicate's name: mostly `p`; one case in three a name that is also a boolean literal
    // or an operator word of the condition language (a registered command in first position is
    // RUN, whatever its name), called with two arguments or with none
    let pname: &str = if rng.chance(1, 3) { rng.pick_s(&["true", "false", "True", "FALSE", "yes", "0", "1"]) } else { "p" };
    let pargs: Vec<String> = if pname != "p" && rng.chance(1, 2) { vec![] } else { vec![s("x"), s("y z")] };
    let mut ls: Vec<Vec<String>> = vec![];
    ls.push(line(None, if rng.chance(1, 2) { "fn" } else { "function" }, &[s(pname)]));
    ls.push(line(Some("q"), "set", &[s("${o}")]));
    match ending {
        0 => {}
        1 => ls.push(line(None, "return", &[])),
        2 => ls.push(line(None, "return", &[s("${r}")])),
        3 => {
            // a command WITHOUT output assigned to a variable that holds a value (the variable is
            // removed), then that variable is returned: nothing comes back
            ls.push(line(Some("q"), "emit", &[s("no-output")]));
            ls.push(line(None, "return", &[s("${q}")]));
        }
        _ => ls.push(line(None, "return", &[s("${r}"), s("${o}")])),
    }
    ls.push(line(None, "end", &[]));
    // direct call: its output is the oracle
    ls.push(line(Some("d"), pname, &pargs));
    let mut call = vec![s(pname)];
    call.extend(pargs.clone());
    match wrapper {
        0 => {
            ls.push(line(None, "if", &call));
            ls.push(line(Some("b"), "set", &[s("then")]));
            ls.push(line(None, "else", &[]));
            ls.push(line(Some("b"), "set", &[s("else")]));
            ls.push(line(None, "end", &[]));
        }
        1 => {
            // (`no`: a falsy literal that is never the predicate's name)
            ls.push(line(None, "if", &[s(if pname == "p" { "false" } else { "no" })]));
            ls.push(line(Some("b"), "set", &[s("first")]));
            ls.push(line(None, "elseif", &call));
            ls.push(line(Some("b"), "set", &[s("then")]));
            ls.push(line(None, "else", &[]));
            ls.push(line(Some("b"), "set", &[s("else")]));
            ls.push(line(None, "end", &[]));
        }
        2 => {
            ls.push(line(Some("n"), "not", &call));
        }
        3 => {
            // the body makes the predicate falsy for the next test
            ls.push(line(Some("b"), "set", &[s("else")]));
            ls.push(line(None, "while", &call));
            ls.push(line(Some("b"), "set", &[s("then")]));
            ls.push(line(Some("o"), "set", &[s("false")]));
            ls.push(line(Some("r"), "set", &[s("false")]));
            ls.push(line(None, "end", &[]));
        }
        4 => {
            // negated, in condition position: `if not p …`
            ls.push(line(Some("neg"), "set", &[s("1")]));
            let mut c = vec![s("not")];
            c.extend(call.clone());
            ls.push(line(None, "if", &c));
            ls.push(line(Some("b"), "set", &[s("then")]));
            ls.push(line(None, "else", &[]));
            ls.push(line(Some("b"), "set", &[s("else")]));
            ls.push(line(None, "end", &[]));
        }
        5 => {
            // `while not p …`: the body makes the predicate truthy for the next test
            ls.push(line(Some("neg"), "set", &[s("1")]));
            ls.push(line(Some("b"), "set", &[s("else")]));
            let mut c = vec![s("not")];
            c.extend(call.clone());
            ls.push(line(None, "while", &c));
            ls.push(line(Some("b"), "set", &[s("then")]));
            ls.push(line(Some("o"), "set", &[s("true")]));
            ls.push(line(Some("r"), "set", &[s("true")]));
            ls.push(line(None, "end", &[]));
        }
        _ => {
            // two-level: the predicate is called by another function used as the condition
            ls.insert(0, line(None, "end", &[]));
            ls.insert(0, line(None, "return", &[s("${t}")]));
            ls.insert(0, line(Some("t"), pname, &pargs));
            ls.insert(0, line(None, "fn", &[s("outer")]));
            ls.push(line(None, "if", &[s("outer")]));
            ls.push(line(Some("b"), "set", &[s("then")]));
            ls.push(line(None, "else", &[]));
            ls.push(line(Some("b"), "set", &[s("else")]));
            ls.push(line(None, "end", &[]));
        }
    }
    let mut toks = vec![format!("B{}", ls.len())];
    for l in ls {
        toks.extend(l);
    }
    let o = rng.pick_s(&OUTS);
    let r = rng.pick_s(&OUTS);
    let vars = format!("{}={},{}={}", enc_str("o"), enc_str(o), enc_str("r"), enc_str(r));
    Case { req: format!("c04raw {} {} 600", toks.join(";"), vars), in_domain: true, nontrivial: true, tags: vec!["branch", ["fall-off-end", "bare-return", "return-value", "return-removed-variable", "return-two-words"][ending], ["if", "elseif", "not", "while", "if-not", "while-not", "if-two-level"][wrapper], if pname == "p" { "plain-name" } else if pargs.is_empty() { "literal-name-no-args" } else { "literal-name" }] }
}

fn truthy(v: Option<&String>) -> bool {
    match v {
        None => false,
        Some(t) => {
            let l = t.to_lowercase();
            !(l.is_empty() || l == "0" || l == "false" || l == "no")
        }
    }
}

/// model-independent: the branch recorded in `b` / the value of `n` is the one the DIRECT call's
/// output `d` determines
fn branch_relation(imp: &str) -> Option<bool> {
    let out = imp.split(' ').nth(1)?;
    let rest = out.strip_prefix("M:ok_VARS_")?;
    let vars_tok = rest.split("_EMIT_").next()?;
    let vars: std::collections::HashMap<String, String> = crate::scripted::dec_vars(vars_tok).into_iter().collect();
    // (`neg` marks the wrappers that negate the predicate)
    let d = truthy(vars.get("d")) != vars.contains_key("neg");
    if let Some(n) = vars.get("n") {
        return Some((n == "true") == !d);
    }
    match vars.get("b").map(|s| s.as_str()) {
        Some("then") => Some(d),
        Some("else") => Some(!d),
        _ => Some(false),
    }
}
