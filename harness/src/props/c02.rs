//! C02: variable binding is verbatim, single-pass and never changes the argument count.
//! Written arguments are rendered by the Lean specification (`Spec.renderTemplate`); the
//! real `bind_command_arguments` is observed through a capture command via `run_instruction`.
use crate::pools;
use crate::rng::Rng;
use crate::wire::*;
use crate::{Case, Prop, Tier};
use duckscript::types::command::{Command, CommandInvocationContext, CommandResult};
use duckscript::types::instruction::{Instruction, InstructionMetaInfo, InstructionType, ScriptInstruction};
use duckscript::types::runtime::Context;
use std::cell::RefCell;
use std::rc::Rc;

pub struct C02Prop;
pub static C02: C02Prop = C02Prop;

#[derive(Clone)]
pub struct Capture {
    pub seen: Rc<RefCell<Vec<Vec<String>>>>,
}
impl Command for Capture {
    fn name(&self) -> String {
        "cap".to_string()
    }
    fn clone_and_box(&self) -> Box<dyn Command> {
        Box::new(self.clone())
    }
    fn run(&self, ctx: CommandInvocationContext) -> CommandResult {
        self.seen.borrow_mut().push(ctx.arguments.clone());
        CommandResult::Continue(None)
    }
}

/// bind `written` under `vars` in the real runner and return what the command received
pub fn real_bind(vars: &[(String, String)], written: Vec<String>) -> Vec<String> {
    let seen = Rc::new(RefCell::new(vec![]));
    let mut ctx = Context::new();
    ctx.commands.set(Box::new(Capture { seen: seen.clone() })).unwrap();
    for (k, v) in vars {
        ctx.variables.insert(k.clone(), v.clone());
    }
    let mut si = ScriptInstruction::new();
    si.command = Some("cap".to_string());
    si.arguments = Some(written);
    let ins = Instruction { meta_info: InstructionMetaInfo::new(), instruction_type: InstructionType::Script(si) };
    let instructions = vec![ins.clone()];
    let mut env = crate::sdkenv::quiet_env(None);
    duckscript::runner::run_instruction(&mut ctx.commands, &mut ctx.variables, &mut ctx.state, &instructions, ins, 0, &mut env);
    let r = seen.borrow().last().cloned().unwrap_or_default();
    r
}

/// the templates written as one line of script text, the way a user writes them: `cap a1 a2 …`
/// with `${name}` / `\${name}` / `%{name}` as such, `"`, LF, CR, TAB of the literal text as
/// `\"`, `\n`, `\r`, `\t`, and quotes around an argument that needs them (empty, white space,
/// `#`, leading `"` or `=`) or, half of the time, that does not
pub fn render_text(targs: &[&str], rng_bits: u64) -> String {
    let mut line = String::from("cap");
    for (k, a) in targs.iter().enumerate() {
        line.push(' ');
        if let Some(r) = a.strip_prefix('S') {
            line.push_str(&format!("%{{{}}}", dec_str(r).unwrap()));
            continue;
        }
        let mut body = String::new();
        let mut needs = *a == "T";
        let mut first_lit: Option<char> = None;
        let mut first_seg = true;
        if *a != "T" {
            for sgm in a.split('+') {
                let v = dec_str(&sgm[1..]).unwrap();
                match &sgm[..1] {
                    "L" => {
                        if first_seg {
                            first_lit = v.chars().next();
                        }
                        for c in v.chars() {
                            if c.is_whitespace() || c == '#' {
                                needs = true;
                            }
                            match c {
                                '"' => body.push_str("\\\""),
                                '\n' => body.push_str("\\n"),
                                '\r' => body.push_str("\\r"),
                                '\t' => body.push_str("\\t"),
                                _ => body.push(c),
                            }
                        }
                    }
                    "V" => body.push_str(&format!("${{{}}}", v)),
                    _ => body.push_str(&format!("\\${{{}}}", v)),
                }
                first_seg = false;
            }
        }
        if body.is_empty() || first_lit == Some('"') || first_lit == Some('=') {
            needs = true;
        }
        if needs || (rng_bits >> k) & 1 == 1 {
            line.push('"');
            line.push_str(&body);
            line.push('"');
        } else {
            line.push_str(&body);
        }
    }
    line
}

/// run the one-line script under `vars` in the real parser + runner; what `cap` received
pub fn real_bind_text(vars: &[(String, String)], text: &str) -> String {
    let seen = Rc::new(RefCell::new(vec![]));
    let mut ctx = Context::new();
    ctx.commands.set(Box::new(Capture { seen: seen.clone() })).unwrap();
    for (k, v) in vars {
        ctx.variables.insert(k.clone(), v.clone());
    }
    match duckscript::runner::run_script(text, ctx, Some(crate::sdkenv::quiet_env(None))) {
        Ok(_) => {
            let r = seen.borrow().last().cloned();
            match r {
                Some(v) => enc_list(&v),
                None => "NOT-A-SCRIPT-LINE".to_string(),
            }
        }
        Err(e) => {
            let k = format!("{:?}", e);
            format!("PARSE-ERROR-{}", k.split('(').next().unwrap_or(""))
        }
    }
}

// (`PATH` / `HOME` exist in the process environment: an undefined script variable of that name is
// still "nothing"; `a$b` / `rate%` are legal names — only spaces, `=` and `}` end or break a name)
// names with Unicode white space that is NOT a name-ending character (NBSP, form feed, U+3000,
// U+2028), the EMPTY name (`${}` / `%{}` - definable through set_by_name or by the embedder) and
// names made of syntax characters are legal too
// numeric names in several spellings (`1`, `01`, `+1`, `007`, `7`): a name is a text, `${01}` is not `${1}`
const NAMES: [&str; 23] = ["x", "y", "long_name", "a.b", "é", "n1", "PATH", "HOME", "a$b", "rate%", "", "first\u{a0}name", "a\u{c}b", "\u{3000}w", "u\u{2028}", "a:b", "#h", "{", "1", "01", "+1", "007", "7"];

fn lit(rng: &mut Rng) -> String {
    let n = 1 + rng.below(5);
    let mut s = String::new();
    for _ in 0..n {
        let c = match rng.below(8) {
            0 => ' ',
            1 => '{',
            2 => '}',
            3 => '"',
            4 => '#',
            5 => *rng.pick(&pools::ODD),
            _ => (b'a' + rng.below(26) as u8) as char,
        };
        if c != '$' && c != '%' && c != '\\' {
            s.push(c);
        }
    }
    s
}

fn gen_targ(rng: &mut Rng) -> String {
    if rng.chance(1, 6) {
        return format!("S{}", enc_str(rng.pick_s(&NAMES)));
    }
    let n = rng.below(4);
    if n == 0 {
        return "T".to_string();
    }
    (0..n).map(|_| match rng.below(4) {
        0 => format!("L{}", enc_str(&lit(rng))),
        1 | 2 => format!("V{}", enc_str(rng.pick_s(&NAMES))),
        _ => format!("E{}", enc_str(rng.pick_s(&NAMES))),
    }).collect::<Vec<_>>().join("+")
}

fn spread_plain_value(rng: &mut Rng) -> String {
    // values for spread variables inside the domain: no '"' and no '#'
    let v = pools::value(rng);
    v.chars().filter(|c| *c != '"' && *c != '#').collect()
}

impl Prop for C02Prop {
    fn id(&self) -> &'static str {
        "C02"
    }
    fn rule(&self) -> &'static str {
        "argument lists of 1-5 arguments, each a template of literal text (free of $ % backslash), ${name}, \\${name} segments or a whole-argument %{name}, rendered by the Lean specification; environments over 6 names with values from the adversarial pool (spaces, quotes, backslashes, '#', line breaks, text that looks like ${x} / %{x}, multi-byte, empty, all-space); plus raw random argument text over $ % { } \\ and letters (outside the domain: model vs code only). Observed: the argument list received by a capture command. Non-trivial = at least one variable segment whose value contains a syntax character; distinct = distinct request."
    }
    fn budget(&self, tier: Tier) -> usize {
        match tier {
            Tier::Quick => 30_000,
            Tier::Thorough => 2_000_000,
        }
    }
    fn generate(&self, rng: &mut Rng, _tier: Tier) -> Case {
        let mut vars: Vec<(String, String)> = vec![];
        let raw = rng.chance(1, 5);
        let n = 1 + rng.below(5);
        let targs: Vec<String> = if raw {
            vec![]
        } else {
            (0..n).map(|_| gen_targ(rng)).collect()
        };
        let spread_names: Vec<String> = targs.iter().filter(|t| t.starts_with('S')).map(|t| dec_str(&t[1..]).unwrap()).collect();
        for k in NAMES {
            if rng.chance(2, 3) {
                let v = if spread_names.iter().any(|s| s == k) { spread_plain_value(rng) } else { pools::value(rng) };
                vars.push((k.to_string(), v));
            }
        }
        let vs = if vars.is_empty() { "-".to_string() } else { vars.iter().map(|(k, v)| format!("{}={}", enc_str(k), enc_str(v))).collect::<Vec<_>>().join(",") };
        if raw {
            let args: Vec<String> = (0..n).map(|_| {
                let m = rng.below(10);
                (0..m).map(|_| *rng.pick(&['$', '%', '{', '}', '\\', 'x', 'y', ' ', '=', '"'])).collect::<String>()
            }).collect();
            return Case { req: format!("bind {} {}", vs, enc_list(&args)), in_domain: false, nontrivial: true, tags: vec!["raw-syntax"] };
        }
        let nontrivial = vars.iter().any(|(_, v)| v.chars().any(|c| "$%{}\\\" #\n\t".contains(c)));
        let mut tags = vec!["template"];
        if !spread_names.is_empty() { tags.push("spread"); }
        if targs.iter().any(|t| t.contains('E')) { tags.push("escaped-var"); }
        if rng.chance(1, 3) {
            // the same templates written as script text and parsed by the real parser
            tags.push("as-script-text");
            // (the Lean specification `Spec.capLine` writes the line; bit k of the last token = the
            // author quotes argument k although it is not necessary)
            return Case { req: format!("c02t {} {} {}", vs, targs.join(","), rng.below(32)), in_domain: true, nontrivial, tags };
        }
        Case { req: format!("c02 {} {}", vs, targs.join(",")), in_domain: true, nontrivial, tags }
    }
    fn run_impl(&self, req: &str, model: &str) -> String {
        let t: Vec<&str> = req.split(' ').collect();
        let vars = crate::scripted::dec_vars(t[1]);
        if t[0] == "bind" {
            return enc_list(&real_bind(&vars, dec_list(t[2]).unwrap()));
        }
        let m: Vec<&str> = model.split(' ').collect();
        if t[0] == "c02t" {
            if m.len() != 4 || !m[0].starts_with('T') {
                return format!("no-model-output {}", model);
            }
            let text = dec_str(&m[0][1..]).unwrap();
            return format!("{} {} {} {}", m[0], m[1], m[2], real_bind_text(&vars, &text));
        }
        let written = dec_list(m[0]).unwrap();
        format!("{} {} {} {}", m[0], m[1], m[2], enc_list(&real_bind(&vars, written)))
    }
    fn relation(&self, req: &str, model: &str, imp: &str) -> Option<bool> {
        if imp == "PANIC" {
            return Some(false);
        }
        if req.starts_with("c02t ") {
            let m: Vec<&str> = model.split(' ').collect();
            if m.len() != 4 || m[1] != "DOM" {
                return None;
            }
            let i: Vec<&str> = imp.split(' ').collect();
            return Some(i.len() == 4 && i[3] == m[2]);
        }
        if !req.starts_with("c02 ") {
            return None;
        }
        let m: Vec<&str> = model.split(' ').collect();
        if m[1] != "DOM" {
            return None; // outside the theorem's domain (shrinking may leave it): no verdict
        }
        let i: Vec<&str> = imp.split(' ').collect();
        Some(i[3] == m[2])
    }
    fn outcome_kind(&self, imp: &str) -> String {
        if imp == "PANIC" { "PANIC".into() } else { "bound".into() }
    }
    fn shrink(&self, req: &str) -> Vec<String> {
        let t: Vec<&str> = req.split(' ').collect();
        let mut out = vec![];
        if t[0] != "c02" && t[0] != "c02t" {
            return out;
        }
        let op = t[0];
        let tail = if t.len() > 3 { format!(" {}", t[3]) } else { String::new() };
        let targs: Vec<&str> = t[2].split(',').collect();
        if targs.len() > 1 {
            for i in 0..targs.len() {
                let mut a = targs.clone();
                a.remove(i);
                out.push(format!("{} {} {}{}", op, t[1], a.join(","), tail));
            }
        }
        if t[1] != "-" {
            let vars: Vec<&str> = t[1].split(',').collect();
            for i in 0..vars.len() {
                let mut v = vars.clone();
                v.remove(i);
                out.push(format!("{} {} {}{}", op, if v.is_empty() { "-".to_string() } else { v.join(",") }, t[2], tail));
            }
        }
        for (i, a) in targs.iter().enumerate() {
            let segs: Vec<&str> = a.split('+').collect();
            if segs.len() > 1 {
                for j in 0..segs.len() {
                    let mut s = segs.clone();
                    s.remove(j);
                    let mut b = targs.clone();
                    let joined = s.join("+");
                    b[i] = &joined;
                    out.push(format!("{} {} {}{}", op, t[1], b.join(","), tail));
                }
            }
        }
        out
    }
    fn describe(&self, req: &str) -> String {
        let t: Vec<&str> = req.split(' ').collect();
        let vars = crate::scripted::dec_vars(t[1]);
        if t[0] == "bind" {
            return format!("bind vars={:?} written={:?}", vars, dec_list(t[2]).unwrap());
        }
        let targs: Vec<String> = t[2].split(',').map(|a| {
            if a == "T" { return "<empty>".to_string(); }
            if let Some(r) = a.strip_prefix('S') { return format!("%{{{}}}", dec_str(r).unwrap()); }
            a.split('+').map(|s| {
                let v = dec_str(&s[1..]).unwrap();
                match &s[..1] { "L" => v, "V" => format!("${{{}}}", v), _ => format!("\\${{{}}}", v) }
            }).collect::<Vec<_>>().join("")
        }).collect();
        if t[0] == "c02t" {
            let refs: Vec<&str> = t[2].split(',').collect();
            return format!("run the script line (as written by Spec.capLine, roughly) {:?} quote-bits {} with vars={:?}", render_text(&refs, t[3].parse().unwrap_or(0)), t[3], vars);
        }
        format!("bind vars={:?} written={:?}", vars, targs)
    }
}
