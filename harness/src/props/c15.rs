//! C15: the command registry is a consistent name/alias map (public `Commands` API).
use crate::rng::Rng;
use crate::wire::*;
use crate::{Case, Prop, Tier};
use duckscript::types::command::{Command, Commands};

pub struct C15Prop;
pub static C15: C15Prop = C15Prop;

#[derive(Clone)]
struct TestCmd {
    name: String,
    aliases: Vec<String>,
    tag: usize,
}
impl Command for TestCmd {
    fn name(&self) -> String {
        self.name.clone()
    }
    fn aliases(&self) -> Vec<String> {
        self.aliases.clone()
    }
    fn help(&self) -> String {
        self.tag.to_string()
    }
    fn clone_and_box(&self) -> Box<dyn Command> {
        Box::new(self.clone())
    }
}

fn enc_cmd(c: &Box<dyn Command>) -> String {
    format!("{}/{}/{}", enc_str(&c.name()), enc_list(&c.aliases()), c.help())
}

const NAMES: [&str; 5] = ["a", "b", "c", "x", "y"];

/// the universe of registrations for the exhaustive enumeration: includes names that equal
/// another command's alias, shared aliases, duplicate aliases, an alias equal to the own name
fn universe() -> Vec<(String, Vec<String>)> {
    vec![
        ("a".into(), vec!["x".into()]),
        ("x".into(), vec![]),
        ("c".into(), vec!["x".into()]),
        ("b".into(), vec!["y".into(), "x".into()]),
        ("y".into(), vec!["a".into()]),
        ("a".into(), vec![]),
        ("c".into(), vec!["c".into(), "y".into(), "y".into()]),
    ]
}

fn all_ops() -> Vec<String> {
    let mut ops = vec![];
    for (n, al) in universe() {
        ops.push(format!("S/{}/{}/T", enc_str(&n), enc_list(&al)));
    }
    for n in ["a", "x", "c", "y"] {
        ops.push(format!("R/{}", enc_str(n)));
    }
    ops
}

fn finish(ops: &[String]) -> String {
    // give every registration a distinct tag and append lookups of every name
    let mut out = vec![];
    for (i, o) in ops.iter().enumerate() {
        out.push(o.replace("/T", &format!("/{}", i + 1)));
    }
    for n in NAMES {
        out.push(format!("G/{}", enc_str(n)));
        out.push(format!("E/{}", enc_str(n)));
    }
    out.push("N".to_string());
    format!("reg {}", out.join(";"))
}

impl Prop for C15Prop {
    fn id(&self) -> &'static str {
        "C15"
    }
    fn rule(&self) -> &'static str {
        "histories of set/get/exists/remove/get_all_command_names on the public Commands API over the names {a,b,c,x,y} with alias sets that include names equal to another command's alias, shared, duplicate and self aliases: all histories of <= k mutating operations (k=3 quick, 4 thorough) over 11 operations exhaustively, each followed by lookups of every name; plus random longer histories. Observed: every return value, and the complete name and alias tables (public fields) at the end. Non-trivial = at least 2 mutating operations; distinct = distinct request."
    }
    fn budget(&self, tier: Tier) -> usize {
        match tier {
            Tier::Quick => 20_000,
            Tier::Thorough => 1_000_000,
        }
    }
    fn fixed_cases(&self, tier: Tier) -> Vec<Case> {
        let ops = all_ops();
        let k = if tier == Tier::Quick { 3 } else { 4 };
        let mut out = vec![];
        let mut cur: Vec<Vec<String>> = vec![vec![]];
        for len in 0..=k {
            let mut next = vec![];
            for h in &cur {
                out.push(Case { req: finish(h), in_domain: true, nontrivial: h.len() >= 2, tags: vec!["exhaustive"] });
                if len < k {
                    for o in &ops {
                        let mut n = h.clone();
                        n.push(o.clone());
                        next.push(n);
                    }
                }
            }
            cur = next;
        }
        out
    }
    fn generate(&self, rng: &mut Rng, _tier: Tier) -> Case {
        let n = 1 + rng.below(14);
        let mut ops = vec![];
        for _ in 0..n {
            match rng.below(10) {
                0..=4 => {
                    let name = rng.pick(&NAMES).to_string();
                    let k = rng.below(3);
                    let al: Vec<String> = (0..k).map(|_| rng.pick(&NAMES).to_string()).collect();
                    ops.push(format!("S/{}/{}/T", enc_str(&name), enc_list(&al)));
                }
                5..=7 => ops.push(format!("R/{}", enc_str(rng.pick_s(&NAMES)))),
                8 => ops.push(format!("G/{}", enc_str(rng.pick_s(&NAMES)))),
                _ => ops.push("N".to_string()),
            }
        }
        Case { req: finish(&ops), in_domain: true, nontrivial: n >= 2, tags: vec!["random"] }
    }
    fn run_impl(&self, req: &str, _m: &str) -> String {
        let ops = req.split(' ').nth(1).unwrap();
        let mut cmds = Commands::new();
        let mut outs = vec![];
        if ops != "-" {
            for o in ops.split(';') {
                let f: Vec<&str> = o.split('/').collect();
                match f[0] {
                    "S" => {
                        let c = TestCmd { name: dec_str(f[1]).unwrap(), aliases: dec_list(f[2]).unwrap(), tag: f[3].parse().unwrap() };
                        outs.push(if cmds.set(Box::new(c)).is_ok() { "1".to_string() } else { "0".to_string() });
                    }
                    "G" => {
                        let n = dec_str(f[1]).unwrap();
                        let a = cmds.get(&n).map(enc_cmd).unwrap_or("-".to_string());
                        let b = cmds.get_for_use(&n).map(|c| enc_cmd(&c)).unwrap_or("-".to_string());
                        outs.push(if a == b { a } else { format!("get/get_for_use-differ:{}:{}", a, b) });
                    }
                    "E" => outs.push(if cmds.exists(&dec_str(f[1]).unwrap()) { "1".into() } else { "0".into() }),
                    "R" => outs.push(if cmds.remove(&dec_str(f[1]).unwrap()) { "1".into() } else { "0".into() }),
                    "N" => outs.push(enc_list(&cmds.get_all_command_names())),
                    _ => outs.push("?".into()),
                }
            }
        }
        let mut c: Vec<String> = cmds.commands.iter().map(|(k, v)| format!("{}>{}", enc_str(k), enc_cmd(v))).collect();
        c.sort();
        let mut a: Vec<String> = cmds.aliases.iter().map(|(k, v)| format!("{}>{}", enc_str(k), enc_str(v))).collect();
        a.sort();
        format!("{} | CMDS {} ALIASES {}", outs.join(";"), c.join(","), a.join(","))
    }
    fn relation(&self, _req: &str, _m: &str, imp: &str) -> Option<bool> {
        // model-independent: no alias points to a command that is gone
        if imp == "PANIC" {
            return Some(false);
        }
        let st = imp.split(" | ").nth(1)?;
        let cm = st.strip_prefix("CMDS ")?;
        let (cpart, apart) = cm.split_once(" ALIASES")?;
        let names: Vec<&str> = cpart.split(',').filter(|s| !s.is_empty()).map(|e| e.split('>').next().unwrap()).collect();
        for e in apart.trim().split(',').filter(|s| !s.is_empty()) {
            let target = e.split('>').nth(1).unwrap();
            if !names.contains(&target) {
                return Some(false);
            }
        }
        Some(true)
    }
    fn shrink(&self, req: &str) -> Vec<String> {
        let ops: Vec<&str> = req.split(' ').nth(1).unwrap().split(';').collect();
        let mut out = vec![];
        for i in 0..ops.len() {
            let mut o = ops.clone();
            o.remove(i);
            if !o.is_empty() {
                out.push(format!("reg {}", o.join(";")));
            }
        }
        out
    }
    fn describe(&self, req: &str) -> String {
        let ops = req.split(' ').nth(1).unwrap();
        ops.split(';').map(|o| {
            let f: Vec<&str> = o.split('/').collect();
            match f[0] {
                "S" => format!("set {}{:?}", dec_str(f[1]).unwrap(), dec_list(f[2]).unwrap()),
                "N" => "names".to_string(),
                k => format!("{} {}", match k { "G" => "get", "E" => "exists", _ => "remove" }, dec_str(f[1]).unwrap()),
            }
        }).collect::<Vec<_>>().join("; ")
    }
}
