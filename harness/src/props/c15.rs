//! C15: the command registry is a consistent name/alias map.
//! Stream `reg`: histories on the public `Commands` API.  Stream `regs`: histories of the
//! script-level commands alias / unalias / remove_command / is_command_defined / fn run in-process
//! in a context with the SDK loaded (model: lean/DuckModel/Sdk/RegistryCmd.lean).
use crate::rng::Rng;
use crate::wire::*;
use crate::{Case, Prop, Tier};
use duckscript::types::command::{Command, CommandInvocationContext, CommandResult, Commands, GoToValue};
use duckscript::types::instruction::{Instruction, InstructionMetaInfo, InstructionType, ScriptInstruction};
use duckscript::types::runtime::{Context, StateValue};
use std::cell::RefCell;
use std::collections::{BTreeSet, HashMap};
use std::rc::Rc;

pub struct C15Prop;
pub static C15: C15Prop = C15Prop;

#[derive(Clone)]
struct TestCmd {
    name: String,
    aliases: Vec<String>,
    tag: usize,
}
impl Command for TestCmd {
    fn name(&self) -> String {
        self.name.clone()
    }
    fn aliases(&self) -> Vec<String> {
        self.aliases.clone()
    }
    fn help(&self) -> String {
        self.tag.to_string()
    }
    fn clone_and_box(&self) -> Box<dyn Command> {
        Box::new(self.clone())
    }
}

fn enc_cmd(c: &Box<dyn Command>) -> String {
    format!("{}/{}/{}", enc_str(&c.name()), enc_list(&c.aliases()), c.help())
}

const NAMES: [&str; 5] = ["a", "b", "c", "x", "y"];

/// the universe of registrations for the exhaustive enumeration: includes names that equal
/// another command's alias, shared aliases, duplicate aliases, an alias equal to the own name
fn universe() -> Vec<(String, Vec<String>)> {
    vec![
        ("a".into(), vec!["x".into()]),
        ("x".into(), vec![]),
        ("c".into(), vec!["x".into()]),
        ("b".into(), vec!["y".into(), "x".into()]),
        ("y".into(), vec!["a".into()]),
        ("a".into(), vec![]),
        ("c".into(), vec!["c".into(), "y".into(), "y".into()]),
    ]
}

fn all_ops() -> Vec<String> {
    let mut ops = vec![];
    for (n, al) in universe() {
        ops.push(format!("S/{}/{}/T", enc_str(&n), enc_list(&al)));
    }
    for n in ["a", "x", "c", "y"] {
        ops.push(format!("R/{}", enc_str(n)));
    }
    ops
}

fn finish(ops: &[String]) -> String {
    // give every registration a distinct tag and append lookups of every name
    let mut out = vec![];
    for (i, o) in ops.iter().enumerate() {
        out.push(o.replace("/T", &format!("/{}", i + 1)));
    }
    for n in NAMES {
        out.push(format!("G/{}", enc_str(n)));
        out.push(format!("E/{}", enc_str(n)));
    }
    out.push("N".to_string());
    format!("reg {}", out.join(";"))
}


// ---------------------------------------------------------------------------------------------
// stream `regs`: the script-level commands
// ---------------------------------------------------------------------------------------------

const SNAMES: [&str; 3] = ["a", "b", "foo"];
const PROBE: &str = "c15probe";

/// target of every alias the harness creates: records its arguments (the first one is the id of
/// the creating `alias` call)
/// a second probe that is registered ONLY while a command is being classified (`kind_of`): when
/// the `alias` naming it as its target runs, that word is not a command (yet)
const LATE_PROBE: &str = "c15lateprobe";

#[derive(Clone)]
struct Probe {
    seen: Rc<RefCell<Vec<Vec<String>>>>,
    late: bool,
}
impl Command for Probe {
    fn name(&self) -> String {
        if self.late { LATE_PROBE.to_string() } else { PROBE.to_string() }
    }
    fn clone_and_box(&self) -> Box<dyn Command> {
        Box::new(self.clone())
    }
    fn run(&self, ctx: CommandInvocationContext) -> CommandResult {
        self.seen.borrow_mut().push(ctx.arguments.clone());
        CommandResult::Continue(None)
    }
}

/// one operation of a `regs` request (wire form documented in lean/DuckModel/Drv/C15S.lean)
#[derive(Clone, Debug)]
enum SOp {
    N { name: String, al: Vec<String>, t: usize },
    A { args: Vec<String>, id: usize },
    U(Vec<String>),
    R(Vec<String>),
    D(Vec<String>),
    F { name: String, line: usize, has_end: bool, scoped: bool },
}

fn parse_sops(req: &str) -> Vec<SOp> {
    let ops = req.split(' ').nth(1).unwrap_or("-");
    let mut out = vec![];
    if ops == "-" {
        return out;
    }
    for o in ops.split(';') {
        let f: Vec<&str> = o.split('/').collect();
        out.push(match f[0] {
            "N" => SOp::N { name: dec_str(f[1]).unwrap(), al: dec_list(f[2]).unwrap(), t: f[3].parse().unwrap() },
            "A" => SOp::A { args: dec_list(f[1]).unwrap(), id: f[2].parse().unwrap() },
            "U" => SOp::U(dec_list(f[1]).unwrap()),
            "R" => SOp::R(dec_list(f[1]).unwrap()),
            "D" => SOp::D(dec_list(f[1]).unwrap()),
            "F" => SOp::F { name: dec_str(f[1]).unwrap(), line: f[2].parse().unwrap(), has_end: f[3] == "1", scoped: f[4] == "1" },
            other => panic!("bad op {}", other),
        });
    }
    out
}

fn render_sop(o: &SOp) -> String {
    match o {
        SOp::N { name, al, t } => format!("N/{}/{}/{}", enc_str(name), enc_list(al), t),
        SOp::A { args, id } => format!("A/{}/{}", enc_list(args), id),
        SOp::U(a) => format!("U/{}", enc_list(a)),
        SOp::R(a) => format!("R/{}", enc_list(a)),
        SOp::D(a) => format!("D/{}", enc_list(a)),
        SOp::F { name, line, has_end, scoped } => format!("F/{}/{}/{}/{}", enc_str(name), line, *has_end as u8, *scoped as u8),
    }
}

fn render_sreq(ops: &[SOp]) -> String {
    if ops.is_empty() {
        "regs -".to_string()
    } else {
        format!("regs {}", ops.iter().map(render_sop).collect::<Vec<_>>().join(";"))
    }
}

/// templates of the generators: ids and lines are filled in by `number`
#[derive(Clone)]
enum Tmpl {
    N(&'static str, Vec<&'static str>),
    /// alias: `None` = no argument at all; (name, extra): 0 = name only (arity error),
    /// 1 = name + target + id, 2 = one more argument
    A(Option<(&'static str, usize)>),
    U(Vec<&'static str>),
    R(Vec<&'static str>),
    D(Vec<&'static str>),
    /// fn name; line: None = the line the operation has when the history is written as one script
    F(&'static str, Option<usize>, bool, bool),
}

/// line of operation `i` when the whole history is written as one script (`fn` takes two lines)
fn canonical_lines(kinds: &[(bool, bool)]) -> Vec<usize> {
    // kinds: (takes a line at all, is fn with end)
    let mut cur = 0;
    let mut out = vec![];
    for (has_line, two) in kinds {
        out.push(cur);
        if *has_line {
            cur += if *two { 2 } else { 1 };
        }
    }
    out
}

fn number(ts: &[Tmpl]) -> Vec<SOp> {
    let kinds: Vec<(bool, bool)> = ts.iter().map(|t| match t {
        Tmpl::N(..) => (false, false),
        Tmpl::F(_, _, e, _) => (true, *e),
        _ => (true, false),
    }).collect();
    let lines = canonical_lines(&kinds);
    let strs = |v: &Vec<&'static str>| v.iter().map(|s| s.to_string()).collect::<Vec<String>>();
    ts.iter().enumerate().map(|(i, t)| match t {
        Tmpl::N(n, al) => SOp::N { name: n.to_string(), al: strs(al), t: i + 1 },
        Tmpl::A(None) => SOp::A { args: vec![], id: i },
        Tmpl::A(Some((n, extra))) => {
            let mut args = vec![n.to_string()];
            if *extra >= 3 {
                // a target word that is not a command when `alias` runs (it is registered only
                // while the new command is classified): `alias` does not look at its target
                args.push(LATE_PROBE.to_string());
                args.push(i.to_string());
            } else {
                if *extra >= 1 {
                    args.push(PROBE.to_string());
                    args.push(i.to_string());
                }
                if *extra >= 2 {
                    args.push("x".to_string());
                }
            }
            SOp::A { args, id: i }
        }
        Tmpl::U(a) => SOp::U(strs(a)),
        Tmpl::R(a) => SOp::R(strs(a)),
        Tmpl::D(a) => SOp::D(strs(a)),
        Tmpl::F(n, line, e, sc) => SOp::F { name: n.to_string(), line: line.unwrap_or(lines[i]), has_end: *e, scoped: *sc },
    }).collect()
}

fn exhaustive_templates() -> Vec<Tmpl> {
    let mut v = vec![];
    for n in SNAMES {
        v.push(Tmpl::A(Some((n, 1))));
        v.push(Tmpl::U(vec![n]));
        v.push(Tmpl::R(vec![n]));
        v.push(Tmpl::D(vec![n]));
        v.push(Tmpl::F(n, None, true, false));
    }
    v.push(Tmpl::N("std::B", vec!["b"]));
    v
}

/// histories that show what the real commands do with stale records (4 and 5 operations)
fn regression_templates() -> Vec<Vec<Tmpl>> {
    vec![
        // refused alias of a function, then unalias: the function must survive
        vec![Tmpl::F("foo", None, true, false), Tmpl::A(Some(("foo", 1))), Tmpl::U(vec!["foo"]), Tmpl::D(vec!["foo"])],
        vec![Tmpl::N("foo", vec![]), Tmpl::A(Some(("foo", 1))), Tmpl::U(vec!["foo"]), Tmpl::D(vec!["foo"])],
        vec![Tmpl::A(Some(("foo", 1))), Tmpl::A(Some(("foo", 2))), Tmpl::U(vec!["foo"]), Tmpl::U(vec!["foo"]), Tmpl::D(vec!["foo"])],
        // stale alias record after remove_command: unalias removes the later function
        vec![Tmpl::A(Some(("foo", 1))), Tmpl::R(vec!["foo"]), Tmpl::F("foo", None, true, false), Tmpl::U(vec!["foo"]), Tmpl::D(vec!["foo"])],
        vec![Tmpl::A(Some(("foo", 1))), Tmpl::R(vec!["foo"]), Tmpl::N("std::A", vec!["foo"]), Tmpl::U(vec!["foo"]), Tmpl::D(vec!["std::A"])],
        // an embedder alias over a recorded name: unalias removes the native command
        vec![Tmpl::A(Some(("b", 1))), Tmpl::N("std::B", vec!["b"]), Tmpl::U(vec!["b"]), Tmpl::D(vec!["b"]), Tmpl::D(vec!["std::B"])],
        // the function table outlives the function / a refused definition blocks the name
        vec![Tmpl::F("foo", None, true, false), Tmpl::R(vec!["foo"]), Tmpl::F("foo", None, true, false), Tmpl::D(vec!["foo"])],
        vec![Tmpl::A(Some(("foo", 1))), Tmpl::F("foo", None, true, true), Tmpl::U(vec!["foo"]), Tmpl::F("foo", None, true, false), Tmpl::D(vec!["foo"])],
        // the same fn line again skips the block; no end of block crashes
        vec![Tmpl::F("foo", Some(3), true, false), Tmpl::F("foo", Some(3), true, false), Tmpl::F("a", Some(7), false, false), Tmpl::D(vec!["a"])],
        // words that look like options are names like any other
        vec![Tmpl::A(Some(("a", 1))), Tmpl::A(Some(("foo", 1))), Tmpl::U(vec!["-a"]), Tmpl::D(vec!["a"]), Tmpl::D(vec!["foo"]), Tmpl::U(vec!["--all"]), Tmpl::R(vec!["-a"]), Tmpl::D(vec!["a"])],
        // alias of a word that is not a command (yet / any more)
        vec![Tmpl::A(Some(("a", 3))), Tmpl::D(vec!["a"]), Tmpl::A(Some(("foo", 4))), Tmpl::D(vec!["foo"]), Tmpl::R(vec!["a"]), Tmpl::A(Some(("b", 4))), Tmpl::D(vec!["b"])],
        // arity
        vec![Tmpl::A(None), Tmpl::A(Some(("a", 0))), Tmpl::A(Some(("a", 2))), Tmpl::U(vec![]), Tmpl::U(vec!["a", "b"]), Tmpl::R(vec![]), Tmpl::R(vec!["a", "b"]), Tmpl::D(vec![]), Tmpl::D(vec!["a", "b"])],
    ]
}

fn random_templates(rng: &mut Rng) -> Vec<Tmpl> {
    const NAT: [&str; 4] = ["std::B", "std::A", "a", "foo"];
    let n = 1 + rng.below(12);
    let mut ts: Vec<Tmpl> = vec![];
    // a realistic start: some native registrations first
    for _ in 0..rng.below(3) {
        let k = rng.below(3);
        let al: Vec<&'static str> = (0..k).map(|_| rng.pick_s(&SNAMES)).collect();
        ts.push(Tmpl::N(rng.pick_s(&NAT), al));
    }
    for _ in 0..n {
        let name = rng.pick_s(&SNAMES);
        let t = match rng.below(20) {
            0..=5 => Tmpl::A(Some((name, if rng.chance(1, 12) { rng.below(3) } else if rng.chance(1, 5) { 3 + rng.below(2) } else { 1 }))),
            6..=9 => Tmpl::U(vec![name]),
            10..=12 => Tmpl::R(vec![name]),
            13..=14 => Tmpl::D(vec![name]),
            15..=17 => {
                // mostly the canonical line; sometimes the line of an earlier fn (re-run of that line)
                let line = if rng.chance(1, 6) {
                    let earlier: Vec<usize> = number(&ts).iter().filter_map(|o| if let SOp::F { line, .. } = o { Some(*line) } else { None }).collect();
                    if earlier.is_empty() { Some(rng.below(6)) } else { Some(*rng.pick(&earlier)) }
                } else {
                    None
                };
                Tmpl::F(name, line, !rng.chance(1, 15), rng.chance(1, 4))
            }
            18 => {
                let k = rng.below(3);
                let al: Vec<&'static str> = (0..k).map(|_| rng.pick_s(&SNAMES)).collect();
                Tmpl::N(rng.pick_s(&NAT), al)
            }
            _ => match rng.below(5) {
                0 => Tmpl::A(None),
                1 => Tmpl::U(if rng.chance(1, 2) { vec![] } else { vec![name, rng.pick_s(&SNAMES)] }),
                2 => Tmpl::R(if rng.chance(1, 2) { vec![] } else { vec![name, rng.pick_s(&SNAMES)] }),
                3 => Tmpl::D(if rng.chance(1, 2) { vec![] } else { vec![name, rng.pick_s(&SNAMES)] }),
                _ => Tmpl::U(vec![rng.pick_s(&["std::B", "-a", "--all", "*", "-r"])]),
            },
        };
        ts.push(t);
    }
    ts
}

/// what the registry of the loaded SDK (+ the probe) looks like: key -> aliases, alias -> name
struct Baseline {
    commands: HashMap<String, Vec<String>>,
    aliases: HashMap<String, String>,
}

thread_local! {
    static BASE: Baseline = {
        let c = crate::sdkenv::sdk_context();
        let mut commands: HashMap<String, Vec<String>> = c.commands.commands.iter().map(|(k, v)| (k.clone(), v.aliases())).collect();
        commands.insert(PROBE.to_string(), vec![]);
        Baseline { commands, aliases: c.commands.aliases.clone() }
    };
}

fn fresh_context() -> (Context, Rc<RefCell<Vec<Vec<String>>>>) {
    let mut ctx = crate::sdkenv::sdk_context();
    let seen = Rc::new(RefCell::new(vec![]));
    ctx.commands.set(Box::new(Probe { seen: seen.clone(), late: false })).expect("probe");
    (ctx, seen)
}

/// what kind of implementation a (new) registered command is: `n<tag>` for the harness's native
/// commands (their help text is the tag); otherwise the command is RUN on a copy of the context:
/// an alias reaches the probe with the id of its creating call, a function answers with a jump
/// to the line after its definition
fn kind_of(cmd: &Box<dyn Command>, ctx: &Context, seen: &Rc<RefCell<Vec<Vec<String>>>>) -> String {
    if let Ok(t) = cmd.help().parse::<usize>() {
        return format!("n{}", t);
    }
    let mut c2 = ctx.clone();
    let _ = c2.commands.set(Box::new(Probe { seen: seen.clone(), late: true }));
    let before = seen.borrow().len();
    let instructions = vec![];
    let mut env = crate::sdkenv::quiet_env(None);
    let res = cmd.run(CommandInvocationContext {
        arguments: vec![],
        state: &mut c2.state,
        variables: &mut c2.variables,
        output_variable: None,
        instructions: &instructions,
        commands: &mut c2.commands,
        line: 0,
        env: &mut env,
    });
    let grown = seen.borrow().len() > before;
    let k = match res {
        CommandResult::GoTo(None, GoToValue::Line(l)) if l >= 1 && !grown => format!("f{}", l - 1),
        CommandResult::Continue(None) if grown => {
            let s = seen.borrow();
            format!("a{}", s.last().and_then(|a| a.first().cloned()).unwrap_or("?".to_string()))
        }
        _ => "?".to_string(),
    };
    seen.borrow_mut().truncate(before);
    k
}

fn sub_state<'a>(m: &'a HashMap<String, StateValue>, key: &str) -> Option<&'a HashMap<String, StateValue>> {
    match m.get(key) {
        Some(StateValue::SubState(s)) => Some(s),
        _ => None,
    }
}

/// the observed state of the real context.  Registry: every entry of the two tables that is not
/// an unchanged entry of the loaded SDK (a missing SDK entry prints as `-key`); the `ALIAS_STATE`
/// sub-state; the function meta-info.  `kinds`: classify the new commands by running them
/// (final observation) or by their help text only (cheap per-step snapshots).
fn observe(ctx: &Context, seen: &Rc<RefCell<Vec<Vec<String>>>>, kinds: bool) -> (String, String) {
    BASE.with(|b| {
        let mut cm = vec![];
        for (k, v) in ctx.commands.commands.iter() {
            let al = v.aliases();
            let unchanged = b.commands.get(k).map(|bal| *bal == al && v.name() == *k).unwrap_or(false);
            if !unchanged {
                let kind = if v.name() != *k {
                    "name-mismatch".to_string()
                } else if kinds {
                    kind_of(v, ctx, seen)
                } else {
                    format!("help:{}", v.help().len())
                };
                cm.push(format!("{}>{}/{}", enc_str(k), kind, enc_list(&al)));
            }
        }
        for k in b.commands.keys() {
            if !ctx.commands.commands.contains_key(k) {
                cm.push(format!("-{}", enc_str(k)));
            }
        }
        cm.sort();
        let mut am = vec![];
        for (k, v) in ctx.commands.aliases.iter() {
            if b.aliases.get(k) != Some(v) {
                am.push(format!("{}>{}", enc_str(k), enc_str(v)));
            }
        }
        for k in b.aliases.keys() {
            if !ctx.commands.aliases.contains_key(k) {
                am.push(format!("-{}", enc_str(k)));
            }
        }
        am.sort();
        let mut sub = vec![];
        if let Some(s) = sub_state(&ctx.state, "ALIAS_STATE") {
            for (k, v) in s {
                match v {
                    StateValue::Boolean(true) => sub.push(enc_str(k)),
                    _ => sub.push(format!("{}:odd", enc_str(k))),
                }
            }
        }
        sub.sort();
        let mut fns = vec![];
        if let Some(mi) = sub_state(&ctx.state, "duckscriptsdk::command::function").and_then(|f| sub_state(f, "meta_info")) {
            for (k, v) in mi {
                if let StateValue::SubState(info) = v {
                    match info.get("start") {
                        Some(StateValue::UnsignedNumber(n)) => fns.push(format!("{}>{}", enc_str(k), n)),
                        Some(_) => fns.push(format!("{}>odd", enc_str(k))),
                        None => {} // created empty by a lookup
                    }
                }
            }
        }
        fns.sort();
        let dang = ctx.commands.aliases.values().any(|t| !ctx.commands.commands.contains_key(t));
        (
            format!("CMDS {} ALIASES {} SUB {}", cm.join(","), am.join(","), sub.join(",")),
            format!("FNS {} DANG {}", fns.join(","), dang as u8),
        )
    })
}

fn enc_result(r: &CommandResult) -> String {
    match r {
        CommandResult::Continue(Some(v)) if v == "true" => "1".to_string(),
        CommandResult::Continue(Some(v)) if v == "false" => "0".to_string(),
        CommandResult::Continue(_) => "continue?".to_string(),
        CommandResult::GoTo(None, GoToValue::Line(_)) => "goto".to_string(),
        CommandResult::GoTo(..) => "goto?".to_string(),
        CommandResult::Error(_) => "err".to_string(),
        CommandResult::Crash(_) => "crash".to_string(),
        CommandResult::Exit(_) => "exit".to_string(),
    }
}

fn script_instruction(command: &str, args: Vec<String>) -> Instruction {
    let mut si = ScriptInstruction::new();
    si.command = Some(command.to_string());
    si.arguments = if args.is_empty() { None } else { Some(args) };
    Instruction { meta_info: InstructionMetaInfo::new(), instruction_type: InstructionType::Script(si) }
}

/// run ONE operation on the real context
fn apply_real(ctx: &mut Context, op: &SOp) -> String {
    match op {
        SOp::N { name, al, t } => {
            let c = TestCmd { name: name.clone(), aliases: al.clone(), tag: *t };
            if ctx.commands.set(Box::new(c)).is_ok() { "S1".to_string() } else { "S0".to_string() }
        }
        SOp::A { args, .. } => enc_result(&crate::sdkenv::run_one(ctx, "alias", args.clone(), None).0),
        SOp::U(args) => enc_result(&crate::sdkenv::run_one(ctx, "unalias", args.clone(), None).0),
        SOp::R(args) => enc_result(&crate::sdkenv::run_one(ctx, "remove_command", args.clone(), None).0),
        SOp::D(args) => enc_result(&crate::sdkenv::run_one(ctx, "is_command_defined", args.clone(), None).0),
        SOp::F { name, line, has_end, scoped } => {
            // the script around the definition: `line` empty lines, `fn [<scope>] name`, (`end_fn`)
            let mut instructions: Vec<Instruction> = (0..*line)
                .map(|_| Instruction { meta_info: InstructionMetaInfo::new(), instruction_type: InstructionType::Empty })
                .collect();
            let args = if *scoped { vec!["<scope>".to_string(), name.clone()] } else { vec![name.clone()] };
            let ins = script_instruction("fn", args);
            instructions.push(ins.clone());
            if *has_end {
                instructions.push(script_instruction("end_fn", vec![]));
            }
            let mut env = crate::sdkenv::quiet_env(None);
            let (r, _) = duckscript::runner::run_instruction(&mut ctx.commands, &mut ctx.variables, &mut ctx.state, &instructions, ins, *line, &mut env);
            enc_result(&r)
        }
    }
}

/// the same history written as ONE script and run by the real runner (possible when the native
/// registrations come first, every `fn` has its end and stands on its canonical line): the
/// answers (`o<i>` variables) and the final state must be those of the step-by-step run
fn script_route(ops: &[SOp], results: &[String], final_state: &str) -> Option<String> {
    let kinds: Vec<(bool, bool)> = ops.iter().map(|o| match o {
        SOp::N { .. } => (false, false),
        SOp::F { has_end, .. } => (true, *has_end),
        _ => (true, false),
    }).collect();
    let lines = canonical_lines(&kinds);
    let mut seen_script_op = false;
    let mut text = String::new();
    for (i, o) in ops.iter().enumerate() {
        match o {
            SOp::N { .. } => {
                if seen_script_op {
                    return None;
                }
            }
            SOp::F { name, line, has_end, scoped } => {
                if !*has_end || *line != lines[i] {
                    return None;
                }
                seen_script_op = true;
                text.push_str(&format!("fn {}{}\nend\n", if *scoped { "<scope> " } else { "" }, name));
            }
            SOp::A { args, .. } | SOp::U(args) | SOp::R(args) | SOp::D(args) => {
                seen_script_op = true;
                let c = match o {
                    SOp::A { .. } => "alias",
                    SOp::U(_) => "unalias",
                    SOp::R(_) => "remove_command",
                    _ => "is_command_defined",
                };
                text.push_str(&format!("o{} = {} {}\n", i, c, args.join(" ")));
            }
        }
    }
    let (mut ctx, seen) = fresh_context();
    for o in ops {
        if let SOp::N { .. } = o {
            apply_real(&mut ctx, o);
        }
    }
    match crate::sdkenv::run_text(&text, ctx) {
        Ok(c2) => {
            for (i, o) in ops.iter().enumerate() {
                if matches!(o, SOp::N { .. } | SOp::F { .. }) {
                    continue;
                }
                let want = match results[i].trim_end_matches('!') {
                    "1" => "true",
                    "0" | "err" => "false",
                    _ => continue,
                };
                if c2.variables.get(&format!("o{}", i)).map(|s| s.as_str()) != Some(want) {
                    return Some(format!("ROUTE-DIFF o{}={:?}", i, c2.variables.get(&format!("o{}", i))));
                }
            }
            let (a, b) = observe(&c2, &seen, true);
            let st = format!("{} {}", a, b);
            if st != final_state { Some(format!("ROUTE-DIFF {}", st.replace(' ', "_"))) } else { None }
        }
        Err(_) => Some("ROUTE-DIFF script-failed".to_string()),
    }
}

fn run_regs(req: &str) -> String {
    let ops = parse_sops(req);
    let (mut ctx, seen) = fresh_context();
    let mut outs = vec![];
    let mut prev = observe(&ctx, &seen, false);
    for o in &ops {
        let mut r = apply_real(&mut ctx, o);
        let now = observe(&ctx, &seen, false);
        // an operation that reports failure must have changed nothing (a refused `fn` may have
        // recorded its meta-info: the real command stores it before it registers the command)
        let refused = matches!(r.as_str(), "err" | "crash" | "S0" | "0") || matches!(o, SOp::D(_));
        if refused {
            let same = if matches!(o, SOp::F { .. }) { now.0 == prev.0 } else { now == prev };
            if !same {
                r.push('!');
            }
        }
        prev = now;
        outs.push(r);
    }
    let (a, b) = observe(&ctx, &seen, true);
    let st = format!("{} {}", a, b);
    let extra = match script_route(&ops, &outs, &st) {
        Some(d) => format!(" {}", d),
        None => String::new(),
    };
    format!("{} | {}{}", outs.join(";"), st, extra)
}

fn describe_regs(req: &str) -> String {
    parse_sops(req).iter().map(|o| match o {
        SOp::N { name, al, t } => format!("Commands::set {}{:?}#{}", name, al, t),
        SOp::A { args, .. } => format!("alias {}", args.join(" ")),
        SOp::U(a) => format!("unalias {}", a.join(" ")),
        SOp::R(a) => format!("remove_command {}", a.join(" ")),
        SOp::D(a) => format!("is_command_defined {}", a.join(" ")),
        SOp::F { name, line, has_end, scoped } => format!("[line {}] fn {}{}{}", line, if *scoped { "<scope> " } else { "" }, name, if *has_end { " … end" } else { " (no end)" }),
    }).collect::<Vec<_>>().join("; ")
}

fn relation_regs(imp: &str) -> Option<bool> {
    // model-independent: no alias points to a command that is gone (DANG is computed on the whole
    // real alias table); an operation that reported failure left everything as it was (`!`)
    if imp == "PANIC" {
        return Some(false);
    }
    let (outs, st) = imp.split_once(" | ")?;
    if outs.contains('!') {
        return Some(false);
    }
    let st = st.split(" ROUTE-DIFF").next().unwrap();
    if !st.ends_with("DANG 0") {
        return Some(false);
    }
    // the printed (changed) alias entries must point to existing commands as well
    let names: BTreeSet<String> = st.strip_prefix("CMDS ")?.split(" ALIASES ").next()?.split(',').filter(|s| !s.is_empty()).map(|e| e.split('>').next().unwrap().to_string()).collect();
    let apart = st.split(" ALIASES ").nth(1)?.split(" SUB").next()?;
    for e in apart.split(',').filter(|s| !s.is_empty() && !s.starts_with('-')) {
        let target = e.split('>').nth(1)?;
        if !names.contains(target) && !BASE.with(|b| b.commands.contains_key(&dec_str(target).unwrap_or_default())) {
            return Some(false);
        }
    }
    Some(true)
}

fn regs_fixed(tier: Tier) -> Vec<Case> {
    let ts = exhaustive_templates();
    let k = if tier == Tier::Quick { 3 } else { 4 };
    let mut out = vec![];
    let mut cur: Vec<Vec<Tmpl>> = vec![vec![]];
    for len in 0..=k {
        let mut next = vec![];
        for h in &cur {
            out.push(Case { req: render_sreq(&number(h)), in_domain: true, nontrivial: h.len() >= 2, tags: vec!["script-exhaustive"] });
            if len < k {
                for t in &ts {
                    let mut n = h.clone();
                    n.push(t.clone());
                    next.push(n);
                }
            }
        }
        cur = next;
    }
    for h in regression_templates() {
        out.push(Case { req: render_sreq(&number(&h)), in_domain: true, nontrivial: true, tags: vec!["script-regression"] });
    }
    out
}

impl Prop for C15Prop {
    fn id(&self) -> &'static str {
        "C15"
    }
    fn rule(&self) -> &'static str {
        "histories of set/get/exists/remove/get_all_command_names on the public Commands API over the names {a,b,c,x,y} with alias sets that include names equal to another command's alias, shared, duplicate and self aliases: all histories of <= k mutating operations (k=3 quick, 4 thorough) over 11 operations exhaustively, each followed by lookups of every name; plus random longer histories. Observed: every return value, and the complete name and alias tables (public fields) at the end. Non-trivial = at least 2 mutating operations; distinct = distinct request. Second stream (a third of the random cases + its own exhaustive family): histories of the SCRIPT-LEVEL commands alias / unalias / remove_command / is_command_defined / fn (and embedder registrations) over the names {a,b,foo,std::B}, run one by one in-process in a context with the SDK loaded (fn through run_instruction with its own instruction list and line): all histories of <= 3 (quick) / 4 (thorough) of 16 operations plus regression histories for stale alias records, the function table and arities; random longer histories with native registrations first. Observed: every command result, and at the end the difference of both registry tables to the loaded SDK (each new command classified native / created-by-alias#id / function@line by RUNNING it), the ALIAS_STATE sub-state and the function meta-info; where the history can be written as one script it is also run by the real runner and must give the same answers and state. Model-independent relation: no dangling alias in the whole real alias table, and an operation that reported failure changed nothing."
    }
    fn budget(&self, tier: Tier) -> usize {
        match tier {
            Tier::Quick => 20_000,
            Tier::Thorough => 1_000_000,
        }
    }
    fn fixed_cases(&self, tier: Tier) -> Vec<Case> {
        let ops = all_ops();
        let k = if tier == Tier::Quick { 3 } else { 4 };
        let mut out = vec![];
        let mut cur: Vec<Vec<String>> = vec![vec![]];
        for len in 0..=k {
            let mut next = vec![];
            for h in &cur {
                out.push(Case { req: finish(h), in_domain: true, nontrivial: h.len() >= 2, tags: vec!["exhaustive"] });
                if len < k {
                    for o in &ops {
                        let mut n = h.clone();
                        n.push(o.clone());
                        next.push(n);
                    }
                }
            }
            cur = next;
        }
        out.extend(regs_fixed(tier));
        out
    }
    fn generate(&self, rng: &mut Rng, _tier: Tier) -> Case {
        if rng.below(3) == 0 {
            // a third of the random cases: histories through the script-level commands
            let ts = random_templates(rng);
            return Case { req: render_sreq(&number(&ts)), in_domain: true, nontrivial: ts.len() >= 2, tags: vec!["script-random"] };
        }
        let n = 1 + rng.below(14);
        let mut ops = vec![];
        for _ in 0..n {
            match rng.below(10) {
                0..=4 => {
                    let name = rng.pick(&NAMES).to_string();
                    let k = rng.below(3);
                    let al: Vec<String> = (0..k).map(|_| rng.pick(&NAMES).to_string()).collect();
                    ops.push(format!("S/{}/{}/T", enc_str(&name), enc_list(&al)));
                }
                5..=7 => ops.push(format!("R/{}", enc_str(rng.pick_s(&NAMES)))),
                8 => ops.push(format!("G/{}", enc_str(rng.pick_s(&NAMES)))),
                _ => ops.push("N".to_string()),
            }
        }
        Case { req: finish(&ops), in_domain: true, nontrivial: n >= 2, tags: vec!["random"] }
    }
    fn run_impl(&self, req: &str, _m: &str) -> String {
        if req.starts_with("regs ") {
            return run_regs(req);
        }
        let ops = req.split(' ').nth(1).unwrap();
        let mut cmds = Commands::new();
        let mut outs = vec![];
        if ops != "-" {
            for o in ops.split(';') {
                let f: Vec<&str> = o.split('/').collect();
                match f[0] {
                    "S" => {
                        let c = TestCmd { name: dec_str(f[1]).unwrap(), aliases: dec_list(f[2]).unwrap(), tag: f[3].parse().unwrap() };
                        outs.push(if cmds.set(Box::new(c)).is_ok() { "1".to_string() } else { "0".to_string() });
                    }
                    "G" => {
                        let n = dec_str(f[1]).unwrap();
                        let a = cmds.get(&n).map(enc_cmd).unwrap_or("-".to_string());
                        let b = cmds.get_for_use(&n).map(|c| enc_cmd(&c)).unwrap_or("-".to_string());
                        outs.push(if a == b { a } else { format!("get/get_for_use-differ:{}:{}", a, b) });
                    }
                    "E" => outs.push(if cmds.exists(&dec_str(f[1]).unwrap()) { "1".into() } else { "0".into() }),
                    "R" => outs.push(if cmds.remove(&dec_str(f[1]).unwrap()) { "1".into() } else { "0".into() }),
                    "N" => outs.push(enc_list(&cmds.get_all_command_names())),
                    _ => outs.push("?".into()),
                }
            }
        }
        let mut c: Vec<String> = cmds.commands.iter().map(|(k, v)| format!("{}>{}", enc_str(k), enc_cmd(v))).collect();
        c.sort();
        let mut a: Vec<String> = cmds.aliases.iter().map(|(k, v)| format!("{}>{}", enc_str(k), enc_str(v))).collect();
        a.sort();
        format!("{} | CMDS {} ALIASES {}", outs.join(";"), c.join(","), a.join(","))
    }
    fn relation(&self, req: &str, _m: &str, imp: &str) -> Option<bool> {
        if req.starts_with("regs ") {
            return relation_regs(imp);
        }
        // model-independent: no alias points to a command that is gone
        if imp == "PANIC" {
            return Some(false);
        }
        let st = imp.split(" | ").nth(1)?;
        let cm = st.strip_prefix("CMDS ")?;
        let (cpart, apart) = cm.split_once(" ALIASES")?;
        let names: Vec<&str> = cpart.split(',').filter(|s| !s.is_empty()).map(|e| e.split('>').next().unwrap()).collect();
        for e in apart.trim().split(',').filter(|s| !s.is_empty()) {
            let target = e.split('>').nth(1).unwrap();
            if !names.contains(&target) {
                return Some(false);
            }
        }
        Some(true)
    }
    fn shrink(&self, req: &str) -> Vec<String> {
        let head = req.split(' ').next().unwrap();
        let ops: Vec<&str> = req.split(' ').nth(1).unwrap().split(';').collect();
        let mut out = vec![];
        for i in 0..ops.len() {
            let mut o = ops.clone();
            o.remove(i);
            if !o.is_empty() {
                out.push(format!("{} {}", head, o.join(";")));
            }
        }
        out
    }
    fn outcome_kind(&self, imp: &str) -> String {
        if imp.contains(" SUB ") { "script-level".to_string() } else if imp.contains("CMDS") { "api".to_string() } else { "other".to_string() }
    }
    fn describe(&self, req: &str) -> String {
        if req.starts_with("regs ") {
            return describe_regs(req);
        }
        let ops = req.split(' ').nth(1).unwrap();
        ops.split(';').map(|o| {
            let f: Vec<&str> = o.split('/').collect();
            match f[0] {
                "S" => format!("set {}{:?}", dec_str(f[1]).unwrap(), dec_list(f[2]).unwrap()),
                "N" => "names".to_string(),
                k => format!("{} {}", match k { "G" => "get", "E" => "exists", _ => "remove" }, dec_str(f[1]).unwrap()),
            }
        }).collect::<Vec<_>>().join("; ")
    }
}
