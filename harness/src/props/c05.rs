//! C05: functions — arguments, return values, early return, scoped isolation.
//! Same machinery as C04 (Lean tree interpreter = oracle) with function definitions, calls as
//! statements / output-assigning statements / conditions, returns at any depth.
use crate::props::c04::*;
use crate::rng::Rng;
use crate::wire::*;
use crate::{Case, Prop, Tier};

pub struct C05Prop;
pub static C05: C05Prop = C05Prop;

pub fn gen_program(rng: &mut Rng, return_in_for: bool) -> (Vec<String>, bool, usize) {
    let mut g = Gen { rng, next_id: 0, lines: 0, max_depth: 3, loops: 0, canonical_only: false, calls: vec![], in_fn: false, in_for: 0, return_in_for, made_return_in_for: false };
    let nf = 1 + g.rng.below(3);
    let mut stmts: Vec<Vec<String>> = vec![];
    for k in 0..nf {
        let name = format!("f{}", k);
        // mostly 0-2 parameters; one function in eight takes 9-12 (two-digit parameter names)
        let arity = if g.rng.chance(1, 8) { 9 + g.rng.below(4) } else { g.rng.below(3) };
        let scoped = g.rng.chance(1, 2);
        // leaf functions (usable in condition position) make no calls
        let leaf = g.rng.chance(1, 2);
        let saved_calls = g.calls.clone();
        if leaf {
            g.calls.clear();
        }
        let mut s = vec!["D".to_string(), enc_str(g.rng.pick_s(&KW_FN)), if scoped { "1".into() } else { "0".into() }, enc_str(&name)];
        g.in_fn = true;
        g.lines += 2;
        let mut body = vec![];
        gen_block(&mut g, 1, &mut body);
        // make sure most functions have a return somewhere at the end
        if g.rng.chance(1, 2) {
            let nb: usize = body[0][1..].parse().unwrap();
            body[0] = format!("B{}", nb + 1);
            body.push("R".into());
            body.push(enc_str(g.rng.pick_s(&KW_RET)));
            body.push(if arity >= 9 {
                // the tail of the parameter list, incl. the last one
                enc_str(&format!("${{8}}|${{9}}|${{10}}|${{{}}}", arity))
            } else {
                match g.rng.below(3) { 0 => "-".to_string(), 1 => enc_str("${1}"), _ => enc_str("val") }
            });
        }
        g.in_fn = false;
        s.extend(body);
        s.push(enc_str(g.rng.pick_s(&KW_ENDFN)));
        stmts.push(s);
        g.calls = saved_calls;
        g.calls.push((name, arity, leaf));
    }
    // main body
    let mut main = vec![];
    g.max_depth = 3;
    gen_block(&mut g, 0, &mut main);
    let nmain: usize = main[0][1..].parse().unwrap();
    let mut toks = vec![format!("B{}", stmts.len() + nmain)];
    for s in stmts {
        toks.extend(s);
    }
    toks.extend(main.into_iter().skip(1));
    (toks, g.made_return_in_for, nf)
}

/// "Search" functions: for-in loops nested 1-3 deep over handles passed as arguments, a `return`
/// from the innermost loop when the searched combination is met, called several times with
/// targets found early / late / never — the shape in which loop-iteration state left behind by an
/// earlier call decides what the next call does.  (A `return` inside a for-in body is the
/// recorded class C05/return-inside-for: the goto-machine model reproduces the code's behaviour
/// and is compared with it; the tree interpreter gives no verdict there.)  Variants: scoped or
/// not, a recursive call from the innermost loop, a callee with its own loop.
pub fn gen_search(rng: &mut Rng) -> Vec<String> {
    let e = |s: &str| s.to_string();
    let depth = 1 + rng.below(3);
    let scoped = rng.chance(1, 2);
    let recursive = rng.chance(1, 4);
    let pools: [&[&str]; 3] = [&["a", "b", "c"], &["1", "2", "3"], &["x", "y"]];
    let mut top: Vec<Vec<String>> = vec![];
    for d in 0..depth {
        let n = 1 + rng.below(pools[d].len());
        top.push(line(Some(&format!("h{}", d)), "array", &pools[d][..n].iter().map(|s| s.to_string()).collect::<Vec<_>>()));
    }
    // innermost statement list: if equals <i0><i1>.. ${target}  return <value>  end ; [recursive call]
    let vars = ["i", "j", "k"];
    let concat: String = (0..depth).map(|d| format!("${{{}}}", vars[d])).collect();
    let target_param = depth + 1;
    let mut inner: Vec<String> = vec![];
    let mut n_inner = 2;
    inner.extend(line(None, "emit", &[e("visit"), concat.clone()]));
    inner.push("I".into());
    inner.push(enc_str(rng.pick_s(&KW_IF)));
    inner.push(enc_list(&[e("equals"), concat.clone(), format!("${{{}}}", target_param)]));
    inner.push("B1".into());
    inner.push("R".into());
    inner.push(enc_str(rng.pick_s(&KW_RET)));
    inner.push(enc_str(&format!("found-{}", concat)));
    inner.push("E0".into());
    inner.push("X-".into());
    inner.push(enc_str(rng.pick_s(&KW_ENDIF)));
    if recursive {
        // one level of recursion from inside the loops: the inner call searches for `zz` (never found)
        let mut args: Vec<String> = (1..=depth).map(|d| format!("${{{}}}", d)).collect();
        args.push(e("zz"));
        args.push(e("stop"));
        inner.push("I".into());
        inner.push(enc_str("if"));
        inner.push(enc_list(&[e("not"), e("equals"), format!("${{{}}}", depth + 2), e("stop")]));
        inner.push("B1".into());
        inner.extend(line(Some("rr"), "search", &args));
        inner.push("E0".into());
        inner.push("X-".into());
        inner.push(enc_str("end"));
        n_inner += 1;
    }
    let mut body: Vec<String> = vec![format!("B{}", n_inner)];
    body.extend(inner);
    for d in (0..depth).rev() {
        let mut f = vec![e("B1"), e("F"), enc_str(rng.pick_s(&KW_FOR)), enc_str(vars[d]), enc_str(&format!("${{{}}}", d + 1))];
        f.extend(body);
        f.push(enc_str(rng.pick_s(&KW_ENDFOR)));
        body = f;
    }
    // function: body = the loop nest + a final `return none`
    let mut def = vec![e("D"), enc_str(rng.pick_s(&KW_FN)), if scoped { e("1") } else { e("0") }, enc_str("search"), e("B2")];
    def.extend(body.into_iter().skip(1));
    def.push("R".into());
    def.push(enc_str("return"));
    def.push(if rng.chance(1, 2) { enc_str("none") } else { e("-") });
    def.push(enc_str(rng.pick_s(&KW_ENDFN)));
    // calls
    let ncalls = 2 + rng.below(4);
    let mut calls: Vec<Vec<String>> = vec![];
    for c in 0..ncalls {
        let target: String = if rng.chance(1, 5) { e("zz") } else { (0..depth).map(|d| rng.pick_s(pools[d]).to_string()).collect() };
        let mut args: Vec<String> = (0..depth).map(|d| format!("${{h{}}}", d)).collect();
        args.push(target);
        args.push(if recursive { e("go") } else { e("stop") });
        calls.push(line(Some(&format!("r{}", c % 2)), "search", &args));
        calls.push(line(None, "emit", &[format!("call{}", c), format!("${{r{}}}", c % 2)]));
    }
    let mut toks = vec![format!("B{}", top.len() + 1 + calls.len())];
    for t in top { toks.extend(t); }
    toks.extend(def);
    for c in calls { toks.extend(c); }
    toks
}

/// "Spin" functions: a counter-driven `while` inside a function whose bound is the call's argument,
/// called with bounds 0..3 at top level and from inside running `while` loops of the caller (and,
/// for scoped functions, recursively from its own loop): what a finished loop leaves on the while
/// call stack must not matter to the next evaluation of the same loop or to the caller's loop
pub fn gen_spin(rng: &mut Rng) -> Vec<String> {
    let e = |s: &str| s.to_string();
    let scoped = rng.chance(1, 2);
    let recursive = scoped && rng.chance(1, 3);
    // body: c = set 0 ; while lt ${c} ${1} { emit spin ${1} ${c} ; [if recursive: r = spin <1-1 via table>] ; c = inc ${c} } ; return ${c}
    let mut wbody: Vec<String> = vec![];
    let mut nw = 2;
    wbody.extend(line(None, "emit", &[e("spin"), e("${1}"), e("${c}")]));
    if recursive {
        // bound 2 calls bound 1, bound 1 calls bound 0 (which does not loop)
        wbody.push("I".into()); wbody.push(enc_str("if")); wbody.push(enc_list(&[e("equals"), e("${1}"), e("2")]));
        wbody.push("B1".into()); wbody.extend(line(Some("rr"), "spin", &[e("1")]));
        wbody.push("E1".into());
        wbody.push(enc_str("elseif")); wbody.push(enc_list(&[e("equals"), e("${1}"), e("1")]));
        wbody.push("B1".into()); wbody.extend(line(Some("rr"), "spin", &[e("0")]));
        wbody.push("X-".into()); wbody.push(enc_str("end"));
        nw += 1;
    }
    wbody.extend(line(Some("c"), "inc", &[e("${c}")]));
    let mut def = vec![e("D"), enc_str(rng.pick_s(&KW_FN)), if scoped { e("1") } else { e("0") }, enc_str("spin"), e("B3")];
    def.extend(line(Some("c"), "set", &[e("0")]));
    def.push("W".into()); def.push(enc_str(rng.pick_s(&KW_WHILE))); def.push(enc_list(&[e("lt"), e("${c}"), e("${1}")]));
    def.push(format!("B{}", nw)); def.extend(wbody); def.push(enc_str(rng.pick_s(&KW_ENDWHILE)));
    def.push("R".into()); def.push(enc_str("return")); def.push(enc_str("${c}"));
    def.push(enc_str(rng.pick_s(&KW_ENDFN)));
    // main
    let maxb = if recursive { 3 } else { 4 };
    let mut main: Vec<Vec<String>> = vec![];
    let n = 2 + rng.below(3);
    for k in 0..n {
        if rng.chance(1, 2) {
            let mut st = line(Some("r0"), "spin", &[rng.below(maxb).to_string()]);
            st.extend(line(None, "emit", &[format!("top{}", k), e("${r0}")]));
            main.push(line(Some("r0"), "spin", &[rng.below(maxb).to_string()]));
            main.push(line(None, "emit", &[format!("top{}", k), e("${r0}")]));
            let _ = st;
        } else {
            let kv = format!("k{}", k);
            main.push(line(Some(&kv), "set", &[e("0")]));
            let mut w = vec![e("W"), enc_str(rng.pick_s(&KW_WHILE)), enc_list(&[e("lt"), format!("${{{}}}", kv), (1 + rng.below(3)).to_string()]), e("B3")];
            w.extend(line(Some("r1"), "spin", &[rng.below(maxb).to_string()]));
            w.extend(line(None, "emit", &[format!("in{}", k), format!("${{{}}}", kv), e("${r1}")]));
            w.extend(line(Some(&kv), "inc", &[format!("${{{}}}", kv)]));
            w.push(enc_str(rng.pick_s(&KW_ENDWHILE)));
            main.push(w);
        }
    }
    let mut toks = vec![format!("B{}", 1 + main.len())];
    toks.extend(def);
    for m in main { toks.extend(m); }
    toks
}

/// recursion `depth` deep through a scoped (or plain) function: `down n` calls `down n+1` until
/// the depth is reached and hands the innermost value back through every frame
pub fn deep_recursion_case(depth: usize, scoped: bool) -> Case {
    let e = |s: &str| s.to_string();
    let mut t = vec![e("B3"), e("D"), enc_str("fn"), if scoped { e("1") } else { e("0") }, enc_str("down"), e("B2")];
    t.push(e("I")); t.push(enc_str("if")); t.push(enc_list(&[e("lt"), e("${1}"), depth.to_string()]));
    t.push(e("B3"));
    t.extend(line(Some("m"), "inc", &[e("${1}")]));
    t.extend(line(Some("r"), "down", &[e("${m}")]));
    t.push(e("R")); t.push(enc_str("return")); t.push(enc_str("${r}"));
    t.push(e("E0")); t.push(e("X-")); t.push(enc_str("end"));
    t.push(e("R")); t.push(enc_str("return")); t.push(enc_str("bottom-${1}"));
    t.push(enc_str("end"));
    t.extend(line(Some("x"), "down", &[e("0")]));
    t.extend(line(None, "emit", &[e("result"), e("${x}")]));
    Case { req: format!("c04 {} - 400000", t.join(";")), in_domain: true, nontrivial: true, tags: vec!["deep-recursion", "fn", "return"] }
}

/// a function that calls itself from inside the TAKEN branch of an if / else block; the inner call takes
/// the else branch and runs through the block's `end` while the outer call is still inside its branch
pub fn recursion_inside_branch_case(scoped: bool, levels: usize) -> Case {
    let e = |s: &str| s.to_string();
    let mut t = vec![e("B3"), e("D"), enc_str("fn"), if scoped { e("1") } else { e("0") }, enc_str("desc"), e("B2")];
    t.extend(line(None, "emit", &[e("start"), e("${1}")]));
    t.push(e("I")); t.push(enc_str("if")); t.push(enc_list(&[e("lt"), e("${1}"), levels.to_string()]));
    t.push(e("B3"));
    t.extend(line(Some("m"), "inc", &[e("${1}")]));
    t.extend(line(Some("r"), "desc", &[e("${m}")]));
    t.extend(line(None, "emit", &[e("back"), e("${1}")]));
    t.push(e("E0"));
    t.push(format!("X{}", enc_str("else")));
    t.push(e("B1"));
    t.extend(line(None, "emit", &[e("else"), e("${1}")]));
    t.push(enc_str("end"));
    t.push(enc_str("end"));
    t.extend(line(Some("x"), "desc", &[e("0")]));
    t.extend(line(None, "emit", &[e("done")]));
    Case { req: format!("c04 {} - 4000", t.join(";")), in_domain: true, nontrivial: true, tags: vec!["recursion-inside-branch", "fn"] }
}

impl Prop for C05Prop {
    fn id(&self) -> &'static str {
        "C05"
    }
    fn rule(&self) -> &'static str {
        "programs with 1-3 function definitions (scoped or not, 0-2 parameters, any spelling of fn/end_fn/return), bodies with nested if/while/for-in and returns at any depth (bare or with a value), calls as statements, as output-assigning statements and in condition position (leaf functions), calls from function bodies to earlier functions, repeated calls from loops; main body as in C04. Oracle: the Lean tree interpreter (functions = bodies with parameters, scoped = isolated variables). In-domain stream: no 'return' lexically inside a for-in body (that shape is the recorded finding C05/return-inside-for and is generated in a separate stream). One program in ten is a SEARCH function: for-in loops nested 1-3 deep over handles passed as arguments, `return` from the innermost loop when the searched combination is met, 2-5 calls with targets found early / late / never, optionally a recursive call from the innermost loop, scoped or not (inside the recorded class C05/return-inside-for: goto-machine model vs code; any difference from the model is a violation). One program in twelve starts with no variables at all; initial values with blanks + backslashes reach calls in condition position. Observed: emit trace, final variables. Non-trivial = at least one call executed inside a loop or branch and at least one return; distinct = distinct request."
    }
    fn fixed_cases(&self, _tier: Tier) -> Vec<Case> {
        // thresholds of the scope stack / the function call stack
        vec![recursion_inside_branch_case(false, 1), recursion_inside_branch_case(false, 3), recursion_inside_branch_case(true, 2), deep_recursion_case(40, true), deep_recursion_case(150, true), deep_recursion_case(260, true), deep_recursion_case(260, false), deep_recursion_case(1100, true)]
    }
    fn budget(&self, tier: Tier) -> usize {
        match tier {
            Tier::Quick => 4_000,
            Tier::Thorough => 300_000,
        }
    }
    fn generate(&self, rng: &mut Rng, _tier: Tier) -> Case {
        if rng.chance(1, 12) {
            let toks = gen_spin(rng);
            return Case { req: format!("c04 {} - 200000", toks.join(";")), in_domain: true, nontrivial: true, tags: vec!["spin-function", "fn", "return", "while"] };
        }
        if rng.chance(1, 10) {
            let toks = gen_search(rng);
            let vars = if rng.chance(1, 2) { "-".to_string() } else { init_vars(rng) };
            return Case { req: format!("c04 {} {} 200000", toks.join(";"), vars), in_domain: false, nontrivial: true, tags: vec!["search-function", "return-inside-for", "fn", "return"] };
        }
        // one program in twelve starts with NO variables at all (a scoped call is then made with
        // an empty variable map; flags read as undefined = falsy)
        let vars = if rng.chance(1, 12) { "-".to_string() } else { init_vars(rng) };
        let rif = rng.chance(1, 10);
        let (toks, made_rif, _nf) = gen_program(rng, rif);
        let has_ret = toks.iter().any(|t| t == "R");
        let mut tags = vec![];
        if made_rif { tags.push("return-inside-for"); }
        if toks.iter().any(|t| t == "D") { tags.push("fn"); }
        if has_ret { tags.push("return"); }
        Case { req: format!("c04 {} {} 200000", toks.join(";"), vars), in_domain: !made_rif, nontrivial: has_ret, tags }
    }
    fn run_impl(&self, req: &str, model: &str) -> String {
        run_impl_structured(req, model)
    }
    fn relation(&self, _req: &str, model: &str, imp: &str) -> Option<bool> {
        relation_structured(model, imp)
    }
    fn outcome_kind(&self, imp: &str) -> String {
        imp.split(' ').nth(1).map(|s| s.trim_start_matches("M:").split('_').next().unwrap_or("").to_string()).unwrap_or("odd".into())
    }
    fn known(&self, req: &str, model: &str, imp: &str) -> Option<String> {
        // a `return` lexically inside a for-in body leaves the loop's iteration state behind.
        // Recorded only as long as the code fails EXACTLY as the goto-machine model (which
        // reproduces the defect) predicts: any other behaviour on such a program is a new violation.
        if model != imp {
            return None;
        }
        let toks: Vec<&str> = req.split(' ').nth(1)?.split(';').collect();
        if return_inside_for(&toks) {
            return Some("C05/return-inside-for".to_string());
        }
        // a plain function that reaches its `end` after its body assigned a variable named like
        // the call's output variable: the implementation agrees with the goto-machine model (checked
        // above) and with the tree interpretation `S:`, which differs from the literal reading `S2:`
        let m: Vec<&str> = model.split(' ').collect();
        if m.len() == 4 && m[3].starts_with("S2:") && m[1].strip_prefix("M:") == m[2].strip_prefix("S:") {
            return Some("C05/end-keeps-body-assigned-output".to_string());
        }
        None
    }
    fn shrink(&self, req: &str) -> Vec<String> {
        shrink_tree(req)
    }
    fn describe(&self, req: &str) -> String {
        format!("program with functions {}", describe_tree(req))
    }
}

/// does the tree contain an `R` statement inside the body of an `F` statement?
pub fn return_inside_for(tk: &[&str]) -> bool {
    fn stmt(tk: &[&str], i: usize, in_for: bool, found: &mut bool) -> usize {
        match tk[i] {
            "L" => i + 4,
            "R" => {
                if in_for { *found = true; }
                i + 3
            }
            "I" => {
                let mut j = block(tk, i + 3, in_for, found);
                let k: usize = tk[j][1..].parse().unwrap();
                j += 1;
                for _ in 0..k {
                    j = block(tk, j + 2, in_for, found);
                }
                if tk[j] == "X-" { j += 1; } else { j = block(tk, j + 1, in_for, found); }
                j + 1
            }
            "W" => block(tk, i + 3, in_for, found) + 1,
            "F" => block(tk, i + 4, true, found) + 1,
            "D" => block(tk, i + 4, false, found) + 1,
            _ => tk.len(),
        }
    }
    fn block(tk: &[&str], i: usize, in_for: bool, found: &mut bool) -> usize {
        let n: usize = tk[i][1..].parse().unwrap();
        let mut j = i + 1;
        for _ in 0..n {
            j = stmt(tk, j, in_for, found);
        }
        j
    }
    let mut found = false;
    block(tk, 0, false, &mut found);
    found
}
