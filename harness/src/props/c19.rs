//! C19: script-implemented library commands leave no trace in the caller's variables.
//!
//! Three request kinds (see lean/DuckModel/Drv/C19.lean):
//!
//! * `c19scripts` - the regenerated table of the model against the REAL registry and the source
//!   tree: the directories with a `script.ds`, the commands whose `help()` has the shape only
//!   `AliasCommand::help` produces (and embeds that very `script.ds`), and - behaviourally - each
//!   entry's `arguments_amount` and scope prefix.
//! * `c19wrap …` - the real `AliasCommand::run` of `is_windows` / `array_is_empty` / `map_is_empty`
//!   / `set_is_empty` with the FIRST command of their script replaced (in the cloned registry) by
//!   a scripted body that writes / erases given variables, allocates handles, releases the temp
//!   argument array and returns a given result; compared with `aliasRun` + `evalInstructions`.
//! * `c19hist …` - histories of invocations of EVERY script command through the real runner, at top
//!   level, inside a function, inside a loop, inside a loop in a function, the arguments of later
//!   steps coming from the outputs of earlier ones.  Each invocation goes through the harness
//!   command `probe <command> <args…>`, which snapshots `variables` and the handle table right
//!   before and right after the real command's `run` (so it also sees the state after a `Crash`)
//!   and forwards the result.  The relation is the property itself and does not use the model:
//!   nothing leaked, nothing modified, nothing removed (except what `unset` is asked to remove),
//!   handle balance 0 once a returned new collection handle is discounted.
use crate::pools;
use crate::rng::Rng;
use crate::scripted::{dec_result, dec_vars, enc_vars};
use crate::sdkenv::{guarded_halt, quiet_env, sdk_context};
use crate::wire::*;
use crate::{Case, Prop, Tier};
use duckscript::types::command::{Command, CommandInvocationContext, CommandResult};
use duckscript::types::runtime::StateValue;
use std::cell::RefCell;
use std::collections::{BTreeSet, HashMap};
use std::path::PathBuf;
use std::rc::Rc;
use std::sync::atomic::{AtomicUsize, Ordering};
use std::sync::OnceLock;

pub struct C19Prop;
pub static C19: C19Prop = C19Prop;

const SDK_SRC: &str = "/repo/duckscript_sdk/src";
const INVALID_ARGS: &str = "Invalid arguments provided.";
const HANDLES: &str = "handles";
const LINE_CTX: &str = "duckscriptsdk::runtime::line_context_name";
const TMP_TOKEN: &str = "@T";

/// every script command by the alias the histories use (asserted equal to the model's table and
/// to the source tree by the `c19scripts` case)
const COMMANDS: [&str; 21] = [
    "array_concat", "array_contains", "array_is_empty", "array_join", "map_contains_key", "map_contains_value",
    "map_is_empty", "set_from_array", "set_is_empty", "is_windows", "print_env", "uname", "glob_cp", "join_path",
    "glob_chmod", "sha256sum", "sha512sum", "wget", "base64", "concat", "unset",
];
/// minimum number of arguments per the commands' help.md (the harness's own reading, independent of
/// the `arguments_amount` literals the model table is extracted from)
const REQUIRED: [(&str, usize); 21] = [
    ("array_concat", 0), ("array_contains", 2), ("array_is_empty", 1), ("array_join", 2), ("map_contains_key", 2),
    ("map_contains_value", 2), ("map_is_empty", 1), ("set_from_array", 1), ("set_is_empty", 1), ("is_windows", 0),
    ("print_env", 0), ("uname", 0), ("glob_cp", 2), ("join_path", 1), ("glob_chmod", 2), ("sha256sum", 1),
    ("sha512sum", 1), ("wget", 1), ("base64", 1), ("concat", 0), ("unset", 0),
];
/// commands with a `while` loop in their script (or calling one that has): a re-serialisation
/// accident (known findings of C09) can keep a `while` condition true forever.  Since fix 9977171
/// `eval_instructions` polls the halt flag, so the watchdog would end such a run - but only as an
/// uninformative `timeout`; they get only `[A-Za-z0-9_./*-]` values (and, for the ones that touch
/// the file system, only paths inside the private temp tree, see `gen_step`).
const SAFE_ONLY: [&str; 5] = ["join_path", "glob_cp", "cp_glob", "glob_chmod", "chmod_glob"];

/// (alias, replaced first callee, scope) of the wrapper cases
const WRAPPED: [(&str, &str, &str); 4] = [
    ("is_windows", "os_family", "scope::is_windows"),
    ("array_is_empty", "array_length", "scope::array_is_empty"),
    ("map_is_empty", "map_size", "scope::map_is_empty"),
    ("set_is_empty", "set_size", "scope::set_is_empty"),
];

// ---------------------------------------------------------------------------------------------
// shared helpers

fn handle_keys(state: &HashMap<String, StateValue>) -> BTreeSet<String> {
    match state.get(HANDLES) {
        Some(StateValue::SubState(m)) => m.keys().cloned().collect(),
        _ => BTreeSet::new(),
    }
}

fn handles_mut(state: &mut HashMap<String, StateValue>) -> &mut HashMap<String, StateValue> {
    let e = state.entry(HANDLES.to_string()).or_insert_with(|| StateValue::SubState(HashMap::new()));
    if !matches!(e, StateValue::SubState(_)) {
        *e = StateValue::SubState(HashMap::new());
    }
    match e {
        StateValue::SubState(m) => m,
        _ => unreachable!(),
    }
}

fn line_ctx(state: &HashMap<String, StateValue>) -> String {
    match state.get(LINE_CTX) {
        Some(StateValue::SubState(m)) => match m.get("name") {
            Some(StateValue::String(s)) => s.clone(),
            _ => String::new(),
        },
        _ => String::new(),
    }
}

/// a private directory tree per history (removed afterwards), so that cases do not see each
/// other's files: `src/a.txt`, `src/b.txt`, `src/sub/c.txt`, empty `dst/`
struct TempTree {
    dir: PathBuf,
}

static TREE_COUNTER: AtomicUsize = AtomicUsize::new(0);

impl TempTree {
    fn new() -> TempTree {
        static BASE: OnceLock<PathBuf> = OnceLock::new();
        let base = BASE.get_or_init(|| std::fs::canonicalize(std::env::temp_dir()).expect("temp dir"));
        let n = TREE_COUNTER.fetch_add(1, Ordering::SeqCst);
        let dir = base.join(format!("duck-c19-{}-{}", std::process::id(), n));
        let _ = std::fs::remove_dir_all(&dir);
        std::fs::create_dir_all(dir.join("src/sub")).expect("mkdir");
        std::fs::create_dir_all(dir.join("dst")).expect("mkdir");
        std::fs::write(dir.join("src/a.txt"), "alpha").unwrap();
        std::fs::write(dir.join("src/b.txt"), "beta").unwrap();
        std::fs::write(dir.join("src/sub/c.txt"), "gamma").unwrap();
        TempTree { dir }
    }
    fn root(&self) -> String {
        self.dir.to_string_lossy().into_owned()
    }
}

impl Drop for TempTree {
    fn drop(&mut self) {
        // glob_chmod may have taken the permissions away
        use std::os::unix::fs::PermissionsExt;
        fn fix(p: &std::path::Path) {
            let _ = std::fs::set_permissions(p, std::fs::Permissions::from_mode(0o755));
            if let Ok(rd) = std::fs::read_dir(p) {
                for e in rd.flatten() {
                    if e.path().is_dir() {
                        fix(&e.path());
                    }
                }
            }
        }
        fix(&self.dir);
        let _ = std::fs::remove_dir_all(&self.dir);
    }
}

thread_local! {
    /// result classes seen by the last `run_impl` of this worker (for the histogram only)
    static LAST_CLASSES: RefCell<String> = RefCell::new(String::new());
}

// ---------------------------------------------------------------------------------------------
// c19scripts

fn script_dirs() -> Vec<(String, String)> {
    // (dir relative to sdk/, script text)
    fn walk(d: &std::path::Path, out: &mut Vec<(String, String)>) {
        if let Ok(rd) = std::fs::read_dir(d) {
            for e in rd.flatten() {
                let p = e.path();
                if p.is_dir() {
                    walk(&p, out);
                } else if p.file_name().map(|n| n == "script.ds").unwrap_or(false) {
                    let rel = p.parent().unwrap().strip_prefix(format!("{}/sdk", SDK_SRC)).unwrap().to_string_lossy().into_owned();
                    out.push((rel, std::fs::read_to_string(&p).unwrap()));
                }
            }
        }
    }
    let mut out = vec![];
    walk(std::path::Path::new(SDK_SRC), &mut out);
    out.sort();
    out
}

struct Entry {
    name: String,
    aliases: Vec<String>,
    scope: String,
    amount: usize,
    dir: String,
}

fn parse_table(line: &str) -> Option<Vec<Entry>> {
    line.split(';')
        .map(|e| {
            let f: Vec<&str> = e.split(':').collect();
            if f.len() != 5 {
                return None;
            }
            Some(Entry { name: dec_str(f[0])?, aliases: dec_list(f[1])?, scope: dec_str(f[2])?, amount: f[3].parse().ok()?, dir: dec_str(f[4])? })
        })
        .collect()
}

fn invoke_raw(ctx: &mut duckscript::types::runtime::Context, name: &str, args: Vec<String>) -> Option<CommandResult> {
    let cmd = ctx.commands.get_for_use(name)?;
    let mut env = quiet_env(Some(guarded_halt(4000)));
    let instructions = vec![];
    Some(cmd.run(CommandInvocationContext {
        arguments: args,
        state: &mut ctx.state,
        variables: &mut ctx.variables,
        output_variable: None,
        instructions: &instructions,
        commands: &mut ctx.commands,
        line: 0,
        env: &mut env,
    }))
}

fn check_table(model_out: &str) -> String {
    let table = match parse_table(model_out) {
        Some(t) => t,
        None => return "MISMATCH unparsable-model-table".to_string(),
    };
    // 1. directories
    let dirs = script_dirs();
    let d_real: BTreeSet<String> = dirs.iter().map(|(d, _)| d.clone()).collect();
    let d_model: BTreeSet<String> = table.iter().map(|e| e.dir.clone()).collect();
    if d_real != d_model {
        return format!("MISMATCH dirs real={:?} model={:?}", d_real, d_model);
    }
    let known: BTreeSet<String> = COMMANDS.iter().map(|s| s.to_string()).collect();
    // 2. registry: AliasCommand::help is the only help text with this frame
    let ctx = sdk_context();
    let mut reg: BTreeSet<(String, Vec<String>)> = BTreeSet::new();
    for (name, cmd) in ctx.commands.commands.iter() {
        let h = cmd.help();
        if h.contains("#### Source:\n<details>\n  <summary>Show Source</summary>\n\n```sh\n") && h.trim_end().ends_with("</details>") {
            reg.insert((name.clone(), cmd.aliases()));
        }
    }
    let tab: BTreeSet<(String, Vec<String>)> = table.iter().map(|e| (e.name.clone(), e.aliases.clone())).collect();
    if reg != tab {
        return format!("MISMATCH registry real={:?} model={:?}", reg, tab);
    }
    let tree = TempTree::new();
    for e in &table {
        // 3. the registered command embeds the script of its directory
        let text = &dirs.iter().find(|(d, _)| *d == e.dir).unwrap().1;
        let help = ctx.commands.get(&e.name).map(|c| c.help()).unwrap_or_default();
        if !help.contains(&format!("```sh\n{}\n```", text)) {
            return format!("MISMATCH script-of {}", e.dir);
        }
        if !e.aliases.iter().any(|a| known.contains(a)) {
            return format!("MISMATCH harness-command-list lacks {}", e.name);
        }
        // 4. arguments_amount, behaviourally
        if e.amount > 0 {
            let mut c = sdk_context();
            let r = invoke_raw(&mut c, &e.name, vec!["x".to_string(); e.amount - 1]);
            if !matches!(r, Some(CommandResult::Error(ref m)) if m == INVALID_ARGS) {
                return format!("MISMATCH amount-1 accepted by {}", e.name);
            }
        }
        // 5. the scope prefix, behaviourally: a caller variable under `<scope>::` is cleared by a
        //    call that passes the argument check, one under `<scope>x::` is not.  (print_env,
        //    wget, glob_cp, glob_chmod get harmless arguments.)
        let none = format!("{}/none", tree.root());
        let args: Vec<String> = match e.aliases.first().map(|s| s.as_str()).unwrap_or("") {
            "wget" => vec!["http://127.0.0.1:1/none".to_string()],
            // path arguments: absolute, inside the private temp tree, not existing
            "glob_cp" | "cp_glob" => vec![none.clone(), format!("{}/dst", tree.root())],
            "glob_chmod" | "chmod_glob" => vec!["644".to_string(), none.clone()],
            "sha256sum" | "sha512sum" | "join_path" => vec![none.clone()],
            _ => vec!["c19-none".to_string(); e.amount],
        };
        if args.len() < e.amount {
            return format!("MISMATCH probe arguments of {} are fewer than its amount {}", e.name, e.amount);
        }
        let mut c = sdk_context();
        let inside = format!("{}::c19probe", e.scope);
        let outside = format!("{}x::c19probe", e.scope);
        c.variables.insert(inside.clone(), "1".to_string());
        c.variables.insert(outside.clone(), "1".to_string());
        let r = invoke_raw(&mut c, &e.name, args);
        if matches!(r, Some(CommandResult::Error(ref m)) if m == INVALID_ARGS) {
            return format!("MISMATCH amount rejected by {}", e.name);
        }
        if c.variables.contains_key(&inside) || !c.variables.contains_key(&outside) {
            return format!("MISMATCH scope of {} is not {}", e.name, e.scope);
        }
    }
    if table.len() != COMMANDS.len() {
        return format!("MISMATCH harness-command-list has {} entries, table {}", COMMANDS.len(), table.len());
    }
    model_out.to_string()
}

// ---------------------------------------------------------------------------------------------
// c19wrap

#[derive(Clone)]
struct Body {
    name: String,
    scope: String,
    sets: Vec<(String, String)>,
    dels: Vec<String>,
    nalloc: usize,
    rel: bool,
    result: CommandResult,
}

static ALLOC: AtomicUsize = AtomicUsize::new(0);

impl Command for Body {
    fn name(&self) -> String {
        self.name.clone()
    }
    fn clone_and_box(&self) -> Box<dyn Command> {
        Box::new(self.clone())
    }
    fn run(&self, ctx: CommandInvocationContext) -> CommandResult {
        let temp = ctx.variables.get(&format!("{}::arguments", self.scope)).cloned();
        for (k, v) in &self.sets {
            ctx.variables.insert(k.clone(), v.clone());
        }
        for k in &self.dels {
            ctx.variables.remove(k);
        }
        for _ in 0..self.nalloc {
            let n = ALLOC.fetch_add(1, Ordering::SeqCst);
            handles_mut(ctx.state).insert(format!("handle:c19-{}", n), StateValue::List(vec![]));
        }
        if self.rel {
            if let Some(h) = temp {
                handles_mut(ctx.state).remove(&h);
            }
        }
        self.result.clone()
    }
}

struct WrapReq {
    alias: String,
    args: Vec<String>,
    vars: Vec<(String, String)>,
    ctx: String,
    sets: Vec<(String, String)>,
    dels: Vec<String>,
    nalloc: usize,
    rel: bool,
    result: String,
}

fn enc_pairs(v: &[(String, String)]) -> String {
    if v.is_empty() {
        "-".to_string()
    } else {
        v.iter().map(|(k, x)| format!("{}={}", enc_str(k), enc_str(x))).collect::<Vec<_>>().join(",")
    }
}

fn mk_wrap(r: &WrapReq) -> String {
    format!(
        "c19wrap {} {} {} {} {} {} {} {} {}",
        enc_str(&r.alias), enc_list(&r.args), enc_pairs(&r.vars), enc_str(&r.ctx), enc_pairs(&r.sets), enc_list(&r.dels), r.nalloc,
        if r.rel { 1 } else { 0 }, r.result
    )
}

fn parse_wrap(req: &str) -> WrapReq {
    let t: Vec<&str> = req.split(' ').collect();
    WrapReq {
        alias: dec_str(t[1]).unwrap(),
        args: dec_list(t[2]).unwrap(),
        vars: dec_vars(t[3]),
        ctx: dec_str(t[4]).unwrap(),
        sets: dec_vars(t[5]),
        dels: dec_list(t[6]).unwrap(),
        nalloc: t[7].parse().unwrap(),
        rel: t[8] == "1",
        result: t[9].to_string(),
    }
}

fn enc_res(r: &CommandResult) -> String {
    match r {
        CommandResult::Continue(v) => format!("C/{}", enc_opt(v)),
        CommandResult::GoTo(v, duckscript::types::command::GoToValue::Label(l)) => format!("GL/{}/{}", enc_opt(v), enc_str(l)),
        CommandResult::GoTo(v, duckscript::types::command::GoToValue::Line(n)) => format!("GN/{}/{}", enc_opt(v), n),
        CommandResult::Error(_) => "E".to_string(),
        CommandResult::Crash(_) => "X".to_string(),
        CommandResult::Exit(v) => format!("Q/{}", enc_opt(v)),
    }
}

fn run_wrap(req: &str) -> String {
    let r = parse_wrap(req);
    let (_, native, scope) = match WRAPPED.iter().find(|w| w.0 == r.alias) {
        Some(w) => *w,
        None => return "BAD-REQUEST".to_string(),
    };
    let mut ctx = sdk_context();
    ctx.commands.remove(native);
    ctx.commands
        .set(Box::new(Body {
            name: native.to_string(),
            scope: scope.to_string(),
            sets: r.sets.clone(),
            dels: r.dels.clone(),
            nalloc: r.nalloc,
            rel: r.rel,
            result: dec_result(&r.result).unwrap(),
        }))
        .unwrap();
    for (k, v) in &r.vars {
        ctx.variables.insert(k.clone(), v.clone());
    }
    if !r.ctx.is_empty() {
        let mut m = HashMap::new();
        m.insert("name".to_string(), StateValue::String(r.ctx.clone()));
        ctx.state.insert(LINE_CTX.to_string(), StateValue::SubState(m));
    }
    let res = invoke_raw(&mut ctx, &r.alias, r.args.clone()).unwrap();
    LAST_CLASSES.with(|c| *c.borrow_mut() = format!("wrap-{}", enc_res(&res).split('/').next().unwrap()));
    format!("{} {} {} {}", enc_res(&res), enc_vars(&ctx.variables), handle_keys(&ctx.state).len(), enc_str(&line_ctx(&ctx.state)))
}

fn gen_wrap(rng: &mut Rng) -> Case {
    let (alias, _, scope) = *rng.pick(&WRAPPED);
    let amount = if alias == "is_windows" { 0 } else { 1 };
    let nargs = match rng.below(6) {
        0 => 0,
        1 | 2 => amount,
        3 => amount + 1,
        _ => rng.below(4),
    };
    let args: Vec<String> = (0..nargs).map(|_| pools::value(rng)).collect();
    let caller_keys = ["x", "y z", "scope::other::v", "scope", "é", "out"];
    let mut vars: Vec<(String, String)> = vec![];
    for k in caller_keys {
        if rng.chance(1, 2) {
            vars.push((k.to_string(), pools::value(rng)));
        }
    }
    let mut clean = true;
    if rng.chance(1, 8) {
        vars.push((format!("{}::stale", scope), "old".to_string()));
        clean = false;
    }
    if rng.chance(1, 8) {
        vars.push((format!("{}x::near", scope), "near".to_string()));
    }
    // the scope prefix inside / at the end of a caller's variable name (not at its start)
    if rng.chance(1, 6) {
        vars.push((format!("tele{}::mount", scope), "infix".to_string()));
    }
    if rng.chance(1, 8) {
        vars.push((format!("backup::{}", scope), "suffix".to_string()));
    }
    let inside = [format!("{}::tmp", scope), format!("{}::os", scope), format!("{}::length", scope), format!("{}::argument::1", scope), format!("{}::arguments", scope), format!("{}::", scope)];
    let outside = ["leak".to_string(), "x".to_string(), scope.to_string(), format!("{}:", scope), format!("{}x::near", scope), "out".to_string()];
    let mut sets = vec![];
    let mut dels = vec![];
    let mut framed = true;
    for _ in 0..rng.below(4) {
        sets.push((rng.pick(&inside).clone(), pools::value(rng)));
    }
    if rng.chance(1, 3) {
        for _ in 0..1 + rng.below(2) {
            sets.push((rng.pick(&outside).clone(), pools::value(rng)));
            framed = false;
        }
    }
    for _ in 0..rng.below(2) {
        dels.push(rng.pick(&inside).clone());
    }
    if rng.chance(1, 6) {
        dels.push(rng.pick(&outside).clone());
        framed = false;
    }
    let v = if rng.chance(1, 3) { "windows".to_string() } else if rng.chance(1, 2) { "0".to_string() } else { pools::value(rng) };
    let result = match rng.below(10) {
        0..=3 => format!("C/{}", enc_str(&v)),
        4 => format!("E/{}", enc_str("boom")),
        5 => format!("X/{}", enc_str("crash")),
        6 => format!("Q/{}", enc_opt(&if rng.chance(1, 2) { Some(v.clone()) } else { None })),
        7 => format!("GL/{}/{}", enc_opt(&Some(v.clone())), enc_str("lbl")),
        8 => format!("GN/{}/{}", enc_opt(&Some(v.clone())), [2usize, 3, 9][rng.below(3)]),
        _ => "C/-".to_string(),
    };
    let r = WrapReq {
        alias: alias.to_string(),
        args,
        vars,
        ctx: if rng.chance(1, 2) { String::new() } else { "scope::outer".to_string() },
        sets,
        dels,
        nalloc: if rng.chance(1, 3) { 1 + rng.below(3) } else { 0 },
        rel: rng.chance(1, 4),
        result,
    };
    let in_domain = clean && framed;
    let mut tags = vec!["wrap"];
    tags.push(if in_domain { "wrap:framed" } else { "wrap:outside-frame" });
    if nargs < amount {
        tags.push("wrap:few-args");
    }
    Case { req: mk_wrap(&r), in_domain, nontrivial: true, tags }
}

// ---------------------------------------------------------------------------------------------
// c19hist

#[derive(Clone)]
struct Step {
    alias: String,
    out: Option<String>,
    args: Vec<String>, // as written
}

struct HistReq {
    form: String,
    prelude: String,
    /// caller variables put into the context directly (values of any shape)
    uvars: Vec<(String, String)>,
    steps: Vec<Step>,
}

fn mk_hist(h: &HistReq) -> String {
    let steps: Vec<String> = h.steps.iter().map(|s| format!("{}|{}|{}", enc_str(&s.alias), enc_opt(&s.out), enc_list(&s.args))).collect();
    format!("c19hist {} {}|{} {}", h.form, enc_str(&h.prelude), enc_pairs(&h.uvars), steps.join(";"))
}

fn parse_hist(req: &str) -> HistReq {
    let t: Vec<&str> = req.split(' ').collect();
    let steps = t[3]
        .split(';')
        .map(|s| {
            let f: Vec<&str> = s.split('|').collect();
            Step { alias: dec_str(f[0]).unwrap(), out: dec_opt(f[1]).unwrap(), args: dec_list(f[2]).unwrap() }
        })
        .collect();
    let p: Vec<&str> = t[2].split('|').collect();
    HistReq { form: t[1].to_string(), prelude: dec_str(p[0]).unwrap(), uvars: dec_vars(p[1]), steps }
}

struct Obs {
    alias: String,
    class: &'static str,
    nargs: usize,
    leaked: Vec<String>,
    modified: Vec<String>,
    removed: Vec<String>,
    hdelta: i64,
    msg: String,
}

#[derive(Clone)]
struct Probe {
    log: Rc<RefCell<Vec<Obs>>>,
}

impl Command for Probe {
    fn name(&self) -> String {
        "probe".to_string()
    }
    fn clone_and_box(&self) -> Box<dyn Command> {
        Box::new(self.clone())
    }
    fn run(&self, ctx: CommandInvocationContext) -> CommandResult {
        if ctx.arguments.is_empty() {
            return CommandResult::Crash("probe: no command".to_string());
        }
        let alias = ctx.arguments[0].clone();
        let args: Vec<String> = ctx.arguments[1..].to_vec();
        let cmd = match ctx.commands.get_for_use(&alias) {
            Some(c) => c,
            None => return CommandResult::Crash("probe: unknown command".to_string()),
        };
        let before = ctx.variables.clone();
        let hb = handle_keys(ctx.state);
        let res = cmd.run(CommandInvocationContext {
            arguments: args.clone(),
            state: &mut *ctx.state,
            variables: &mut *ctx.variables,
            output_variable: ctx.output_variable.clone(),
            instructions: ctx.instructions,
            commands: &mut *ctx.commands,
            line: ctx.line,
            env: &mut *ctx.env,
        });
        let after = &*ctx.variables;
        let ha = handle_keys(ctx.state);
        let mut leaked: Vec<String> = after.keys().filter(|k| !before.contains_key(*k)).cloned().collect();
        let mut modified: Vec<String> = after.iter().filter(|(k, v)| before.get(*k).map(|b| b != *v).unwrap_or(false)).map(|(k, _)| k.clone()).collect();
        let mut removed: Vec<String> = before.keys().filter(|k| !after.contains_key(*k)).cloned().collect();
        if alias == "unset" {
            // documented effect (var/unset/help.md): "Undefines all the variable names provided."
            removed.retain(|k| !args.contains(k));
        }
        leaked.sort();
        modified.sort();
        removed.sort();
        let returned_new = match &res {
            CommandResult::Continue(Some(v)) => ha.contains(v) && !hb.contains(v),
            _ => false,
        };
        let class = match &res {
            // the wrapper's own refusal; the same text from a NESTED script command (e.g. map_is_empty
            // inside map_contains_value after `not` re-bound a `%{..}` value to nothing, C09) is an
            // ordinary error of a body that did run
            CommandResult::Error(m) if m == INVALID_ARGS && REQUIRED.iter().any(|(a, k)| *a == alias && args.len() < *k) => "few",
            CommandResult::Error(_) => "err",
            CommandResult::Crash(_) => "crash",
            CommandResult::Exit(_) => "exit",
            CommandResult::GoTo(_, _) => "goto",
            CommandResult::Continue(_) => "ok",
        };
        let msg = match &res {
            CommandResult::Error(m) | CommandResult::Crash(m) => m.clone(),
            _ => String::new(),
        };
        self.log.borrow_mut().push(Obs {
            msg,
            alias,
            class,
            nargs: args.len(),
            leaked,
            modified,
            removed,
            hdelta: ha.len() as i64 - hb.len() as i64 - if returned_new { 1 } else { 0 },
        });
        match res {
            // keep the history going: what a Crash leaves behind has just been recorded
            CommandResult::Crash(m) => CommandResult::Error(m),
            other => other,
        }
    }
}

fn hist_script(h: &HistReq, root: &str) -> Option<String> {
    let mut body = String::new();
    for s in &h.steps {
        let mut line = String::from("    ");
        if let Some(o) = &s.out {
            line.push_str(o);
            line.push_str(" = ");
        }
        line.push_str("probe ");
        line.push_str(&s.alias);
        for a in &s.args {
            line.push(' ');
            line.push_str(&a.replace(TMP_TOKEN, root));
        }
        line.push('\n');
        body.push_str(&line);
    }
    let f: Vec<&str> = h.form.split(':').collect();
    let k: usize = if f.len() > 1 { f[1].parse().ok()? } else { 1 };
    let mut text = h.prelude.replace(TMP_TOKEN, root);
    text.push('\n');
    match f[0] {
        "top" => text.push_str(&body),
        "fn" => {
            text.push_str(&format!("fn c19_steps\n{}end\n", body));
            for _ in 0..k {
                text.push_str("c19_steps\n");
            }
        }
        "loop" => text.push_str(&format!("c19r = range 0 {}\nfor c19i in ${{c19r}}\n{}end\nrelease ${{c19r}}\n", k, body)),
        "fnloop" => text.push_str(&format!("fn c19_steps\nc19r = range 0 {}\nfor c19i in ${{c19r}}\n{}end\nrelease ${{c19r}}\nend\nc19_steps\n", k, body)),
        _ => return None,
    }
    Some(text)
}

fn req_uses_tmp(h: &HistReq) -> bool {
    h.prelude.contains(TMP_TOKEN) || h.steps.iter().any(|s| s.args.iter().any(|a| a.contains(TMP_TOKEN)))
}

fn run_hist(req: &str) -> (String, Vec<Obs>) {
    let h = parse_hist(req);
    // a history without file-system tokens never touches the tree
    let tree = if req_uses_tmp(&h) { Some(TempTree::new()) } else { None };
    let root = tree.as_ref().map(|t| t.root()).unwrap_or_else(|| "/nonexistent-c19".to_string());
    let text = match hist_script(&h, &root) {
        Some(t) => t,
        None => return ("BAD-REQUEST".to_string(), vec![]),
    };
    let log = Rc::new(RefCell::new(vec![]));
    let mut ctx = sdk_context();
    ctx.commands.set(Box::new(Probe { log: log.clone() })).unwrap();
    for (k, v) in &h.uvars {
        ctx.variables.insert(k.clone(), v.clone());
    }
    let halt = guarded_halt(5000);
    let res = duckscript::runner::run_script(&text, ctx, Some(quiet_env(Some(halt.clone()))));
    if halt.load(Ordering::SeqCst) {
        return ("timeout".to_string(), vec![]);
    }
    let obs: Vec<Obs> = log.borrow_mut().drain(..).collect();
    let mut classes: BTreeSet<&str> = obs.iter().map(|o| o.class).collect();
    if res.is_err() {
        classes.insert("script-failed");
    }
    LAST_CLASSES.with(|c| *c.borrow_mut() = format!("hist-{}", classes.into_iter().collect::<Vec<_>>().join("-")));
    let line = obs
        .iter()
        .map(|o| format!("{}:{}:{}:{}:{}:{}", if o.class == "few" { "few" } else { "run" }, o.nargs, enc_list(&o.leaked), enc_list(&o.modified), enc_list(&o.removed), o.hdelta))
        .collect::<Vec<_>>()
        .join(";");
    (line, obs)
}

const PRELUDE: &str = "va = set plain\nvs = set \"with space\"\nvn = set 3\na1 = array x \"y z\" 3 x\na2 = array\na3 = array ${vs} 1\nm1 = map\nmap_put ${m1} k v\nmap_put ${m1} k2 \"v 2\"\nm2 = map\ns1 = set_new a b \"c d\"\ns2 = set_new\nnest = array ${a1} ${a3}";

const SPECIAL: [&str; 14] = ["a b", "  pad  ", "\"q\"", "a\"b", "#", "a #b", "${va}", "%{a1}", "\\", "é漢😀", "=x", "handle:bogus", "", "x y z"];

fn user_vars(rng: &mut Rng) -> Vec<(String, String)> {
    // caller variables u0..u2 with awkward VALUES, inserted into the context directly
    (0..3)
        .map(|i| {
            let v = match rng.below(4) {
                0 | 1 => rng.pick(&SPECIAL).to_string(),
                2 => pools::value(rng),
                _ => pools::word(rng, 5),
            };
            (format!("u{}", i), v)
        })
        .collect()
}

/// `join_path` is a pure string operation: relative pieces are harmless
fn safe_token(rng: &mut Rng) -> String {
    let pool = ["@T/src", "@T/dst", "@T/src/a.txt", "sub", "a.txt", "x/y", "./rel", "..", "/", "a//b", "${va}", "${vn}", "777", "*", "-", "a_b-c.d"];
    rng.pick(&pool).to_string()
}

/// `glob_cp` / `glob_chmod` touch the file system: EVERY token in a path position is absolute and
/// inside the private temp directory (a relative path would be resolved against the harness's
/// working directory; `..` and `/` would reach outside it).
fn fs_path(rng: &mut Rng) -> String {
    let pool = ["@T/src", "@T/dst", "@T/dst/deep", "@T/src/a.txt", "@T/src/*.txt", "@T/src/**/*.txt", "@T/src/sub/*", "@T/none", "@T/none/*.txt", "@T/dst/*"];
    rng.pick(&pool).to_string()
}

/// the token at position `pos` of an fs command: only `glob_chmod`'s first argument is not a path
fn fs_token(rng: &mut Rng, alias: &str, pos: usize) -> String {
    if alias == "glob_chmod" && pos == 0 {
        ["777", "644", "755", "zzz", "999", "@T/src", "-"][rng.below(7)].to_string()
    } else {
        fs_path(rng)
    }
}

fn any_token(rng: &mut Rng, nsteps: usize) -> String {
    match rng.below(12) {
        0 => "${a1}".to_string(),
        1 => ["${a2}", "${a3}", "${nest}"][rng.below(3)].to_string(),
        2 => ["${m1}", "${m2}"][rng.below(2)].to_string(),
        3 => ["${s1}", "${s2}"][rng.below(2)].to_string(),
        4 => ["${va}", "${vs}", "${vn}"][rng.below(3)].to_string(),
        5 | 6 => format!("${{u{}}}", rng.below(3)),
        7 => "${undefined_var}".to_string(),
        8 if nsteps > 0 => format!("${{o{}}}", rng.below(nsteps)),
        9 => ["x", "0", "k", "v", "a", "-a", "-e", "-d", ",", "handle:bogus", "\"a b\"", "\"\"", "\"é 漢\""][rng.below(13)].to_string(),
        10 => ["a.b", "x:y", "1.5"][rng.below(3)].to_string(),
        _ => ["u0", "u1", "u2", "va", "o0", "o1", "nope"][rng.below(7)].to_string(),
    }
}

fn arr(rng: &mut Rng, n: usize) -> String {
    if n > 0 && rng.chance(1, 3) {
        format!("${{o{}}}", rng.below(n))
    } else {
        ["${a1}", "${a2}", "${a3}", "${nest}"][rng.below(4)].to_string()
    }
}

fn val(rng: &mut Rng) -> String {
    match rng.below(6) {
        0 => "x".to_string(),
        1 => "\"y z\"".to_string(),
        2 => format!("${{u{}}}", rng.below(3)),
        3 => "${vs}".to_string(),
        4 => ["3", "v", "k", "a", ","][rng.below(5)].to_string(),
        _ => "\"v 2\"".to_string(),
    }
}

fn gen_step(rng: &mut Rng, n: usize, tags: &mut Vec<&'static str>) -> Step {
    let alias = rng.pick_s(&COMMANDS).to_string();
    let safe = SAFE_ONLY.contains(&alias.as_str());
    // PATH SAFETY (these commands run for real): a command that opens, creates, copies or chmods
    // what an argument names gets ONLY absolute paths inside the history's private temp tree in
    // every path position - glob_cp, glob_chmod (all but its mode), sha256sum/sha512sum (read),
    // wget (-O target; every URL is the refusing 127.0.0.1:1).  join_path is pure string work
    // (set/for/if/while/contains/replace) and may see relative pieces.  No other script command
    // interprets an argument as a path, URL or program.
    let fs = alias == "glob_cp" || alias == "glob_chmod" || alias == "sha256sum" || alias == "sha512sum";
    let wget_pool = ["--method=HTTP-POST", "--method=HTTP-GET", "--post-data=x", "--bogus", "http://127.0.0.1:1/none"];
    let extra = |rng: &mut Rng, pos: usize| {
        if fs {
            fs_token(rng, &alias, pos)
        } else if alias == "wget" {
            rng.pick(&wget_pool).to_string()
        } else if safe {
            safe_token(rng)
        } else {
            any_token(rng, n)
        }
    };
    let mode = rng.below(10);
    let valid: Vec<String> = match alias.as_str() {
        "array_concat" => (0..rng.below(4)).map(|_| arr(rng, n)).collect(),
        "array_contains" => vec![arr(rng, n), val(rng)],
        "array_is_empty" | "set_from_array" => vec![arr(rng, n)],
        "array_join" => vec![arr(rng, n), [",", "\", \"", "\"\"", "--", "${vs}"][rng.below(5)].to_string()],
        "map_contains_key" | "map_contains_value" => vec![["${m1}", "${m2}"][rng.below(2)].to_string(), val(rng)],
        "map_is_empty" => vec![["${m1}", "${m2}"][rng.below(2)].to_string()],
        "set_is_empty" => vec![if n > 0 && rng.chance(1, 3) { format!("${{o{}}}", rng.below(n)) } else { ["${s1}", "${s2}"][rng.below(2)].to_string() }],
        "is_windows" | "print_env" => vec![],
        "uname" => if rng.chance(1, 2) { vec!["-a".to_string()] } else { vec![] },
        // (one call in four copies ONTO the directory the glob was taken from: every match is its own target)
        "glob_cp" => vec![["@T/src/*.txt", "@T/src/**/*.txt", "@T/src/a.txt", "@T/none/*.txt", "@T/none"][rng.below(5)].to_string(), if rng.chance(1, 4) { "@T/src".to_string() } else { "@T/dst".to_string() }],
        "glob_chmod" => vec![["777", "644", "755", "+644", "100644", "0600", "+0755"][rng.below(7)].to_string(), ["@T/src/*.txt", "@T/none/*", "@T/dst/*"][rng.below(3)].to_string()],
        "join_path" => (0..1 + rng.below(4)).map(|_| safe_token(rng)).collect(),
        "sha256sum" | "sha512sum" => vec![["@T/src/a.txt", "@T/none"][rng.below(2)].to_string()],
        "wget" => {
            let mut v = vec![];
            if rng.chance(1, 3) {
                v.push("--method=HTTP-POST".to_string());
            }
            if rng.chance(1, 3) {
                v.push("--post-data=x".to_string());
            }
            if rng.chance(1, 4) {
                v.push("-O".to_string());
                v.push("@T/dst/wget.out".to_string());
            }
            v.push("http://127.0.0.1:1/none".to_string());
            v
        }
        "base64" => {
            let mut v = vec![];
            if rng.chance(1, 2) {
                v.push(["-e", "-encode", "-d", "-decode"][rng.below(4)].to_string());
            }
            v.push(val(rng));
            v
        }
        "concat" => (0..rng.below(5)).map(|_| val(rng)).collect(),
        "unset" => (0..rng.below(4)).map(|_| ["u0", "u1", "u2", "o0", "o1", "nope", "va", "vs"][rng.below(8)].to_string()).collect(),
        _ => vec![],
    };
    let args = match mode {
        0..=4 => {
            tags.push("args:valid");
            valid
        }
        5 => {
            tags.push("args:too-few");
            let mut v = valid;
            if !v.is_empty() {
                v.truncate(rng.below(v.len()));
            }
            v
        }
        6 => {
            tags.push("args:extra");
            let mut v = valid;
            let pos = v.len();
            v.push(extra(rng, pos));
            v
        }
        _ => {
            tags.push("args:arbitrary");
            (0..rng.below(5)).map(|pos| extra(rng, pos)).collect()
        }
    };
    Step { alias, out: if rng.chance(4, 5) { Some(format!("o{}", n)) } else { None }, args }
}

fn gen_hist(rng: &mut Rng, tier: Tier) -> Case {
    let max = if tier == Tier::Quick { 10 } else { 16 };
    let n = 1 + rng.below(max);
    let mut tags: Vec<&'static str> = vec!["hist"];
    let mut steps: Vec<Step> = vec![];
    for i in 0..n {
        // "many times in a row": sometimes the previous step again
        if i > 0 && rng.chance(1, 5) {
            let mut s: Step = steps[i - 1].clone();
            s.out = Some(format!("o{}", i));
            steps.push(s);
            tags.push("step:repeated");
        } else {
            steps.push(gen_step(rng, i, &mut tags));
        }
    }
    let form = match rng.below(8) {
        0..=2 => {
            tags.push("form:top");
            "top".to_string()
        }
        3 | 4 => {
            tags.push("form:fn");
            format!("fn:{}", 1 + rng.below(3))
        }
        5 | 6 => {
            tags.push("form:loop");
            format!("loop:{}", 1 + rng.below(3))
        }
        _ => {
            tags.push("form:fn-loop");
            format!("fnloop:{}", 1 + rng.below(2))
        }
    };
    tags.sort();
    tags.dedup();
    let mut uvars = user_vars(rng);
    // caller variables whose NAMES contain a library scope prefix without starting with it
    // (`telescope::join_path::mount` contains `scope::join_path`): only names that START with
    // `<scope>::` belong to the command
    if rng.chance(1, 3) {
        for st in &steps {
            let name = match rng.below(4) {
                0 => format!("telescope::{}::mount", st.alias),
                1 => format!("backup::scope::{}::last", st.alias),
                2 => format!("xscope::{}", st.alias),
                _ => format!("myscope::{}::argument::1", st.alias),
            };
            if !uvars.iter().any(|(k, _)| *k == name) {
                uvars.push((name, pools::word(rng, 4)));
            }
        }
        tags.push("caller-name-embeds-scope");
    }
    Case { req: mk_hist(&HistReq { form, prelude: PRELUDE.to_string(), uvars, steps }), in_domain: true, nontrivial: true, tags }
}

fn fixed_hist(form: &str, lines: &[(&str, Option<&str>, &[&str])]) -> Case {
    let steps = lines.iter().map(|(a, o, args)| Step { alias: a.to_string(), out: o.map(|s| s.to_string()), args: args.iter().map(|s| s.to_string()).collect() }).collect();
    Case {
        req: mk_hist(&HistReq {
            form: form.to_string(),
            prelude: PRELUDE.to_string(),
            uvars: vec![("u0".to_string(), "a b".to_string()), ("u1".to_string(), "#".to_string()), ("u2".to_string(), "${va} \"q\" é".to_string())],
            steps,
        }),
        in_domain: true,
        nontrivial: true,
        tags: vec!["hist", "hist:fixed"],
    }
}

/// script-implemented commands that loop internally (`for … in` on a fixed line of their own
/// script.ds), called from the body of a loop of the CALLER whose `for` stands on line index
/// `pad + 3`: the caller's loop and the command's loop are distinguished only by the line-context
/// name, so the looped script must end like the unrolled one
const LINE_CALLS: [(&str, &str, &str); 8] = [
    ("concat", "r = concat ${r} ${i}", ""),
    ("array_contains", "r = array_contains ${h} ${i}", ""),
    ("set_from_array", "s = set_from_array ${h}\nr = set_size ${s}\nrelease ${s}", ""),
    ("array_join", "r = array_join ${h} ${i}", ""),
    ("array_concat", "c = array_concat ${h} ${h}\nr = array_length ${c}\nrelease ${c}", ""),
    ("map_contains_value", "r = map_contains_value ${m} ${i}", "m = map\nmap_put ${m} k y"),
    ("unset", "tmp = set ${i}\nunset tmp\nr = is_defined tmp", ""),
    ("join_path", "r = join_path a ${i}", ""),
];

fn run_line_case(pad: usize, which: &str) -> String {
    let Some((_, call, pre)) = LINE_CALLS.iter().find(|c| c.0 == which).copied() else { return "BAD-REQUEST".to_string() };
    let items = ["x", "y", "z"];
    let head = format!("{}h = array x y z\nlog = array\nr = set \"\"\n{}", "# pad\n".repeat(pad), if pre.is_empty() { String::new() } else { format!("{}\n", pre) });
    let looped = format!("{}for i in ${{h}}\n{}\narray_push ${{log}} ${{i}}:${{r}}\nend\nn = array_length ${{log}}\nall = array_join ${{log}} ,\n", head, call);
    let mut unrolled = head.clone();
    for it in items {
        unrolled.push_str(&format!("i = set {}\n{}\narray_push ${{log}} ${{i}}:${{r}}\n", it, call));
    }
    unrolled.push_str("n = array_length ${log}\nall = array_join ${log} ,\n");
    let run = |text: &str| -> String {
        let ctx = sdk_context();
        let halt = guarded_halt(3000);
        match duckscript::runner::run_script(text, ctx, Some(quiet_env(Some(halt)))) {
            Ok(c) => format!("n={:?} all={:?} r={:?}", c.variables.get("n"), c.variables.get("all"), c.variables.get("r")),
            Err(e) => format!("error {}", e),
        }
    };
    let (a, b) = (run(&looped), run(&unrolled));
    if a == b { "same-as-unrolled".to_string() } else { format!("LOOP-DIFFERS-FROM-UNROLLED looped: {} unrolled: {}", a.replace(' ', "_"), b.replace(' ', "_")) }
}

impl Prop for C19Prop {
    fn id(&self) -> &'static str {
        "C19"
    }
    fn rule(&self) -> &'static str {
        "c19scripts: the model's regenerated table vs the real registry (AliasCommand help frame, embedded script.ds), the source tree (directories with a script.ds) and behavioural probes of arguments_amount and the scope prefix. \
         c19wrap: real AliasCommand::run of is_windows/array_is_empty/map_is_empty/set_is_empty with the first callee of the script replaced by a scripted body (writes/erases variables inside and outside the prefix, allocates handles, releases the temp array, returns Continue/Error/Crash/Exit/GoTo) vs aliasRun+evalInstructions. \
         c19hist: histories of 1-16 invocations of all 21 script commands (valid per help.md, too few, extra, arbitrary tokens: wrong handle kinds, bogus handles, values with spaces/quotes/#/${..}/multi-byte, outputs of earlier steps) at top level, in a function, in a loop, in a loop in a function, repeated; a probe command snapshots variables and the handle table around the real run. \
         Non-trivial: every case (each runs the real wrapper at least once)."
    }
    fn budget(&self, tier: Tier) -> usize {
        match tier {
            Tier::Quick => 1800,
            Tier::Thorough => 120_000,
        }
    }
    fn fixed_cases(&self, _tier: Tier) -> Vec<Case> {
        let mut v = vec![Case { req: "c19scripts".to_string(), in_domain: true, nontrivial: true, tags: vec!["table"] }];
        // the caller's `for` on every line index 3..14 around every looping script command
        for (name, _, _) in LINE_CALLS.iter() {
            for pad in 0..12 {
                v.push(Case { req: format!("c19line {} {}", pad, name), in_domain: true, nontrivial: true, tags: vec!["caller-loop-line-coincidence"] });
            }
        }
        // one valid + one failing invocation of every command, in every form
        for form in ["top", "fn:2", "loop:2", "fnloop:2"] {
            v.push(fixed_hist(form, &[
                ("array_concat", Some("o0"), &["${a1}", "${a3}"]),
                ("array_concat", Some("o1"), &["${a1}", "nope"]),
                ("array_concat", Some("o2"), &["${a1}", "${o0}"]),
                ("array_contains", Some("o3"), &["${a1}", "3"]),
                ("array_contains", Some("o4"), &["${a1}"]),
                ("array_is_empty", Some("o5"), &["${a2}"]),
                ("array_is_empty", Some("o6"), &["${m1}"]),
                ("array_join", Some("o7"), &["${a1}", ","]),
                ("array_join", Some("o8"), &["${s1}", ","]),
            ]));
            v.push(fixed_hist(form, &[
                ("map_contains_key", Some("o0"), &["${m1}", "k"]),
                ("map_contains_key", Some("o1"), &["${a1}", "k"]),
                ("map_contains_value", Some("o2"), &["${m1}", "\"v 2\""]),
                ("map_contains_value", Some("o3"), &["${m1}", "absent"]),
                ("map_contains_value", Some("o4"), &["${a1}", "v"]),
                ("map_is_empty", Some("o5"), &["${m2}"]),
                ("map_is_empty", Some("o6"), &["handle:bogus"]),
                ("set_from_array", Some("o7"), &["${a1}"]),
                ("set_from_array", Some("o8"), &["${m1}"]),
                ("set_is_empty", Some("o9"), &["${o7}"]),
                ("set_is_empty", Some("o10"), &["${a1}"]),
            ]));
            v.push(fixed_hist(form, &[
                ("is_windows", Some("o0"), &[]),
                ("is_windows", Some("o1"), &["extra", "${u0}"]),
                ("print_env", Some("o2"), &[]),
                ("uname", Some("o3"), &["-a"]),
                ("uname", Some("o4"), &[]),
                ("concat", Some("o5"), &["${u0}", "${u1}", "\"x y\""]),
                ("concat", Some("o6"), &[]),
                ("base64", Some("o7"), &["-e", "${u0}"]),
                ("base64", Some("o8"), &["-d", "!!!"]),
                ("base64", Some("o9"), &[]),
                ("unset", None, &["u0", "o5", "nope"]),
                ("unset", Some("o10"), &[]),
            ]));
            v.push(fixed_hist(form, &[
                ("join_path", Some("o0"), &["@T/src", "sub", "c.txt"]),
                ("join_path", Some("o1"), &[]),
                ("glob_cp", Some("o2"), &["@T/src/**/*.txt", "@T/dst"]),
                ("glob_cp", Some("o3"), &["@T/src/a.txt", "@T/dst"]),
                ("glob_cp", Some("o4"), &["@T/none/*.txt"]),
                ("glob_chmod", Some("o5"), &["777", "@T/src/*.txt"]),
                ("glob_chmod", Some("o6"), &["zzz", "@T/src/*.txt"]),
                ("glob_chmod", Some("o14"), &["+644", "@T/src/*.txt"]),
                ("chmod_glob", Some("o15"), &["100644", "@T/src/*.txt"]),
                ("sha256sum", Some("o7"), &["@T/src/a.txt"]),
                ("sha256sum", Some("o8"), &["@T/none"]),
                ("sha512sum", Some("o9"), &["@T/src/b.txt"]),
                ("sha512sum", Some("o10"), &[]),
                ("wget", Some("o11"), &["http://127.0.0.1:1/none"]),
                ("wget", Some("o12"), &["-O", "@T/dst/w.out", "--method=HTTP-POST", "--post-data=x", "http://127.0.0.1:1/none"]),
                ("wget", Some("o13"), &[]),
            ]));
        }
        v
    }
    fn generate(&self, rng: &mut Rng, tier: Tier) -> Case {
        if rng.chance(1, 3) {
            gen_wrap(rng)
        } else {
            gen_hist(rng, tier)
        }
    }
    fn run_impl(&self, req: &str, model_out: &str) -> String {
        LAST_CLASSES.with(|c| c.borrow_mut().clear());
        if req == "c19scripts" {
            LAST_CLASSES.with(|c| *c.borrow_mut() = "table".to_string());
            check_table(model_out)
        } else if req.starts_with("c19line ") {
            let t: Vec<&str> = req.split(' ').collect();
            run_line_case(t[1].parse().unwrap_or(0), t[2])
        } else if req.starts_with("c19wrap ") {
            run_wrap(req)
        } else {
            run_hist(req).0
        }
    }
    fn relation(&self, req: &str, _model_out: &str, impl_out: &str) -> Option<bool> {
        if req.starts_with("c19line ") {
            return Some(impl_out == "same-as-unrolled");
        }
        if !req.starts_with("c19hist ") || impl_out == "timeout" || impl_out == "PANIC" {
            return None;
        }
        // the property on the real run alone: every invocation left variables and handle table alone
        Some(impl_out.split(';').filter(|s| !s.is_empty()).all(|s| s.ends_with(":[]:[]:[]:0")))
    }
    fn shrink(&self, req: &str) -> Vec<String> {
        let mut out = vec![];
        if req.starts_with("c19hist ") {
            let h = parse_hist(req);
            if h.form != "top" {
                out.push(mk_hist(&HistReq { form: "top".to_string(), prelude: h.prelude.clone(), uvars: h.uvars.clone(), steps: h.steps.clone() }));
            }
            if h.steps.len() > 1 {
                for i in 0..h.steps.len() {
                    let mut s = h.steps.clone();
                    s.remove(i);
                    out.push(mk_hist(&HistReq { form: h.form.clone(), prelude: h.prelude.clone(), uvars: h.uvars.clone(), steps: s }));
                }
            }
            for i in 0..h.steps.len() {
                for j in 0..h.steps[i].args.len() {
                    let mut s = h.steps.clone();
                    s[i].args.remove(j);
                    out.push(mk_hist(&HistReq { form: h.form.clone(), prelude: h.prelude.clone(), uvars: h.uvars.clone(), steps: s }));
                }
            }
        } else if req.starts_with("c19wrap ") {
            let r = parse_wrap(req);
            macro_rules! drop_each {
                ($field:ident) => {
                    for i in 0..r.$field.len() {
                        let mut n = parse_wrap(req);
                        n.$field.remove(i);
                        out.push(mk_wrap(&n));
                    }
                };
            }
            drop_each!(sets);
            drop_each!(dels);
            drop_each!(vars);
            drop_each!(args);
            if r.nalloc > 0 {
                let mut n = parse_wrap(req);
                n.nalloc = 0;
                out.push(mk_wrap(&n));
            }
            if r.rel {
                let mut n = parse_wrap(req);
                n.rel = false;
                out.push(mk_wrap(&n));
            }
        }
        out
    }
    fn known(&self, req: &str, _model_out: &str, impl_out: &str) -> Option<String> {
        // Findings of this property, matched by the SHAPE of the failing invocations only; anything
        // else (a leaked / modified / removed variable, any other handle imbalance, any other
        // command) stays a violation.
        if req.starts_with("c19line ") {
            return None;
        }
        if !req.starts_with("c19hist ") || impl_out == "timeout" || impl_out == "PANIC" {
            return None;
        }
        let h = parse_hist(req);
        let n = h.steps.len();
        let mut ids: BTreeSet<&str> = BTreeSet::new();
        for (j, seg) in impl_out.split(';').filter(|s| !s.is_empty()).enumerate() {
            if seg.ends_with(":[]:[]:[]:0") {
                continue;
            }
            let step = &h.steps[j % n];
            // exactly one handle too many, variables untouched
            if !seg.ends_with(":[]:[]:[]:1") || !seg.starts_with("run:") {
                return None;
            }
            // (exactly the modes the command rejects: it reads them with from_str_radix(.., 8), which
            // takes a leading `+` and any number of digits; `+644` and `100644` are ACCEPTED modes)
            let octal = |m: &str| u32::from_str_radix(m, 8).is_ok();
            match step.alias.as_str() {
                // glob_chmod <not an octal number> <glob matching something>: chmod fails inside the
                // for loop, `release ${scope::glob_chmod::handle}` is never reached
                "glob_chmod" | "chmod_glob" if step.args.len() >= 2 && !octal(&step.args[0]) => {
                    ids.insert("C19/glob-chmod-error-leaks-handle");
                }
                // glob_cp <glob> <target>: cp fails inside the for loop (the handle exists only in the
                // glob branch), `release ${scope::glob_cp::handle}` is never reached
                // (not when the target is one of the two existing DIRECTORIES of the layout: copying a
                // match into `@T/dst`, or onto itself in `@T/src`, succeeds in the recorded implementation)
                "glob_cp" | "cp_glob" if step.args.len() >= 2 && step.args[0].contains('*') && step.args[1] != "@T/dst" && step.args[1] != "@T/src" => {
                    ids.insert("C19/glob-cp-error-leaks-handle");
                }
                _ => return None,
            }
        }
        // one id per case: a case showing both is reported under the first
        ids.into_iter().next().map(|s| s.to_string())
    }
    fn outcome_kind(&self, _imp: &str) -> String {
        LAST_CLASSES.with(|c| {
            let s = c.borrow();
            if s.is_empty() { "other".to_string() } else { s.clone() }
        })
    }
    fn describe(&self, req: &str) -> String {
        if req.starts_with("c19hist ") {
            let h = parse_hist(req);
            let (line, obs) = run_hist(req);
            let mut d = format!("form {} | prelude: {} | caller vars: {:?} | steps:", h.form, h.prelude.replace('\n', " ; "), h.uvars);
            for s in &h.steps {
                d.push_str(&format!(" [{}{} {}]", s.out.as_ref().map(|o| format!("{} = ", o)).unwrap_or_default(), s.alias, s.args.join(" ")));
            }
            d.push_str(" | observed:");
            for o in &obs {
                d.push_str(&format!(" {}({})→{}{} leaked={:?} modified={:?} removed={:?} handles{:+}", o.alias, o.nargs, o.class, if o.msg.is_empty() { String::new() } else { format!("<{}>", o.msg.replace('\n', " ")) }, o.leaked, o.modified, o.removed, o.hdelta));
            }
            let _ = line;
            d
        } else if req.starts_with("c19wrap ") {
            let r = parse_wrap(req);
            format!(
                "{} args={:?} caller vars={:?} ctx={:?}; body: set {:?} erase {:?} alloc {} release-temp {} result {}",
                r.alias, r.args, r.vars, r.ctx, r.sets, r.dels, r.nalloc, r.rel, r.result
            )
        } else {
            req.to_string()
        }
    }
}
