//! C03: the runner executes exactly what the command results dictate.
use crate::pools;
use crate::rng::Rng;
use crate::scripted::*;
use crate::wire::*;
use crate::{Case, Prop, Tier};

pub struct C03Prop;
pub static C03: C03Prop = C03Prop;

const CMDS: [&str; 4] = ["c0", "c1", "c2", "c3"];
const LABELS: [&str; 6] = [":a", ":b", ":c", ":dup", "::a", ":A"];
const VARS: [&str; 4] = ["x", "y", "z", "w"];

fn gen_arg(rng: &mut Rng) -> String {
    match rng.below(8) {
        0 => format!("${{{}}}", rng.pick(&VARS)),
        1 => format!("\"{} {}\"", pools::word(rng, 3), pools::word(rng, 3)),
        2 => format!("%{{{}}}", rng.pick(&VARS)),
        3 => format!("pre${{{}}}post", rng.pick(&VARS)),
        4 => "\"\"".to_string(),
        _ => pools::word(rng, 4),
    }
}

pub fn gen_line(rng: &mut Rng) -> String {
    match rng.below(12) {
        0 => String::new(),
        1 => "# comment".to_string(),
        2 => rng.pick(&LABELS).to_string(),
        3 => {
            // an unknown command, or a pre-processor line (it stays in the instruction list as a
            // run-time no-op and therefore counts for label positions and goto-line targets)
            match rng.below(4) {
                0 | 1 => "nope arg".to_string(),
                2 => "!include_files".to_string(),
                _ => "!print p".to_string(),
            }
        }
        4 => format!("{} =", rng.pick(&VARS)),
        _ => {
            let mut s = String::new();
            if rng.chance(1, 4) {
                s.push_str(*rng.pick(&LABELS));
                s.push(' ');
            }
            if rng.chance(1, 2) {
                s.push_str(*rng.pick(&VARS));
                s.push_str(" = ");
            }
            s.push_str(*rng.pick(&CMDS));
            for _ in 0..rng.below(4) {
                s.push(' ');
                s.push_str(&gen_arg(rng));
            }
            s
        }
    }
}

/// a line calling the real `exit` / `goto`: codes at and around the limits of i32, padded, signed,
/// empty, non-ASCII digits, from variables; labels with and without the colon, several, empty ones
pub fn gen_real_line(rng: &mut Rng) -> String {
    const CODES: [&str; 30] = ["0", "1", "-1", "+1", "7", "255", "256", "-0", "+0", "000", "007", "2147483647", "2147483648", "-2147483648", "-2147483649", "99999999999", "\"1 \"", "\" 3\"", "\"2\\n\"", "\"\"", "1.0", "1e1", "0x1", "abc", "--1", "+-1", "+", "-", "\u{663}", "1_0"];
    let mut s = String::new();
    if rng.chance(1, 4) {
        s.push_str(*rng.pick(&LABELS));
        s.push(' ');
    }
    if rng.chance(1, 3) {
        s.push_str(*rng.pick(&VARS));
        s.push_str(" = ");
    }
    if rng.chance(1, 2) {
        s.push_str(rng.pick_s(&["exit", "quit", "q", "std::process::Exit"]));
        match rng.below(6) {
            0 => {}
            1 => { s.push(' '); s.push_str(&format!("${{{}}}", rng.pick(&VARS))); }
            2 => { s.push(' '); s.push_str(rng.pick_s(&CODES)); s.push(' '); s.push_str(rng.pick_s(&CODES)); }
            _ => { s.push(' '); s.push_str(rng.pick_s(&CODES)); }
        }
    } else {
        s.push_str(rng.pick_s(&["goto", "goto", "std::flowcontrol::GoTo"]));
        for _ in 0..rng.pick_s(&["0", "1", "1", "1", "1", "2", "3"]).parse::<usize>().unwrap() {
            s.push(' ');
            match rng.below(8) {
                0 => s.push_str("\"\""),
                1 => s.push_str(&rng.pick(&LABELS)[1..]),
                2 => s.push_str(&format!("${{{}}}", rng.pick(&VARS))),
                3 => s.push_str(":undefined"),
                4 => s.push_str(&format!("%{{{}}}", rng.pick(&VARS))),
                _ => s.push_str(*rng.pick(&LABELS)),
            }
        }
    }
    s
}

pub fn gen_result(rng: &mut Rng, nlines: usize, k: usize) -> String {
    let v = |rng: &mut Rng| -> String {
        match rng.below(4) {
            0 => "-".to_string(),
            1 => enc_str(&pools::value(rng)),
            2 => enc_str(&format!("{}", rng.range(-3, 3))),
            _ => enc_str(&pools::word(rng, 3)),
        }
    };
    match rng.below(14) {
        0 | 1 | 2 | 3 | 4 => format!("C/{}", v(rng)),
        5 | 6 => {
            // mostly defined labels; sometimes an undefined one, also NEAR MISSES of a defined label
            // (without its colon, with one colon more): they must fail like any undefined label
            let l = match rng.below(12) {
                0 | 1 => ":undefined".to_string(),
                2 => rng.pick(&LABELS)[1..].to_string(),
                3 => format!(":{}", rng.pick(&LABELS)),
                _ => rng.pick(&LABELS).to_string(),
            };
            format!("GL/{}/{}", v(rng), enc_str(&l))
        }
        7 | 8 => format!("GN/{}/{}", v(rng), rng.below(nlines + 3)),
        9 | 10 | 11 => format!("E/{}", enc_str(&if rng.chance(1, 3) { pools::value(rng) } else { format!("err{}", k) })),
        12 => format!("X/{}", enc_str(&format!("crash#{} {}", k, pools::value(rng)))),
        _ => format!("Q/{}", v(rng)),
    }
}

pub fn gen_program(rng: &mut Rng, max_lines: usize) -> (String, usize) {
    let n = 1 + rng.below(max_lines);
    let lines: Vec<String> = (0..n).map(|_| gen_line(rng)).collect();
    (lines.join("\n"), n)
}

pub fn mk_req(text: &str, names: &[String], queue: &[String], halt_at: Option<usize>, vars: &[(String, String)], fuel: usize) -> String {
    mk_req_op("run", text, names, queue, halt_at, vars, fuel)
}

pub fn mk_req_op(op: &str, text: &str, names: &[String], queue: &[String], halt_at: Option<usize>, vars: &[(String, String)], fuel: usize) -> String {
    let vs = if vars.is_empty() { "-".to_string() } else { vars.iter().map(|(k, v)| format!("{}={}", enc_str(k), enc_str(v))).collect::<Vec<_>>().join(",") };
    format!(
        "{} {} {} {} {} {} {}",
        op, enc_str(text), enc_list(names), if queue.is_empty() { "-".to_string() } else { queue.join(",") },
        halt_at.map(|k| k.to_string()).unwrap_or("-".to_string()), vs, fuel
    )
}

pub struct RunReq {
    pub op: String,
    pub text: String,
    pub names: Vec<String>,
    pub queue: Vec<String>,
    pub halt_at: Option<usize>,
    pub vars: Vec<(String, String)>,
    pub fuel: usize,
}

pub fn parse_req(req: &str) -> RunReq {
    let t: Vec<&str> = req.split(' ').collect();
    RunReq {
        op: t[0].to_string(),
        text: dec_str(t[1]).unwrap(),
        names: dec_list(t[2]).unwrap(),
        queue: if t[3] == "-" { vec![] } else { t[3].split(',').map(|s| s.to_string()).collect() },
        halt_at: t[4].parse().ok(),
        vars: dec_vars(t[5]),
        fuel: t[6].parse().unwrap(),
    }
}

pub fn shrink_run(req: &str) -> Vec<String> {
    let r = parse_req(req);
    let mut out = vec![];
    let lines: Vec<&str> = r.text.split('\n').collect();
    if lines.len() > 1 {
        for i in 0..lines.len() {
            let mut l = lines.clone();
            l.remove(i);
            out.push(mk_req_op(&r.op, &l.join("\n"), &r.names, &r.queue, r.halt_at, &r.vars, r.fuel));
        }
    }
    for i in 0..r.queue.len() {
        let mut q = r.queue.clone();
        q.remove(i);
        out.push(mk_req_op(&r.op, &r.text, &r.names, &q, r.halt_at, &r.vars, r.fuel));
    }
    for i in 0..r.queue.len() {
        if r.queue[i] != "C/-" {
            let mut q = r.queue.clone();
            q[i] = "C/-".to_string();
            out.push(mk_req_op(&r.op, &r.text, &r.names, &q, r.halt_at, &r.vars, r.fuel));
        }
    }
    for i in 0..r.vars.len() {
        let mut v = r.vars.clone();
        v.remove(i);
        out.push(mk_req_op(&r.op, &r.text, &r.names, &r.queue, r.halt_at, &v, r.fuel));
    }
    out
}

// ---------------------------------------------------------------- stream `runm`
// several runs on ONE Context, a command table that commands change at run time, command state
// kept in Context.state (lean/DuckModel/DynScripted.lean)

const DYN_NAMES: [&str; 10] = ["c0", "c1", "c2", "c3", "k0", "k1", "on_error", "reg", "stput", "lib::C"];

fn gen_dyn_line(rng: &mut Rng) -> String {
    let mut s = String::new();
    if rng.chance(1, 6) {
        s.push_str(*rng.pick(&LABELS));
        s.push(' ');
    }
    if rng.chance(1, 2) {
        s.push_str(*rng.pick(&VARS));
        s.push_str(" = ");
    }
    match rng.below(10) {
        0 => {
            s.push_str("reg ");
            s.push_str(*rng.pick(&DYN_NAMES));
            for _ in 0..rng.below(3) {
                s.push(' ');
                s.push_str(*rng.pick(&DYN_NAMES));
            }
        }
        1 => {
            s.push_str("unreg ");
            s.push_str(*rng.pick(&DYN_NAMES));
        }
        2 => {
            if rng.chance(1, 2) {
                s.push_str(&format!("stput {} {}", rng.pick(&["k", "j", "${x}"]), gen_arg(rng)));
            } else {
                s.push_str(&format!("vset {} {}", rng.pick(&VARS), gen_arg(rng)));
            }
        }
        3 => s.push_str(&format!("stget {}", rng.pick(&["k", "j", "${x}", "nokey"]))),
        _ => {
            s.push_str(*rng.pick(&["c0", "c1", "c2", "c3", "k0", "k1", "lib::C", "on_error"]));
            for _ in 0..rng.below(3) {
                s.push(' ');
                s.push_str(&gen_arg(rng));
            }
        }
    }
    s
}

fn gen_dyn(rng: &mut Rng) -> Case {
    // registrations: the four specials, then scripted commands whose aliases may equal OTHER
    // commands' names (accepted by Commands::set; the alias table is consulted first)
    let mut specs: Vec<String> = vec![];
    let spec = |n: &str, al: &[String]| format!("S/{}/{}/0", enc_str(n), enc_list(al));
    for n in ["reg", "unreg", "stput", "stget"] {
        specs.push(spec(n, &[]));
    }
    // sometimes the error handler is a command that WRITES VARIABLES: `vset` registered with the
    // alias `on_error` sets the variable named like the error message to the reported line; error
    // messages are then variable names that failing lines also use as output variables
    let vset_handler = rng.chance(1, 4);
    if vset_handler {
        specs.push(spec("vset", &["on_error".to_string()]));
    } else {
        specs.push(spec("vset", &[]));
    }
    let pool = ["c0", "c1", "c2", "c3", "k0", "k1", "on_error", "lib::C"];
    let ncmd = 2 + rng.below(4);
    for _ in 0..ncmd {
        let n = *rng.pick(&pool);
        let al: Vec<String> = (0..rng.below(3)).map(|_| rng.pick(&pool).to_string()).collect();
        specs.push(spec(n, &al));
    }
    let ntexts = 1 + rng.below(3);
    let mut maxn = 0;
    let texts: Vec<String> = (0..ntexts).map(|_| {
        let n = 1 + rng.below(10);
        maxn = maxn.max(n);
        (0..n).map(|_| if rng.chance(1, 8) { gen_line(rng) } else { gen_dyn_line(rng) }).collect::<Vec<_>>().join("\n")
    }).collect();
    let qn = rng.below(20);
    let mut queue: Vec<String> = (0..qn).map(|k| gen_result(rng, maxn, k)).collect();
    if vset_handler {
        // errors whose message is the name of a variable the scripts use
        for q in queue.iter_mut() {
            if q.starts_with("E/") && rng.chance(2, 3) {
                *q = format!("E/{}", enc_str(rng.pick_s(&VARS)));
            }
        }
    }
    let mut vars: Vec<String> = vec![];
    for k in VARS.iter() {
        if rng.chance(1, 2) {
            vars.push(format!("{}={}", enc_str(k), enc_str(&pools::value(rng))));
        }
    }
    let fuel = (qn + 3) * (maxn + 3) + 10;
    let req = format!(
        "runm {} {} {} {} {}",
        specs.join(";"), if queue.is_empty() { "-".to_string() } else { queue.join(",") },
        if vars.is_empty() { "-".to_string() } else { vars.join(",") }, fuel,
        texts.iter().map(|t| enc_str(t)).collect::<Vec<_>>().join(";")
    );
    let mut tags = vec!["multi-run+dynamic-registry"];
    if ntexts > 1 { tags.push("runs>=2"); }
    Case { req, in_domain: true, nontrivial: qn >= 2, tags }
}

fn run_dyn_req(req: &str) -> String {
    let t: Vec<&str> = req.split(' ').collect();
    let specs: Vec<(String, Vec<String>)> = t[1].split(';').map(|s| {
        let f: Vec<&str> = s.split('/').collect();
        (dec_str(f[1]).unwrap(), dec_list(f[2]).unwrap())
    }).collect();
    let vars = dec_vars(t[3]);
    let texts: Vec<String> = t[5].split(';').map(|x| dec_str(x).unwrap()).collect();
    run_dyn(&specs, t[2], &vars, &texts)
}

fn shrink_dyn(req: &str) -> Vec<String> {
    let t: Vec<&str> = req.split(' ').collect();
    let mut out = vec![];
    let join = |specs: &[&str], q: &[&str], texts: &[String]| format!("runm {} {} {} {} {}", specs.join(";"), if q.is_empty() { "-".to_string() } else { q.join(",") }, t[3], t[4], texts.join(";"));
    let specs: Vec<&str> = t[1].split(';').collect();
    let q: Vec<&str> = if t[2] == "-" { vec![] } else { t[2].split(',').collect() };
    let texts: Vec<String> = t[5].split(';').map(|x| x.to_string()).collect();
    for i in 5..specs.len() {
        let mut s2 = specs.clone();
        s2.remove(i);
        out.push(join(&s2, &q, &texts));
    }
    if texts.len() > 1 {
        for i in 0..texts.len() {
            let mut t2 = texts.clone();
            t2.remove(i);
            out.push(join(&specs, &q, &t2));
        }
    }
    for (i, tx) in texts.iter().enumerate() {
        let text = dec_str(tx).unwrap();
        let lines: Vec<&str> = text.split('\n').collect();
        if lines.len() > 1 {
            for j in 0..lines.len() {
                let mut l = lines.clone();
                l.remove(j);
                let mut t2 = texts.clone();
                t2[i] = enc_str(&l.join("\n"));
                out.push(join(&specs, &q, &t2));
            }
        }
    }
    for i in 0..q.len() {
        let mut q2 = q.clone();
        q2.remove(i);
        out.push(join(&specs, &q2, &texts));
    }
    out
}

pub fn describe_run(req: &str) -> String {
    if req.starts_with("runm ") {
        let t: Vec<&str> = req.split(' ').collect();
        let specs: Vec<String> = t[1].split(';').map(|s| { let f: Vec<&str> = s.split('/').collect(); format!("{}{:?}", dec_str(f[1]).unwrap(), dec_list(f[2]).unwrap()) }).collect();
        let texts: Vec<String> = t[5].split(';').map(|x| dec_str(x).unwrap()).collect();
        return format!("runs on one Context: registrations={:?} results={} vars={:?} scripts={:?}", specs, t[2], dec_vars(t[3]), texts);
    }
    let r = parse_req(req);
    format!("run_script({:?}) commands={:?} results={:?} halt_at={:?} vars={:?}", r.text, r.names, r.queue, r.halt_at, r.vars)
}

impl Prop for C03Prop {
    fn id(&self) -> &'static str {
        "C03"
    }
    fn rule(&self) -> &'static str {
        "programs of 1-25 lines over scripted commands c0..c3 (labels incl. duplicates, output variables, ${}/%{} arguments, unknown commands, blank/comment lines), a queue of results chosen by the generator (continue/goto label/goto line/error/crash/exit, with and without values, undefined labels, out-of-range lines), with or without an on_error command (same queue), initial variables. Observed: call log (command, bound arguments, line index), final variables, success / failure with the failing instruction's line. One case in four is a `runm` history (lean/DuckModel/DynScripted.lean): 1-3 scripts run one after the other on the Context the previous run returned; registrations whose aliases equal other commands' names (the alias table is consulted first; the log names the command that actually ran); commands that register / remove commands - on_error included - while the script runs; commands that keep state in Context.state (read back by later commands, by the next run and after the last run); compared in addition: the returned state and the registered names. Non-trivial = at least 3 command invocations and at least one goto or error result consumed; distinct = distinct request."
    }
    fn budget(&self, tier: Tier) -> usize {
        match tier {
            Tier::Quick => 20_000,
            Tier::Thorough => 1_500_000,
        }
    }
    fn generate(&self, rng: &mut Rng, _tier: Tier) -> Case {
        if rng.chance(1, 4) {
            return gen_dyn(rng);
        }
        // one case in six: the REAL `exit` / `goto` of the SDK among the scripted commands (op
        // `runx`, lean/DuckModel/Sdk/ProcessCmd.lean) — what they accept decides what a script
        // can hand the runner as an exit value / a jump target
        let real = rng.chance(1, 6);
        let (mut text, n) = gen_program(rng, 25);
        if real {
            let mut lines: Vec<String> = text.split('\n').map(|s| s.to_string()).collect();
            for _ in 0..1 + rng.below(3) {
                let at = rng.below(lines.len());
                lines[at] = gen_real_line(rng);
            }
            text = lines.join("\n");
        }
        let mut names: Vec<String> = CMDS.iter().map(|s| s.to_string()).collect();
        let on_error = rng.chance(1, 2);
        if on_error {
            names.push("on_error".to_string());
        }
        let qn = rng.below(30);
        let queue: Vec<String> = (0..qn).map(|k| gen_result(rng, n, k)).collect();
        let mut vars: Vec<(String, String)> = vec![];
        for k in VARS.iter() {
            if rng.chance(1, 2) {
                vars.push((k.to_string(), pools::value(rng)));
            }
        }
        let fuel = (qn + 3) * (n + 3) + 10;
        let nontrivial = qn >= 3 && queue.iter().any(|q| q.starts_with('G') || q.starts_with('E'));
        let mut tags = vec![];
        if on_error { tags.push("on_error"); }
        for q in &queue {
            match &q[..1] {
                "G" => if !tags.contains(&"goto") { tags.push("goto") },
                "E" => if !tags.contains(&"error") { tags.push("error") },
                "X" => if !tags.contains(&"crash") { tags.push("crash") },
                "Q" => if !tags.contains(&"exit") { tags.push("exit") },
                _ => {}
            }
        }
        if real { tags.push("real-exit-goto"); }
        Case { req: mk_req_op(if real { "runx" } else { "run" }, &text, &names, &queue, None, &vars, fuel), in_domain: true, nontrivial: nontrivial || real, tags }
    }
    fn run_impl(&self, req: &str, model: &str) -> String {
        if req.starts_with("runm ") {
            return run_dyn_req(req);
        }
        let r = parse_req(req);
        if r.op == "runx" {
            // a loop of real `goto`s uses no scripted result and never ends: the (total) model
            // runs out of fuel, and the implementation is not started at all
            if model.starts_with("fuel") {
                return model.to_string();
            }
            return crate::scripted::run_scripted_with(&r.text, None, &r.names, &r.queue.join(","), r.halt_at, &r.vars, &["exit", "goto"]);
        }
        run_scripted(&r.text, None, &r.names, &r.queue.join(","), r.halt_at, &r.vars)
    }
    fn shrink(&self, req: &str) -> Vec<String> {
        if req.starts_with("runm ") {
            return shrink_dyn(req);
        }
        shrink_run(req)
    }
    fn describe(&self, req: &str) -> String {
        describe_run(req)
    }
}
