//! C20: the command-line tool reports what the library decided.
//!
//! The `duck` executable built from /repo (bin/check builds it into
//! harness/target-cli/release/duck) is run as a subprocess; its exit status and stdout are
//! compared with
//!  (a) the in-process library (`runner::run_script` / `run_script_file` with the SDK loaded,
//!      output captured through the `Env` writers; for `--lint`: `parser::parse_file` plus the
//!      property's own lower-case test with the real `str::to_lowercase`), and
//!  (b) the Lean model's `dispatch` / `lintText`.
//!
//! ops:  `cli <args list> <file content | ->`   the argument `@F` stands for the script file
//!       `lint <text>`
use crate::rng::Rng;
use crate::sdkenv::{guarded_halt, sdk_context};
use crate::wire::*;
use crate::{Case, Prop, Tier};
use duckscript::types::env::Env;
use duckscript::types::instruction::InstructionType;
use std::cell::RefCell;
use std::io::{Read, Write};
use std::process::{Command, Stdio};
use std::rc::Rc;
use std::sync::atomic::{AtomicUsize, Ordering};
use std::time::{Duration, Instant};

pub struct C20Prop;
pub static C20: C20Prop = C20Prop;

const FILE_ARG: &str = "@F";
const REPL_INPUT: &str = "echo repl-ok\nexit\n";
const REPL_OUTPUT: &str = "repl-ok \n";
const LINT_MSGS: [&str; 3] = ["Labels should be all lowercase.", "Commands should be all lowercase.", "Output variable should be all lowercase."];

static COUNTER: AtomicUsize = AtomicUsize::new(0);

fn duck_path() -> std::path::PathBuf {
    if let Ok(p) = std::env::var("VERIF_DUCK") {
        return p.into();
    }
    // <harness>/target/release/harness  ->  <harness>/target-cli/release/duck
    let exe = std::env::current_exe().expect("current_exe");
    let harness_dir = exe.parent().and_then(|p| p.parent()).and_then(|p| p.parent()).expect("harness dir");
    harness_dir.join("target-cli").join("release").join("duck")
}

/// a fresh temp file path (not created)
fn temp_path() -> String {
    let n = COUNTER.fetch_add(1, Ordering::SeqCst);
    std::env::temp_dir().join(format!("verif-c20-{}-{}.ds", std::process::id(), n)).to_string_lossy().to_string()
}

struct TempFile(String);
impl Drop for TempFile {
    fn drop(&mut self) {
        let _ = std::fs::remove_file(&self.0);
    }
}

struct Observed {
    status: Option<i32>,
    stdout: String,
    timed_out: bool,
}

/// run the executable: stdin null (or the given text), stdout captured, killed after 5 s
fn run_duck(args: &[String], stdin_text: Option<&str>) -> Observed {
    let mut cmd = Command::new(duck_path());
    cmd.args(args).stdout(Stdio::piped()).stderr(Stdio::null());
    cmd.stdin(if stdin_text.is_some() { Stdio::piped() } else { Stdio::null() });
    let mut child = match cmd.spawn() {
        Ok(c) => c,
        Err(e) => return Observed { status: None, stdout: format!("SPAWN-FAILED {}", e), timed_out: false },
    };
    if let Some(t) = stdin_text {
        if let Some(mut si) = child.stdin.take() {
            let _ = si.write_all(t.as_bytes());
        }
    }
    let mut so = child.stdout.take().expect("stdout");
    let reader = std::thread::spawn(move || {
        let mut buf = Vec::new();
        let _ = so.read_to_end(&mut buf);
        buf
    });
    let deadline = Instant::now() + Duration::from_secs(5);
    let mut timed_out = false;
    let status = loop {
        match child.try_wait() {
            Ok(Some(st)) => break st.code(),
            Ok(None) => {
                if Instant::now() >= deadline {
                    let _ = child.kill();
                    let _ = child.wait();
                    timed_out = true;
                    break None;
                }
                std::thread::sleep(Duration::from_millis(2));
            }
            Err(_) => break None,
        }
    };
    let buf = reader.join().unwrap_or_default();
    Observed { status, stdout: String::from_utf8_lossy(&buf).to_string(), timed_out }
}

struct Cap(Rc<RefCell<Vec<u8>>>);
impl Write for Cap {
    fn write(&mut self, b: &[u8]) -> std::io::Result<usize> {
        self.0.borrow_mut().extend_from_slice(b);
        Ok(b.len())
    }
    fn flush(&mut self) -> std::io::Result<()> {
        Ok(())
    }
}

/// the in-process library run: (printed output, Ok / Err(Display text)); None = watchdog fired
fn run_library(value: &str, is_file: bool) -> Option<(String, Result<(), String>)> {
    run_library_known(value, is_file, None)
}

/// `known_text`: the content of the file when it can be read only once (a named pipe)
fn run_library_known(value: &str, is_file: bool, known_text: Option<&str>) -> Option<(String, Result<(), String>)> {
    let buf = Rc::new(RefCell::new(Vec::new()));
    let halt = guarded_halt(3000);
    let env = Env::new(Some(Box::new(Cap(buf.clone()))), Some(Box::new(crate::scripted::Sink)), Some(halt.clone()));
    let ctx = sdk_context();
    let res = if is_file { duckscript::runner::run_script_file(value, ctx, Some(env)) } else { duckscript::runner::run_script(value, ctx, Some(env)) };
    if halt.load(Ordering::SeqCst) {
        return None;
    }
    let out = String::from_utf8_lossy(&buf.borrow()).to_string();
    // `!print` lines write to the process's stdout while the text is PARSED (once per parse, before
    // anything runs): the library run of a text that parses printed each of them exactly once
    let text = match known_text { Some(t) => t.to_string(), None => if is_file { std::fs::read_to_string(value).unwrap_or_default() } else { value.to_string() } };
    let mut printed = String::new();
    if text.contains("!print") {
        if let Ok(instructions) = duckscript::parser::parse_text(&text) {
            for i in instructions {
                if let duckscript::types::instruction::InstructionType::PreProcess(p) = i.instruction_type {
                    if p.command.as_deref() == Some("print") {
                        for a in p.arguments.unwrap_or_default() {
                            printed.push_str(&a);
                            printed.push(' ');
                        }
                        printed.push('\n');
                    }
                }
            }
        }
    }
    Some((format!("{}{}", printed, out), res.map(|_| ()).map_err(|e| e.to_string())))
}

/// the property's relation for file / eval runs: status 0 <=> library Ok; on failure a non-zero
/// status and an `Error: <message>` line; the same printed output before it
fn matches_library(obs: &Observed, lib: &(String, Result<(), String>)) -> bool {
    match &lib.1 {
        Ok(()) => obs.status == Some(0) && obs.stdout == lib.0,
        Err(msg) => obs.status.is_some() && obs.status != Some(0) && obs.stdout == format!("{}Error: {}\n", lib.0, msg),
    }
}

fn is_lower(v: &Option<String>) -> bool {
    match v {
        Some(t) => t.to_lowercase() == *t,
        None => true,
    }
}

enum LintExpect {
    ParseError(String),
    Accept,
    /// every (source, line, message) a rejection may name
    Reject(Vec<(String, String, &'static str)>),
}

/// what the property demands of `duck --lint <file>`, from the library's parser and the real
/// `to_lowercase`
fn lint_expect(file: &str) -> LintExpect {
    match duckscript::parser::parse_file(file) {
        Err(e) => LintExpect::ParseError(e.to_string()),
        Ok(instructions) => {
            let mut bad = vec![];
            for i in &instructions {
                if let InstructionType::Script(s) = &i.instruction_type {
                    let src = i.meta_info.source.clone().unwrap_or("Unknown".to_string());
                    let line = i.meta_info.line.map(|l| l.to_string()).unwrap_or("Unknown".to_string());
                    for (field, msg) in [(&s.label, LINT_MSGS[0]), (&s.command, LINT_MSGS[1]), (&s.output, LINT_MSGS[2])] {
                        if !is_lower(field) {
                            bad.push((src.clone(), line.clone(), msg));
                        }
                    }
                }
            }
            if bad.is_empty() { LintExpect::Accept } else { LintExpect::Reject(bad) }
        }
    }
}

/// the verdict the executable printed for a lint of `file`: `ok` | `fail <line> <msg>` |
/// `parse-error <message text>`; None if the output has none of these shapes
fn lint_observed(obs: &Observed, file: &str) -> Option<(String, Option<(String, String, String)>)> {
    let head = format!("File: {} parsed correctly.\n", file);
    if let Some(rest) = obs.stdout.strip_prefix(&head) {
        if rest == format!("No lint errors found in file: {}\n", file) && obs.status == Some(0) {
            return Some(("ok".to_string(), None));
        }
        let e = rest.strip_prefix("Error: Source: ")?.strip_suffix('\n')?;
        let (src, e) = e.split_once(" Line: ")?;
        let (line, msg) = e.split_once(" - ")?;
        if obs.status.is_none() || obs.status == Some(0) {
            return None;
        }
        return Some((format!("fail {} {}", line, enc_str(msg)), Some((src.to_string(), line.to_string(), msg.to_string()))));
    }
    if obs.stdout.starts_with("Error: ") && obs.status.is_some() && obs.status != Some(0) {
        return Some(("parse-error".to_string(), None));
    }
    None
}

/// does the observed lint run satisfy the property (relative to the library's parse)?
fn lint_relation(obs: &Observed, file: &str) -> bool {
    let seen = match lint_observed(obs, file) {
        Some(s) => s,
        None => return false,
    };
    match lint_expect(file) {
        LintExpect::ParseError(msg) => seen.0 == "parse-error" && obs.stdout == format!("Error: {}\n", msg),
        LintExpect::Accept => seen.0 == "ok",
        LintExpect::Reject(bad) => match seen.1 {
            Some((src, line, msg)) => bad.iter().any(|(s, l, m)| *s == src && *l == line && *m == msg),
            None => false,
        },
    }
}

fn nomatch(obs: &Observed) -> String {
    let st = if obs.timed_out { "timeout".to_string() } else { obs.status.map(|s| s.to_string()).unwrap_or("signal".to_string()) };
    let mut out = obs.stdout.clone();
    out.truncate(out.char_indices().nth(300).map(|(i, _)| i).unwrap_or(out.len()));
    format!("nomatch status={} stdout={}", st, enc_str(&out))
}

fn run_cli_case(args: &[String], content: Option<&str>) -> String {
    let path = temp_path();
    let _guard = TempFile(path.clone());
    if let Some(c) = content {
        std::fs::write(&path, c).expect("write temp script");
    }
    let real: Vec<String> = args.iter().map(|a| if a == FILE_ARG { path.clone() } else { a.clone() }).collect();
    let back = |s: &str| if s == path { FILE_ARG.to_string() } else { s.to_string() };
    let obs = run_duck(&real, if real.is_empty() { Some(REPL_INPUT) } else { None });
    if obs.timed_out {
        return nomatch(&obs);
    }
    // every action `run_cli` could conceivably take on these arguments, with what the
    // property says the executable must then print and return
    let mut matched: Vec<String> = vec![];
    if real.is_empty() {
        if obs.status == Some(0) && obs.stdout == REPL_OUTPUT {
            matched.push("repl".to_string());
        }
    } else {
        let vhead = format!("Duckscript Runtime: {}\nDuckscript SDK: {}\nDuckscript CLI: ", duckscript::version(), duckscriptsdk::version());
        if obs.status == Some(0) && obs.stdout.starts_with(&vhead) && obs.stdout.matches('\n').count() == 3 && obs.stdout.ends_with('\n') {
            matched.push("version".to_string());
        }
        let usage = std::fs::read_to_string("/repo/duckscript_cli/src/help.txt").unwrap_or_default();
        if obs.status == Some(0) && obs.stdout.starts_with("duckscript ") && obs.stdout.ends_with(&format!("\n\n{}\n", usage)) {
            matched.push("help".to_string());
        }
        if real.len() >= 2 {
            if let Some(lib) = run_library(&real[1], false) {
                if matches_library(&obs, &lib) {
                    matched.push(format!("eval:{}", enc_str(&back(&real[1]))));
                }
            }
            if lint_relation(&obs, &real[1]) {
                matched.push(format!("lint:{}", enc_str(&back(&real[1]))));
            }
        }
        if let Some(lib) = run_library(&real[0], true) {
            if matches_library(&obs, &lib) {
                matched.push(format!("run:{}", enc_str(&back(&real[0]))));
            }
        }
    }
    if matched.is_empty() { nomatch(&obs) } else { matched.join("|") }
}

/// feed `content` to whoever opens the named pipe `path` for reading (within 4 s)
fn fifo_writer(path: String, content: String) -> std::thread::JoinHandle<bool> {
    std::thread::spawn(move || {
        use std::os::unix::fs::OpenOptionsExt;
        let deadline = Instant::now() + Duration::from_secs(4);
        loop {
            // O_NONBLOCK (0o4000 on Linux): opening a FIFO for writing fails while nobody reads it
            match std::fs::OpenOptions::new().write(true).custom_flags(0o4000).open(&path) {
                Ok(mut f) => {
                    let _ = f.write_all(content.as_bytes());
                    return true;
                }
                Err(_) => {
                    if Instant::now() >= deadline {
                        return false;
                    }
                    std::thread::sleep(Duration::from_millis(1));
                }
            }
        }
    })
}

/// `duck <named pipe>`: the executable must do what the library does with a file of that name
/// and content.  The library's answer is taken from a REGULAR file with the same content and the
/// file name replaced in its texts: reading the pipe in-process would leave a read end open that
/// a child forked by another worker thread at that moment inherits until its exec — the feeder of
/// the executable's run can then connect to that stray end and the text is lost (seen as a
/// time-out of the unchanged executable under load; the pipe is now opened by the executable only).
fn run_fifo_case(content: &str) -> String {
    let path = temp_path();
    let _guard = TempFile(path.clone());
    let plain = temp_path();
    let _guard2 = TempFile(plain.clone());
    if std::fs::write(&plain, content).is_err() {
        return "fifo NO-TEMP-FILE".to_string();
    }
    let lib = match run_library(&plain, true) {
        Some((out, res)) => (out.replace(&plain, &path), res.map_err(|e| e.replace(&plain, &path))),
        None => return "fifo library-watchdog".to_string(),
    };
    match Command::new("mkfifo").arg(&path).status() {
        Ok(st) if st.success() => {}
        _ => return "fifo NO-MKFIFO".to_string(),
    }
    let w = fifo_writer(path.clone(), content.to_string());
    let obs = run_duck(&[path.clone()], None);
    let fed_cli = w.join().unwrap_or(false);
    if fed_cli && !obs.timed_out && matches_library(&obs, &lib) { "fifo-ok".to_string() } else { format!("{} fed={}", nomatch(&obs), fed_cli) }
}

fn run_lint_case(text: &str) -> String {
    let path = temp_path();
    let _guard = TempFile(path.clone());
    std::fs::write(&path, text).expect("write temp script");
    let flag = if text.len() % 2 == 0 { "-l" } else { "--lint" };
    let obs = run_duck(&[flag.to_string(), path.clone()], None);
    match lint_observed(&obs, &path) {
        None => nomatch(&obs),
        Some((line, _)) => {
            if lint_relation(&obs, &path) { line } else { format!("{} REL-VIOLATED", line) }
        }
    }
}

/// `duck --lint main` where `main` includes a second file (`@INC` in its text): the verdict, and
/// for a rejection the reported source and line, are those of the instruction as the library's
/// `parse_file` tags it (an offending line of the INCLUDED file is reported under that file)
fn run_lint_include_case(main_text: &str, inc_text: &str) -> String {
    let path = temp_path();
    let inc = format!("{}.inc.ds", path);
    let _g1 = TempFile(path.clone());
    let _g2 = TempFile(inc.clone());
    std::fs::write(&inc, inc_text).expect("write temp include");
    std::fs::write(&path, main_text.replace("@INC", &inc)).expect("write temp script");
    let obs = run_duck(&["--lint".to_string(), path.clone()], None);
    if lint_relation(&obs, &path) { "lintinc".to_string() } else { format!("lintinc REL-VIOLATED {}", nomatch(&obs)) }
}

// ---------------------------------------------------------------- the interactive loop

/// `duck` without arguments reads lines from stdin, runs each as it comes on the SAME context and
/// prints the message of a crashing line instead of stopping.  The lines of a `repl` request are
/// straight-line commands (no jumps), the last one is `exit`; the library oracle runs each line as
/// a script of its own on the context the previous line returned (a crashing line — only unknown
/// commands crash here — leaves the context as it was and contributes its message).
fn run_repl_case(text: &str) -> String {
    let obs = run_duck(&[], Some(text));
    let mut ctx = sdk_context();
    let mut expected = String::new();
    for line in text.lines() {
        if line.trim() == "exit" {
            break;
        }
        let buf = Rc::new(RefCell::new(Vec::new()));
        let halt = guarded_halt(3000);
        let env = Env::new(Some(Box::new(Cap(buf.clone()))), Some(Box::new(crate::scripted::Sink)), Some(halt.clone()));
        let keep = ctx.clone();
        match duckscript::runner::run_script(line, ctx, Some(env)) {
            Ok(c) => {
                ctx = c;
                expected.push_str(&String::from_utf8_lossy(&buf.borrow()));
            }
            Err(e) => {
                ctx = keep;
                expected.push_str(&String::from_utf8_lossy(&buf.borrow()));
                expected.push_str(&format!("{}\n", e));
            }
        }
    }
    if obs.status == Some(0) && obs.stdout == expected {
        "repl".to_string()
    } else {
        format!("repl-DIFFERS status={:?} stdout={} expected={}", obs.status, enc_str(&obs.stdout), enc_str(&expected))
    }
}

const REPL_LINES: [&str; 18] = [
    "echo a b", "x = set v", "echo ${x}", "badcommand", "other_unknown a b", "trigger_error first", "e = get_last_error", "echo last=${e}",
    "y = array_length nope", "echo y=${y}", "dir = set c:\\\\temp\\\\", "echo ${dir} next", ":lbl echo labelled", "", "# comment",
    "l = get_last_error_line", "echo line=${l}", "echo \"two words\" ${x}",
];

fn gen_repl(rng: &mut Rng) -> Case {
    let n = 1 + rng.below(7);
    let mut lines: Vec<&str> = (0..n).map(|_| rng.pick_s(&REPL_LINES)).collect();
    lines.push("exit");
    let text = format!("{}\n", lines.join("\n"));
    case(format!("repl {}", enc_str(&text)), vec!["form:repl-lines"], true)
}

// ---------------------------------------------------------------- generators

const LOWER_NAMES: [&str; 8] = ["out", "x", "my_var", "v1", "é", "res.a", "ß2", "日本"];
const MIXED_NAMES: [&str; 12] = ["Out", "X", "myVar", "V1", "RESULT", "res.A", "éA", "Äpfel", "éÉ", "Σx", "straße_Ü", "ǅ1"];
const LOWER_LABELS: [&str; 5] = [":start", ":l1", ":end_loop", ":é", ":a.b"];
const MIXED_LABELS: [&str; 8] = [":Start", ":L1", ":endLoop", ":END", ":a.B", ":Étiquette", ":übEr", ":Ω"];
const WORDS: [&str; 18] = ["hello", "World", "ABC", "x1", "\"two words\"", "\"Quoted UP\"", "${x}", "${Y}", "%{z}", "é", "a=b", "1", "a;b", "\"semi; colon\"", "end;", "a\\nb", "\"tab\\there\"", "${1}"];

fn words(rng: &mut Rng) -> String {
    let n = rng.below(4);
    (0..n).map(|_| rng.pick_s(&WORDS)).collect::<Vec<_>>().join(" ")
}

#[derive(Clone, Copy, PartialEq)]
enum Kind {
    Succeed,
    Crash,
    ExitCode,
    ParseError,
}

/// one line that runs fine and is lower-case where the linter looks (arguments may be anything)
fn good_line(rng: &mut Rng) -> String {
    match rng.below(9) {
        0 | 1 | 2 => format!("echo {}", words(rng)),
        3 => format!("{} = set {}", rng.pick_s(&LOWER_NAMES), rng.pick_s(&WORDS)),
        4 => format!("{} echo {}", rng.pick_s(&LOWER_LABELS), words(rng)),
        5 => format!("{} {} = echo {}", rng.pick_s(&LOWER_LABELS), rng.pick_s(&LOWER_NAMES), words(rng)),
        6 => rng.pick_s(&["", "# Comment With Caps", "   ", "echo a # Trailing", "\techo tab", "x =", "my_var =", ":l1 out ="]).to_string(),
        7 => rng.pick_s(&LOWER_LABELS).to_string(),
        // (`pwd` prints the working directory: the executable must run the script where it was started, like the library;
        //  the SIZE of the environment: the executable must not add variables of its own; function DEFINITIONS whose
        //  name — an argument, not a command — is not lower-case: the linter looks at labels, commands and outputs only)
        _ => rng.pick_s(&["exit 0", "x = is_defined Y", "noop A B", "y = not false", "unset X", "pwd", "d = pwd",
            "m = env_to_map\nn = map_size ${m}\necho env-size ${n}\nrelease ${m}", "fn Print_Banner\necho Banner\nend", "fn <scope> Mixed_Case A\nend\nfunction UPPER\nend"]).to_string(),
    }
}

/// a line with an upper-case letter in label, command or output (runs fine unless the command
/// is the misspelt part: command names are case-sensitive)
fn mixed_line(rng: &mut Rng) -> String {
    match rng.below(9) {
        0 => format!("{} echo {}", rng.pick_s(&MIXED_LABELS), words(rng)),
        1 => format!("{} = set {}", rng.pick_s(&MIXED_NAMES), rng.pick_s(&WORDS)),
        2 => format!("{} {}", rng.pick_s(&["Echo", "ECHO", "eCho", "Set", "std::Echo"]), words(rng)),
        // the full `package::Name` spelling of a command: its last part is not lower-case
        // (no command that returns a HANDLE: handle names are random, `echo ${x}` would differ between two runs)
        8 => format!("{}{} {}", if rng.chance(1, 3) { "x = " } else { "" }, rng.pick_s(&["std::Echo", "std::IsDefined", "std::string::IsEmpty", "std::string::Equals", "std::Noop", "My::print", "a::B"]), rng.pick_s(&["a", "x1", "hello"])),
        3 => format!("{} {} = {} a", rng.pick_s(&MIXED_LABELS), rng.pick_s(&MIXED_NAMES), rng.pick_s(&["Echo", "echo"])),
        4 => rng.pick_s(&MIXED_LABELS).to_string(),
        // an output variable without a command (the documented way to unset it)
        5 => format!("{} =", rng.pick_s(&MIXED_NAMES)),
        6 => format!("{} {} =", rng.pick_s(&LOWER_LABELS), rng.pick_s(&MIXED_NAMES)),
        _ => format!("{} = echo {}", rng.pick_s(&MIXED_NAMES), words(rng)),
    }
}

fn bad_line(rng: &mut Rng, kind: Kind) -> String {
    match kind {
        Kind::Succeed => good_line(rng),
        Kind::Crash => rng.pick_s(&["badcmd a b", "x = no_such_command", "assert false", "assert_eq a b", "assert_fail boom", "trigger_error", "goto :nowhere"]).to_string(),
        Kind::ExitCode => rng.pick_s(&["exit 3", "exit 1", "exit 255", "exit -1", "exit 256", "code = exit 7"]).to_string(),
        Kind::ParseError => rng.pick_s(&["echo \"abc", "echo \\q", "x = \"set\" a", ": echo a", "!nopreprocessor a", "echo \"a\" \"b", "echo a\\", "!"]).to_string(),
    }
}

fn script(rng: &mut Rng, kind: Kind, mixed: bool) -> String {
    let n = 1 + rng.below(5);
    let mut lines: Vec<String> = (0..n).map(|_| if mixed && rng.chance(1, 3) { mixed_line(rng) } else { good_line(rng) }).collect();
    if mixed && !lines.iter().any(|l| l.chars().any(|c| c.is_uppercase())) {
        lines.push(mixed_line(rng));
    }
    if kind != Kind::Succeed {
        let at = rng.below(lines.len() + 1);
        lines.insert(at, bad_line(rng, kind));
    }
    let mut text = lines.join(if rng.chance(1, 8) { "\r\n" } else { "\n" });
    if rng.chance(1, 2) {
        text.push('\n');
    }
    text
}

fn pick_kind(rng: &mut Rng) -> (Kind, &'static str) {
    match rng.below(8) {
        0 | 1 | 2 => (Kind::Succeed, "script:succeeds"),
        3 | 4 => (Kind::Crash, "script:crash"),
        5 => (Kind::ExitCode, "script:exit-code"),
        _ => (Kind::ParseError, "script:parse-error"),
    }
}

fn cli_req(args: &[&str], content: Option<&str>) -> String {
    let a: Vec<String> = args.iter().map(|s| s.to_string()).collect();
    format!("cli {} {}", enc_list(&a), content.map(enc_str).unwrap_or("-".to_string()))
}

fn in_domain_text(_t: &str) -> bool {
    // the model's lower-case test is exact for every text since it carries the table of
    // characters that `char::to_lowercase` changes (request `lowertab` compares that table with
    // the toolchain on every run)
    true
}

/// the characters >= 128 that the toolchain's `char::to_lowercase` does not map to themselves,
/// as inclusive ranges, in the format of the model's `lowertab` answer
fn lower_table_of_toolchain() -> String {
    let mut ranges: Vec<(u32, u32)> = vec![];
    for cp in 0x80u32..=0x10FFFF {
        if let Some(c) = char::from_u32(cp) {
            let mut it = c.to_lowercase();
            let fixed = it.next() == Some(c) && it.next().is_none();
            if !fixed {
                if let Some(last) = ranges.last_mut() {
                    if last.1 + 1 == cp {
                        last.1 = cp;
                        continue;
                    }
                }
                ranges.push((cp, cp));
            }
        }
    }
    ranges.iter().map(|(a, b)| format!("{}-{}", a, b)).collect::<Vec<_>>().join(",")
}

fn case(req: String, tags: Vec<&'static str>, dom: bool) -> Case {
    Case { req, in_domain: dom, nontrivial: true, tags }
}

impl Prop for C20Prop {
    fn id(&self) -> &'static str {
        "C20"
    }
    fn rule(&self) -> &'static str {
        "every case runs the real `duck` executable (built from /repo) once as a subprocess (stdin null, 5 s kill guard) and compares exit status + stdout with the in-process library and with the Lean model. op `cli`: argument vectors of every form (FILE; -e/--eval TEXT; -l/--lint FILE; --version; --help/-h; flags without value; extra trailing arguments; flags after the file; upper-case flag spellings; empty argument; no argument = REPL fed `echo`+`exit` on stdin) over generated scripts that succeed, crash (unknown/misspelt command, failed assert, goto to a missing label), end with a non-zero `exit`, or do not parse (unterminated quote, bad escape, empty label, unknown preprocessor); each conceivable action (repl, version, help, eval args[2], lint args[2], run args[1]) is replayed in-process (run_script / run_script_file with the SDK, output captured via Env; lint = parser::parse_file + str::to_lowercase test) and the one whose demanded status/stdout (status 0 <=> Ok, else non-zero + `Error: <Display>` line after the same output) equals the observation is reported and must equal the model's dispatch. op `lint`: generated scripts with lower/mixed-case labels, commands, outputs and arguments (incl. non-ASCII lower-case letters), run with -l or --lint; verdict ok / fail <line> <message> / parse-error read off the executable's stdout must satisfy the property relative to the library parse and equal the model's lintText. Non-trivial = every case (distinct request)."
    }
    fn budget(&self, tier: Tier) -> usize {
        match tier {
            Tier::Quick => 330,
            Tier::Thorough => 20_000,
        }
    }
    fn fixed_cases(&self, _tier: Tier) -> Vec<Case> {
        let ok = "echo file-run A\nx = set 1\npwd\n";
        let crash = "echo before\nbadcmd\necho after\n";
        let exit3 = "echo one\nexit 3\necho two\n";
        let perr = "echo one\necho \"abc\n";
        let mut out = vec![];
        out.push(case("lowertab".to_string(), vec!["unicode-lower-table"], true));
        for t in ["exit_on_error true\nx = trigger_error boom\necho AFTER\nexit\n", "echo start\nset_exit_on_error yes\nassert_error boom\necho AFTER\n", "exit_on_error true\necho fine\ny = array_length boom-nope\necho AFTER\nexit\n"] {
            out.push(case(format!("replfatal {}", enc_str(t)), vec!["form:repl-lines", "fatal-errors"], true));
        }
        // what the script sees of the PROCESS must be what it sees under the library: size of the
        // environment, a variable the executable might set for itself, working directory
        let envs = "m = env_to_map\nn = map_size ${m}\necho env-size ${n}\nrelease ${m}\nf = get_env DUCKSCRIPT_SCRIPT_FILE\necho ${f}\npwd\n";
        out.push(case(cli_req(&[FILE_ARG], Some(envs)), vec!["form:file", "process-view"], true));
        out.push(case(cli_req(&["-e", envs], None), vec!["form:-e", "process-view"], true));
        // a file that starts with a byte order mark, a library file that only defines functions with mixed-case names
        out.push(case(cli_req(&[FILE_ARG], Some("\u{feff}echo hello\n")), vec!["form:file", "bom"], true));
        out.push(case(format!("lint {}", enc_str("fn <scope> Print_Banner\n    echo x\nend\n")), vec!["op:lint", "definition-name"], true));
        let forms: Vec<(Vec<&str>, &'static str)> = vec![
            (vec![], "form:repl"),
            (vec!["--version"], "form:version"),
            (vec!["--version", FILE_ARG], "form:version"),
            (vec!["--version", "-e", "echo x"], "form:version"),
            (vec!["--help"], "form:help"),
            (vec!["-h"], "form:help"),
            (vec!["--help", FILE_ARG, "x"], "form:help"),
            (vec!["-h", "-e", "echo x"], "form:help"),
            (vec![FILE_ARG], "form:file"),
            (vec![FILE_ARG, "extra"], "form:file+extra"),
            (vec![FILE_ARG, "-e"], "form:file+extra"),
            (vec![FILE_ARG, "--version"], "form:file+extra"),
            (vec![FILE_ARG, "-l", "x"], "form:file+extra"),
            (vec!["-e", "echo eval-run B"], "form:-e"),
            (vec!["--eval", "echo eval-run B"], "form:--eval"),
            (vec!["-e", "echo eval-run B", "ignored"], "form:eval+extra"),
            (vec!["--eval", "echo eval-run B", FILE_ARG], "form:eval+extra"),
            (vec!["-e", FILE_ARG], "form:-e"),
            (vec!["-e", ""], "form:-e"),
            (vec!["-e", "--version"], "form:-e"),
            (vec!["-l", FILE_ARG], "form:-l"),
            (vec!["--lint", FILE_ARG], "form:--lint"),
            (vec!["-l", FILE_ARG, "ignored"], "form:lint+extra"),
            (vec!["--lint", FILE_ARG, "-e"], "form:lint+extra"),
            (vec!["-l", "echo x"], "form:-l"),
            (vec!["-e"], "form:flag-without-value"),
            (vec!["--eval"], "form:flag-without-value"),
            (vec!["-l"], "form:flag-without-value"),
            (vec!["--lint"], "form:flag-without-value"),
            (vec!["-E", "echo x"], "form:odd-spelling"),
            (vec!["--EVAL", "echo x"], "form:odd-spelling"),
            (vec!["-L", FILE_ARG], "form:odd-spelling"),
            (vec!["--Version"], "form:odd-spelling"),
            (vec!["-eval", "echo x"], "form:odd-spelling"),
            (vec!["-H"], "form:odd-spelling"),
            (vec!["--", FILE_ARG], "form:odd-spelling"),
            (vec![""], "form:odd-spelling"),
            (vec!["", FILE_ARG], "form:odd-spelling"),
        ];
        for (args, tag) in &forms {
            out.push(case(cli_req(args, Some(ok)), vec![tag, "fixed"], true));
        }
        // every kind of script through every script-taking form
        for (text, tag) in [(ok, "script:succeeds"), (crash, "script:crash"), (exit3, "script:exit-code"), (perr, "script:parse-error"), (":Lab echo a\nB = Set c\n", "script:mixed-case")] {
            out.push(case(cli_req(&[FILE_ARG], Some(text)), vec!["form:file", tag, "fixed"], true));
            out.push(case(cli_req(&["-e", text], None), vec!["form:-e", tag, "fixed"], true));
            out.push(case(cli_req(&["--eval", text], Some(ok)), vec!["form:--eval", tag, "fixed"], true));
            out.push(case(cli_req(&["-l", FILE_ARG], Some(text)), vec!["form:-l", tag, "fixed"], true));
            out.push(case(cli_req(&["--lint", FILE_ARG], Some(text)), vec!["form:--lint", tag, "fixed"], true));
            out.push(case(format!("lint {}", enc_str(text)), vec!["op:lint", tag, "fixed"], true));
        }
        // the executable offers the library's commands: every name and alias of the library's
        // registry is asked for through the executable (a binary built with other crate features
        // than the library the property compares it with would answer differently)
        {
            let mut text = String::new();
            for n in crate::props::c04::registry_names() {
                if n.chars().all(|c| c.is_ascii_alphanumeric() || c == '_' || c == ':') {
                    text.push_str(&format!("d = is_command_defined {}\necho {} ${{d}}\n", n, n));
                }
            }
            out.push(case(cli_req(&[FILE_ARG], Some(&text)), vec!["form:file", "registry-of-the-executable", "fixed"], true));
        }
        // lint across an include: offending line in the included file / in the including file
        // after the directive / nowhere
        for (m, i) in [
            ("echo a\n!include_files @INC\necho b\n", "echo ok\n\n# c\nECHO bad\n"),
            ("echo a\n!include_files @INC\nECHO late\n", "echo ok\n:lbl x = set 1\n"),
            ("!include_files @INC\n", "Out = set 1\n"),
            ("x = set 1\n!include_files @INC\n:L echo\n", "\n\n"),
            ("echo a\n!include_files @INC\necho b\n", "echo fine\n"),
        ] {
            out.push(case(format!("lintinc {} {}", enc_str(m), enc_str(i)), vec!["op:lint", "lint-across-include", "fixed"], true));
        }
        // the interactive loop: what a crashing line leaves behind (variables, the last-error
        // record, live handles) is what the next line sees
        for t in [
            "trigger_error first\nbadcommand\ne = get_last_error\necho last=${e}\nexit\n",
            "h = array a b c\nnope x\nn = array_length ${h}\necho n=${n}\nexit\n",
            "x = set kept\nbad\nbad again\necho ${x}\nexit\n",
            "dir = set c:\\\\temp\\\\\necho ${dir} next\nexit\n",
            "echo a\n\n# c\n:l echo b\nexit\n",
            "exit\n",
        ] {
            out.push(case(format!("repl {}", enc_str(t)), vec!["form:repl-lines", "fixed"], true));
        }
        // missing file
        out.push(case(cli_req(&[FILE_ARG], None), vec!["form:file", "missing-file", "fixed"], true));
        out.push(case(cli_req(&["-l", FILE_ARG], None), vec!["form:-l", "missing-file", "fixed"], true));
        // lint: each part alone, order label < command < output, arguments never matter
        for t in [
            "echo UPPER ARGS ${X} \"Q W\"\n", ":Lab\n", ":lab Echo a\n", "Out = echo a\n", ":L O = C\n", ":l O = C\n", ":l o = C\n",
            "echo a\necho b\n:ok x = set y\nX = set y\n:Late echo z\n", "# Comment\n\n   \nECHO\n", "x = Set\n", "é = set É\n", ":é echo\n",
            "", "\n", "echo \"abc", "Echo \"abc", "ECHO a\necho \"abc\n", "!include_files\nEcho\n", "!include_files\n:Lab echo\n", "echo a\n!include_files\nOut = set 1\n", "!include_files\n\n# c\nx = Set 1\n",
            "echo a\n!include_files\necho b\n!include_files\n:l x = ECHO\n", "!include_files\necho ok\n", "!print Hello\n", "!Print x\n", "a=B\n", "A=b\n", "a = B\n",
        ] {
            let skip = t.starts_with("!print");
            if !skip {
                out.push(case(format!("lint {}", enc_str(t)), vec!["op:lint", "fixed"], in_domain_text(t)));
            }
        }
        out
    }
    fn generate(&self, rng: &mut Rng, _tier: Tier) -> Case {
        let (kind, ktag) = pick_kind(rng);
        let mixed = rng.chance(1, 2);
        let text = script(rng, kind, mixed);
        let mtag = if mixed { "spelling:mixed-case" } else { "spelling:lower-case" };
        let dom = in_domain_text(&text);
        if rng.chance(1, 10) {
            return gen_repl(rng);
        }
        if rng.chance(1, 25) {
            // the script file is a NAMED PIPE (what `duck <(generator)` hands over): a file is
            // whatever can be read under that name
            return case(format!("clififo {}", enc_str(&text)), vec!["form:file-is-a-fifo", ktag, mtag], dom);
        }
        if rng.chance(1, 25) {
            // an eval text that is, as a whole, wrapped in one pair of quotes (what a launcher that
            // bypasses the shell leaves behind): the text is the script, quotes included
            let inner = rng.pick_s(&["echo hello", "exit 3", "echo a b", "", "x = set 1", "badcmd"]);
            let q = rng.pick_s(&["\"", "'"]);
            let pad = rng.pick_s(&["", " ", "\n"]);
            let t = format!("{}{}{}{}{}", pad, q, inner, q, pad);
            return case(cli_req(&[rng.pick_s(&["-e", "--eval"]), &t], None), vec!["form:-e", "eval-text-in-quotes", mtag], true);
        }
        let form = rng.below(12);
        // run forms: sometimes a `!print` line (printed once, when the text is parsed)
        let text = if (3..=6).contains(&form) && kind != Kind::ParseError && rng.chance(1, 3) {
            let mut lines: Vec<String> = text.split('\n').map(|l| l.to_string()).collect();
            let at = rng.below(lines.len() + 1);
            lines.insert(at, format!("!print {}", rng.pick_s(&["Loading Script", "a  b", "\"two words\" x", "", "${x} %{y}"])));
            lines.join("\n")
        } else { text };
        match form {
            0 | 1 | 2 => case(format!("lint {}", enc_str(&text)), vec!["op:lint", ktag, mtag], dom),
            // (one file in six starts with a byte order mark: the text is the script, mark included)
            3 | 4 => {
                let text = if rng.chance(1, 6) { format!("\u{feff}{}", text) } else { text };
                case(cli_req(&[FILE_ARG], Some(&text)), vec!["form:file", ktag, mtag], dom)
            }
            5 => case(cli_req(&["-e", &text], None), vec!["form:-e", ktag, mtag], dom),
            6 => case(cli_req(&["--eval", &text], None), vec!["form:--eval", ktag, mtag], dom),
            7 => case(cli_req(&["-l", FILE_ARG], Some(&text)), vec!["form:-l", ktag, mtag], dom),
            8 => case(cli_req(&["--lint", FILE_ARG], Some(&text)), vec!["form:--lint", ktag, mtag], dom),
            9 => {
                let other = script(rng, Kind::Succeed, false);
                let extra = rng.pick_s(&["x", "-e", "--lint", "--version", FILE_ARG, ""]);
                match rng.below(3) {
                    // (not `@F @F`: for a file that does not parse, running and linting it print the same)
                    // and a file that prints something: a silent successful run looks like `-e ""`)
                    0 => case(cli_req(&[FILE_ARG, if extra == FILE_ARG { "y" } else { extra }], Some(&format!("echo file-run\n{}", text))), vec!["form:file+extra", ktag, mtag], dom),
                    1 => case(cli_req(&[rng.pick_s(&["-e", "--eval"]), &text, extra], Some(&other)), vec!["form:eval+extra", ktag, mtag], dom),
                    _ => case(cli_req(&[rng.pick_s(&["-l", "--lint"]), FILE_ARG, extra], Some(&text)), vec!["form:lint+extra", ktag, mtag], dom),
                }
            }
            10 => {
                let flag = rng.pick_s(&["--version", "--help", "-h"]);
                let tag = if flag == "--version" { "form:version" } else { "form:help" };
                match rng.below(3) {
                    0 => case(cli_req(&[flag, FILE_ARG], Some(&text)), vec![tag, ktag, mtag], dom),
                    1 => case(cli_req(&[flag, "-e", &text], None), vec![tag, ktag, mtag], dom),
                    _ => case(cli_req(&[flag, &text], None), vec![tag, ktag, mtag], dom),
                }
            }
            _ => {
                // the same script text as a file AND as eval text of another form
                let other = script(rng, Kind::Succeed, false);
                match rng.below(3) {
                    0 => case(cli_req(&["-e", FILE_ARG], Some(&text)), vec!["form:-e", ktag, mtag], dom),
                    1 => case(cli_req(&["-l", &text], Some(&other)), vec!["form:-l", ktag, mtag], dom),
                    _ => case(cli_req(&[rng.pick_s(&["-E", "--Eval", "-L", "--LINT", "-ev"]), &text], Some(&other)), vec!["form:odd-spelling", ktag, mtag], dom),
                }
            }
        }
    }
    fn run_impl(&self, req: &str, _model_out: &str) -> String {
        let t: Vec<&str> = req.split(' ').collect();
        match t[0] {
            "lowertab" => lower_table_of_toolchain(),
            "cli" => {
                let args = dec_list(t[1]).expect("args");
                let content = if t.len() > 2 && t[2] != "-" { Some(dec_str(t[2]).expect("content")) } else { None };
                run_cli_case(&args, content.as_deref())
            }
            "lint" => run_lint_case(&dec_str(t[1]).expect("text")),
            "repl" => run_repl_case(&dec_str(t[1]).expect("text")),
            "lintinc" => run_lint_include_case(&dec_str(t[1]).expect("main"), &dec_str(t[2]).expect("inc")),
            "clififo" => run_fifo_case(&dec_str(t[1]).expect("content")),
            "replfatal" => {
                // the interactive route with FATAL errors (`exit_on_error true`): a command error ends
                // the session with a failure status, the lines after it are not run
                let obs = run_duck(&[], Some(&dec_str(t[1]).expect("text")));
                if !obs.timed_out && obs.status.is_some() && obs.status != Some(0) && obs.stdout.contains("boom") && !obs.stdout.contains("AFTER") { "replfatal-ok".to_string() } else { nomatch(&obs) }
            }
            _ => "?".to_string(),
        }
    }
    fn relation(&self, _req: &str, _model_out: &str, imp: &str) -> Option<bool> {
        // the executable's observed status/stdout satisfied what the property demands relative
        // to the in-process library (independent of the model)
        Some(!(imp.starts_with("nomatch") || imp.contains("REL-VIOLATED") || imp == "PANIC" || imp.starts_with("repl-DIFFERS")))
    }
    fn shrink(&self, req: &str) -> Vec<String> {
        let t: Vec<&str> = req.split(' ').collect();
        let drop_lines = |text: &str| -> Vec<String> {
            let ls: Vec<&str> = text.split('\n').collect();
            (0..ls.len()).filter(|_| ls.len() > 1).map(|i| {
                let mut l = ls.clone();
                l.remove(i);
                l.join("\n")
            }).collect()
        };
        match t[0] {
            "lint" => drop_lines(&dec_str(t[1]).unwrap_or_default()).into_iter().map(|s| format!("lint {}", enc_str(&s))).collect(),
            "cli" if t.len() > 2 && t[2] != "-" => drop_lines(&dec_str(t[2]).unwrap_or_default()).into_iter().map(|s| format!("cli {} {}", t[1], enc_str(&s))).collect(),
            _ => vec![],
        }
    }
    fn outcome_kind(&self, imp: &str) -> String {
        let head = imp.split(' ').next().unwrap_or("");
        head.split(':').next().unwrap_or("").to_string()
    }
    fn describe(&self, req: &str) -> String {
        let t: Vec<&str> = req.split(' ').collect();
        match t[0] {
            "cli" => format!("duck {:?} with {} = {:?}", dec_list(t[1]).unwrap_or_default(), FILE_ARG, t.get(2).and_then(|c| dec_str(c))),
            "lint" => format!("duck --lint <file with {:?}>", dec_str(t[1]).unwrap_or_default()),
            _ => req.to_string(),
        }
    }
}
