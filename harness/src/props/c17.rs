//! C17: encodings round-trip (base64 / UTF-8 bytes / hex / JSON collections / properties).
use crate::rng::Rng;
use crate::sdkenv::*;
use crate::wire::*;
use crate::{Case, Prop, Tier};
use duckscript::types::command::CommandResult;
use duckscript::types::runtime::{Context, StateValue};
use serde_json::{Map, Number, Value};
use std::collections::{BTreeMap, HashMap};

pub struct C17Prop;
pub static C17: C17Prop = C17Prop;

// ---------------------------------------------------------------- running the real commands

/// run one SDK command; every argument is passed through a variable (`${name}`) unless it is a flag
fn call(ctx: &mut Context, cmd: &str, args: &[(&str, Option<&str>)]) -> Result<Option<String>, ()> {
    let mut written = vec![];
    for (i, (text, is_flag)) in args.iter().enumerate() {
        match is_flag {
            Some(_) => written.push(text.to_string()),
            None => {
                let name = format!("c17arg{}", i);
                ctx.variables.insert(name.clone(), text.to_string());
                written.push(format!("${{{}}}", name));
            }
        }
    }
    match run_one(ctx, cmd, written, Some("out".into())).0 {
        CommandResult::Continue(v) => Ok(v),
        _ => Err(()),
    }
}
fn val(s: &str) -> (&str, Option<&str>) {
    (s, None)
}
fn flag(s: &str) -> (&str, Option<&str>) {
    (s, Some(""))
}

fn handles(ctx: &mut Context) -> &mut HashMap<String, StateValue> {
    if !matches!(ctx.state.get("handles"), Some(StateValue::SubState(_))) {
        ctx.state.insert("handles".to_string(), StateValue::SubState(HashMap::new()));
    }
    match ctx.state.get_mut("handles") {
        Some(StateValue::SubState(m)) => m,
        _ => unreachable!(),
    }
}
fn bytes_of(ctx: &mut Context, h: &str) -> Option<Vec<u8>> {
    match handles(ctx).get(h) {
        Some(StateValue::ByteArray(b)) => Some(b.clone()),
        _ => None,
    }
}
fn enc_bytes(b: &[u8]) -> String {
    let mut o = String::from("x");
    for x in b {
        o.push_str(&format!("{:02x}", x));
    }
    o
}
fn dec_bytes(t: &str) -> Option<Vec<u8>> {
    let t = t.strip_prefix('x')?;
    if t.len() % 2 != 0 {
        return None;
    }
    (0..t.len() / 2).map(|i| u8::from_str_radix(&t[2 * i..2 * i + 2], 16).ok()).collect()
}

/// base64_encode(handle) → base64_decode → bytes of the new handle
fn b64_there_and_back(ctx: &mut Context, h: &str) -> (String, String) {
    match call(ctx, "base64_encode", &[val(h)]) {
        Ok(Some(b64)) => {
            let back = match call(ctx, "base64_decode", &[val(&b64)]) {
                Ok(Some(h2)) => match bytes_of(ctx, &h2) {
                    Some(b) => enc_bytes(&b),
                    None => "nohandle".into(),
                },
                _ => "err".into(),
            };
            (enc_str(&b64), back)
        }
        _ => ("err".into(), "err".into()),
    }
}

fn impl_text(t: &str) -> String {
    let mut ctx = sdk_context();
    let h = match call(&mut ctx, "string_to_bytes", &[val(t)]) {
        Ok(Some(h)) => h,
        _ => return "err-string_to_bytes".into(),
    };
    // a second conversion into the SAME output variable (the runner has stored the first handle
    // there): the first handle keeps its bytes
    ctx.variables.insert("out".to_string(), h.clone());
    let _ = call(&mut ctx, "string_to_bytes", &[val("another text \u{e9}")]);
    let bytes = match bytes_of(&mut ctx, &h) {
        Some(b) => b,
        None => return "err-nohandle".into(),
    };
    let (b64, back) = b64_there_and_back(&mut ctx, &h);
    // decode again to have a handle to turn back into text
    let txt = match dec_str(&b64).ok_or(()).and_then(|s| call(&mut ctx, "base64_decode", &[val(&s)])) {
        Ok(Some(h2)) => match call(&mut ctx, "bytes_to_string", &[val(&h2)]) {
            Ok(Some(s)) => enc_str(&s),
            _ => "err".into(),
        },
        _ => "err".into(),
    };
    format!("{} {} {} {}", enc_bytes(&bytes), b64, back, txt)
}

fn run_bytes(b: &[u8]) -> String {
    let mut ctx = sdk_context();
    let h = "handle:c17bytes000000000000";
    handles(&mut ctx).insert(h.to_string(), StateValue::ByteArray(b.to_vec()));
    let (b64, back) = b64_there_and_back(&mut ctx, h);
    let txt = match call(&mut ctx, "bytes_to_string", &[val(h)]) {
        Ok(Some(s)) => enc_str(&s),
        _ => "err".into(),
    };
    format!("{} {} {}", b64, back, txt)
}

fn run_b64d(s: &str) -> String {
    let mut ctx = sdk_context();
    match call(&mut ctx, "base64_decode", &[val(s)]) {
        Ok(Some(h)) => match bytes_of(&mut ctx, &h) {
            Some(b) => enc_bytes(&b),
            None => "nohandle".into(),
        },
        _ => "err".into(),
    }
}

fn run_hex(s: &str) -> String {
    let mut ctx = sdk_context();
    match call(&mut ctx, "hex_encode", &[val(s)]) {
        Ok(Some(h)) => match call(&mut ctx, "hex_decode", &[val(&h)]) {
            Ok(Some(d)) => format!("{} {}", enc_str(&h), enc_str(&d)),
            _ => format!("{} err", enc_str(&h)),
        },
        _ => "err".into(),
    }
}

fn run_hexd(s: &str) -> String {
    let mut ctx = sdk_context();
    match call(&mut ctx, "hex_decode", &[val(s)]) {
        Ok(Some(d)) => enc_str(&d),
        _ => "err".into(),
    }
}

// ---------------------------------------------------------------- JSON tokens

fn hex_of(s: &str) -> String {
    enc_str(s)[1..].to_string()
}
fn json_tok(v: &Value, out: &mut String) {
    match v {
        Value::Null => out.push('n'),
        Value::Bool(true) => out.push('t'),
        Value::Bool(false) => out.push('f'),
        Value::Number(n) => {
            out.push('#');
            out.push_str(&hex_of(&n.to_string()));
            out.push(';');
        }
        Value::String(s) => {
            out.push('s');
            out.push_str(&hex_of(s));
            out.push(';');
        }
        Value::Array(l) => {
            out.push_str(&format!("a{}:", l.len()));
            for i in l {
                json_tok(i, out);
            }
        }
        Value::Object(m) => {
            // keys in byte order whatever the map implementation is
            let sorted: BTreeMap<&String, &Value> = m.iter().collect();
            out.push_str(&format!("o{}:", sorted.len()));
            for (k, x) in sorted {
                out.push_str(&hex_of(k));
                out.push(';');
                json_tok(x, out);
            }
        }
    }
}
fn tok_of(v: &Value) -> String {
    let mut s = String::new();
    json_tok(v, &mut s);
    s
}
fn take_until<'a>(t: &'a str, c: char) -> Option<(&'a str, &'a str)> {
    let i = t.find(c)?;
    Some((&t[..i], &t[i + 1..]))
}
fn parse_tok(t: &str) -> Option<(Value, &str)> {
    let (head, rest) = (t.chars().next()?, &t[1..]);
    match head {
        'n' => Some((Value::Null, rest)),
        't' => Some((Value::Bool(true), rest)),
        'f' => Some((Value::Bool(false), rest)),
        '#' => {
            let (h, r) = take_until(rest, ';')?;
            let text = dec_str(&format!("h{}", h))?;
            let v: Value = serde_json::from_str(&text).ok()?;
            if v.is_number() { Some((v, r)) } else { None }
        }
        's' => {
            let (h, r) = take_until(rest, ';')?;
            Some((Value::String(dec_str(&format!("h{}", h))?), r))
        }
        'a' => {
            let (c, mut r) = take_until(rest, ':')?;
            let mut l = vec![];
            for _ in 0..c.parse::<usize>().ok()? {
                let (v, r2) = parse_tok(r)?;
                l.push(v);
                r = r2;
            }
            Some((Value::Array(l), r))
        }
        'o' => {
            let (c, mut r) = take_until(rest, ':')?;
            let mut m = Map::new();
            for _ in 0..c.parse::<usize>().ok()? {
                let (h, r1) = take_until(r, ';')?;
                let (v, r2) = parse_tok(r1)?;
                m.insert(dec_str(&format!("h{}", h))?, v);
                r = r2;
            }
            Some((Value::Object(m), r))
        }
        _ => None,
    }
}
fn value_of_tok(t: &str) -> Option<Value> {
    match parse_tok(t)? {
        (v, "") => Some(v),
        _ => None,
    }
}

/// the documented normalisation: scalars become strings, nulls are dropped
fn normalise(v: &Value) -> Option<Value> {
    match v {
        Value::Null => None,
        Value::Bool(b) => Some(Value::String(b.to_string())),
        Value::Number(n) => Some(Value::String(n.to_string())),
        Value::String(s) => Some(Value::String(s.clone())),
        Value::Array(l) => Some(Value::Array(l.iter().filter_map(normalise).collect())),
        Value::Object(m) => Some(Value::Object(m.iter().filter_map(|(k, x)| normalise(x).map(|n| (k.clone(), n))).collect())),
    }
}

fn run_json(doc: &Value) -> String {
    let mut ctx = sdk_context();
    let text = serde_json::to_string(doc).unwrap();
    // variables a script may well hold while it converts documents (a value is not a name)
    for (k, v) in [("name", "goose"), ("document", "\"document\""), ("list.length", "1"), ("list[0]", "x")] {
        ctx.variables.insert(k.to_string(), v.to_string());
    }
    if std::env::var("C17_DEBUG").is_ok() {
        // probe for the hypothesis of C17_json_roundtrip: a live handle whose name occurs as a string leaf
        handles(&mut ctx).insert("handle:c17alias".to_string(), StateValue::List(vec![StateValue::String("inner".to_string())]));
    }
    let enc = match call(&mut ctx, "json_parse", &[flag("--collection"), val(&text)]) {
        Ok(None) => "-".to_string(),
        Ok(Some(v)) => match call(&mut ctx, "json_encode", &[flag("--collection"), val(&v)]) {
            Ok(Some(out)) => match serde_json::from_str::<Value>(&out) {
                Ok(j) => tok_of(&j),
                Err(_) => format!("unparsable:{}", enc_str(&out)),
            },
            _ => "err".into(),
        },
        Err(_) => "err-parse".into(),
    };
    let nrm = match normalise(doc) {
        Some(j) => tok_of(&j),
        None => "-".into(),
    };
    format!("J {} {}", enc, nrm)
}

// ---------------------------------------------------------------- JSON text layer (jprint / jparse)

fn unhex(h: &str) -> Option<String> {
    dec_str(&format!("h{}", h))
}

/// (jprint) the text `serde_json::to_string` writes, and the text the two real commands make of
/// it: `json_parse --collection` then `json_encode --collection` (raw output, not re-parsed)
fn run_jprint(doc: &Value) -> String {
    let text = serde_json::to_string(doc).unwrap();
    let mut ctx = sdk_context();
    let back = match call(&mut ctx, "json_parse", &[flag("--collection"), val(&text)]) {
        Ok(None) => "-".to_string(),
        Ok(Some(v)) => match call(&mut ctx, "json_encode", &[flag("--collection"), val(&v)]) {
            Ok(Some(out)) => hex_of(&out),
            _ => "err".into(),
        },
        Err(_) => "err-parse".into(),
    };
    format!("P {} {}", hex_of(&text), back)
}

fn has_float(v: &Value) -> bool {
    match v {
        Value::Number(n) => !(n.is_u64() || n.is_i64()),
        Value::Array(l) => l.iter().any(has_float),
        Value::Object(m) => m.values().any(has_float),
        _ => false,
    }
}

/// the text has something the crate may read as an f64 (the value can lose it again when a
/// repeated key overwrites the member)
fn float_token_possible(text: &str) -> bool {
    text.contains(|c| c == '.' || c == 'e' || c == 'E') || text.contains("-0") || text.as_bytes().windows(19).any(|w| w.iter().all(|b| b.is_ascii_digit()))
}

/// (jparse) `serde_json::from_str::<Value>`.  When the model declines (`FLOAT`: the text has a
/// number the crate reads as an f64 — not modelled) the real answer is only required to be an
/// error or a value that does contain such a number.
fn run_jparse(text: &str, model_out: &str) -> String {
    match serde_json::from_str::<Value>(text) {
        Ok(v) => {
            if model_out == "FLOAT" && (has_float(&v) || float_token_possible(text)) {
                "FLOAT".into()
            } else {
                format!("V {}", tok_of(&v))
            }
        }
        Err(_) => {
            if model_out == "FLOAT" {
                "FLOAT".into()
            } else {
                "ERR".into()
            }
        }
    }
}

/// strings of the text-layer streams: every control character, the two characters that must be
/// escaped, `/`, DEL, the line separators a JavaScript-minded writer would escape, the borders of
/// the surrogate gap and of the planes
fn jt_char(rng: &mut Rng) -> char {
    match rng.below(8) {
        0 | 1 => char::from_u32(rng.below(0x20) as u32).unwrap(),
        2 => *rng.pick(&['"', '\\', '/', '"', '\\']),
        3 => *rng.pick(&['\u{7f}', '\u{80}', '\u{9f}', '\u{a0}', 'é', '\u{2028}', '\u{2029}', '\u{d7ff}', '\u{e000}', '\u{fffd}', '\u{ffff}', '\u{10000}', '😀', '\u{10ffff}', '中']),
        _ => *rng.pick(&['a', 'b', 'u', 'n', 't', 'f', 'r', '0', '9', ' ', 'A', 'F', 'x', '{', '[', ',', ':', '$', '%']),
    }
}
fn jt_string(rng: &mut Rng, max: usize) -> String {
    (0..rng.below(max + 1)).map(|_| jt_char(rng)).collect()
}
/// `gen_json` with every leaf turned into a string (half of them from the text-layer pool) and a
/// third of the keys replaced by pool strings
fn stringify(rng: &mut Rng, v: &Value, ints: bool) -> Value {
    match v {
        Value::Array(l) => Value::Array(l.iter().map(|x| stringify(rng, x, ints)).collect()),
        Value::Object(m) => {
            let mut n = Map::new();
            for (k, x) in m {
                let key = if rng.chance(1, 3) { jt_string(rng, 4) } else { k.clone() };
                n.insert(key, stringify(rng, x, ints));
            }
            Value::Object(n)
        }
        Value::String(s) if rng.chance(1, 2) => Value::String(s.clone()),
        Value::Number(n) if ints && (n.is_u64() || n.is_i64()) => v.clone(),
        Value::Null | Value::Bool(_) if ints => v.clone(),
        _ => Value::String(jt_string(rng, 6)),
    }
}
fn all_string_leaves(v: &Value) -> bool {
    match v {
        Value::String(_) => true,
        Value::Array(l) => l.iter().all(all_string_leaves),
        Value::Object(m) => m.values().all(all_string_leaves),
        _ => false,
    }
}

#[derive(Clone, Copy)]
struct Style {
    ws: bool,
    reesc: bool,
    dup: bool,
}
fn put_ws(rng: &mut Rng, st: Style, out: &mut String) {
    if st.ws && rng.chance(1, 3) {
        for _ in 0..1 + rng.below(3) {
            out.push(*rng.pick(&[' ', '\n', '\t', '\r']));
        }
    }
}
fn put_u(rng: &mut Rng, unit: u32, out: &mut String) {
    let h = if rng.chance(1, 2) { format!("\\u{:04x}", unit) } else { format!("\\u{:04X}", unit) };
    out.push_str(&h);
}
/// a JSON string token for `s`: what must be escaped is, the rest is escaped at random — short
/// escapes (incl. `\/`) or `\uXXXX` with digits of either case, surrogate pairs above U+FFFF
fn put_str(rng: &mut Rng, st: Style, s: &str, out: &mut String) {
    out.push('"');
    for c in s.chars() {
        let n = c as u32;
        let must = c == '"' || c == '\\' || n < 0x20;
        if !(must || (st.reesc && rng.chance(1, 3))) {
            out.push(c);
            continue;
        }
        let short = match c {
            '"' => Some("\\\""),
            '\\' => Some("\\\\"),
            '/' => Some("\\/"),
            '\u{8}' => Some("\\b"),
            '\u{c}' => Some("\\f"),
            '\n' => Some("\\n"),
            '\r' => Some("\\r"),
            '\t' => Some("\\t"),
            _ => None,
        };
        match short {
            Some(e) if !(st.reesc && rng.chance(1, 3)) => out.push_str(e),
            _ => {
                if n >= 0x10000 {
                    let m = n - 0x10000;
                    put_u(rng, 0xd800 + (m >> 10), out);
                    put_u(rng, 0xdc00 + (m & 0x3ff), out);
                } else {
                    put_u(rng, n, out);
                }
            }
        }
    }
    out.push('"');
}
fn put_value(rng: &mut Rng, st: Style, v: &Value, out: &mut String) {
    match v {
        Value::Null => out.push_str("null"),
        Value::Bool(b) => out.push_str(if *b { "true" } else { "false" }),
        Value::Number(n) => out.push_str(&n.to_string()),
        Value::String(s) => put_str(rng, st, s, out),
        Value::Array(l) => {
            out.push('[');
            put_ws(rng, st, out);
            for (i, x) in l.iter().enumerate() {
                if i > 0 {
                    out.push(',');
                    put_ws(rng, st, out);
                }
                put_value(rng, st, x, out);
                put_ws(rng, st, out);
            }
            out.push(']');
        }
        Value::Object(m) => {
            // members in a random order, some keys written twice with different values
            let mut members: Vec<(String, Value)> = m.iter().map(|(k, x)| (k.clone(), x.clone())).collect();
            if st.dup {
                for (k, _) in m.iter() {
                    if rng.chance(1, 3) {
                        let other = match rng.below(3) {
                            0 => Value::String("dup".into()),
                            1 => Value::Array(vec![Value::Null]),
                            _ => Value::from(rng.below(100) as u64),
                        };
                        members.push((k.clone(), other));
                    }
                }
                for i in (1..members.len()).rev() {
                    let j = rng.below(i + 1);
                    members.swap(i, j);
                }
            }
            out.push('{');
            put_ws(rng, st, out);
            for (i, (k, x)) in members.iter().enumerate() {
                if i > 0 {
                    out.push(',');
                    put_ws(rng, st, out);
                }
                put_str(rng, st, k, out);
                put_ws(rng, st, out);
                out.push(':');
                put_ws(rng, st, out);
                put_value(rng, st, x, out);
                put_ws(rng, st, out);
            }
            out.push('}');
        }
    }
}
fn some_ws(rng: &mut Rng) -> String {
    (0..rng.below(4)).map(|_| *rng.pick(&[' ', '\n', '\t', '\r'])).collect()
}
const JP_INSERT: [char; 34] = [
    '[', ']', '{', '}', ',', ':', '"', '\\', ' ', '\n', '0', '1', '9', '-', '+', '.', 'e', 'E', 'u', 't', 'f', 'n', 'a', 'D', '8', '/', '\u{0}', '\u{1}', '\u{1f}', '\u{7f}', 'é', '😀',
    '\u{feff}', '\u{a0}',
];
fn mutate_text(rng: &mut Rng, t: &str) -> String {
    let mut c: Vec<char> = t.chars().collect();
    for _ in 0..1 + rng.below(2) {
        match rng.below(5) {
            0 if !c.is_empty() => {
                let n = rng.below(c.len());
                c.truncate(n);
            }
            1 if !c.is_empty() => {
                let i = rng.below(c.len());
                c.remove(i);
            }
            2 if !c.is_empty() => {
                let i = rng.below(c.len());
                c[i] = *rng.pick(&JP_INSERT);
            }
            3 => {
                let i = rng.below(c.len() + 1);
                c.insert(i, *rng.pick(&JP_INSERT));
            }
            _ => {
                let tail: String = (0..1 + rng.below(3)).map(|_| *rng.pick(&JP_INSERT)).collect();
                c.extend(tail.chars());
            }
        }
    }
    c.into_iter().collect()
}
/// hand-made fragments glued into an array or object: numbers of every shape, escapes good and bad
const JP_FRAGS: [&str; 78] = [
    "0", "-0", "00", "01", "-01", "1", "-1", "10", "1.5", "1.", ".5", "1e3", "1E+3", "1e", "1e+", "-", "+1", "0x10", "1_000", "18446744073709551615", "18446744073709551616",
    "-9223372036854775808", "-9223372036854775809", "9223372036854775808", "123456789012345678901234567890", "1e400", "-1e400", "1e-400", "0.0", "-0.0", "0e0", "1a",
    "null", "nul", "nulll", "Null", "true", "tru", "truee", "false", "fals", "\"\"", "\"a\"", "\"\\u0041\"", "\"\\u00e9\"", "\"\\ud83d\\ude00\"", "\"\\uD83D\\uDE00\"", "\"\\ud800\"",
    "\"\\udc00\"", "\"\\ud800\\u0041\"", "\"\\ud800\\ud800\"", "\"\\ud800\\n\"", "\"\\ud800x\"", "\"\\udbff\\udfff\"", "\"\\ud7ff\\ue000\"", "\"\\u12\"", "\"\\u12g4\"", "\"\\u 123\"", "\"\\u+123\"",
    "\"\\x41\"", "\"\\a\"", "\"\\'\"", "\"\\/\\b\\f\\n\\r\\t\\\\\\\"\"", "\"\\U0041\"", "\"a\nb\"", "\"a\tb\"", "\"\u{0}\"", "\"\u{1f}\"", "\"\u{7f}\u{2028}\"", "\"", "\"\\\"", "\"\\",
    "[]", "{}", "[", "{\"a\"}", "'a'", "",
];
fn gen_frag_text(rng: &mut Rng) -> String {
    let n = 1 + rng.below(3);
    let items: Vec<String> = (0..n).map(|_| rng.pick_s(&JP_FRAGS).to_string()).collect();
    match rng.below(4) {
        0 => items[0].clone(),
        1 => format!("[{}]", items.join(",")),
        2 => format!("{{{}}}", items.iter().enumerate().map(|(i, x)| format!("\"k{}\":{}", i % 2, x)).collect::<Vec<_>>().join(",")),
        _ => format!("{}[{}{}", some_ws(rng), items.join(" , "), rng.pick_s(&["]", ",]", "] ", "]]", "", "]x", "],", "] []"])),
    }
}
fn nest(n: usize, open: &str, inner: &str, close: &str) -> String {
    format!("{}{}{}", open.repeat(n), inner, close.repeat(n))
}

fn jprint_case(v: &Value) -> Case {
    let strdoc = all_string_leaves(v);
    Case {
        req: format!("e17jprint {}", tok_of(v)),
        // the class of C17_jsontext_commands_roundtrip: exact integers only, depth <= 127, no handle text
        in_domain: !has_float(v) && !has_handle_text(v) && json_depth(v) <= 127,
        nontrivial: true,
        tags: vec!["jprint", if strdoc { "jprint-string-leaves" } else { "jprint-mixed-leaves" }],
    }
}
fn jparse_case(text: &str, in_domain: bool, kind: &'static str) -> Case {
    Case { req: format!("e17jparse {}", enc_str(text)), in_domain, nontrivial: !text.is_empty(), tags: vec!["jparse", kind] }
}
fn gen_jparse(rng: &mut Rng) -> Case {
    let d = 1 + rng.below(4);
    match rng.below(10) {
        0 | 1 => {
            // the class of C17_jsontext_roundtrip_ws: a compact print of a document without f64
            // leaves (half of them with string leaves only), white space before and after
            let g = gen_json(rng, d);
            let ints = rng.chance(1, 2);
            let v = stringify(rng, &g, ints);
            let text = format!("{}{}{}", some_ws(rng), serde_json::to_string(&v).unwrap(), some_ws(rng));
            jparse_case(&text, !has_handle_text(&v), "jparse-printed")
        }
        2..=5 => {
            let g = gen_json(rng, d);
            let v = stringify(rng, &g, true);
            let st = Style { ws: rng.chance(2, 3), reesc: rng.chance(2, 3), dup: rng.chance(1, 2) };
            let mut text = some_ws(rng);
            put_value(rng, st, &v, &mut text);
            text.push_str(&some_ws(rng));
            // a rendering of a well-formed concrete syntax tree: the class of
            // C17_jsontext_reads_every_text
            jparse_case(&text, !has_handle_text(&v), "jparse-decorated")
        }
        6 => {
            // numbers of every kind (floats: the model declines)
            let v = gen_json(rng, d);
            let st = Style { ws: true, reesc: false, dup: false };
            let mut text = String::new();
            put_value(rng, st, &v, &mut text);
            jparse_case(&text, false, "jparse-numbers")
        }
        7 => jparse_case(&gen_frag_text(rng), false, "jparse-fragments"),
        _ => {
            let g = gen_json(rng, d);
            let v = stringify(rng, &g, true);
            let st = Style { ws: rng.chance(1, 2), reesc: rng.chance(1, 2), dup: false };
            let mut text = String::new();
            put_value(rng, st, &v, &mut text);
            jparse_case(&mutate_text(rng, &text), false, "jparse-mutated")
        }
    }
}

// ---------------------------------------------------------------- properties

fn enc_vars(m: &BTreeMap<String, String>) -> String {
    if m.is_empty() {
        return "-".into();
    }
    let mut items: Vec<String> = m.iter().map(|(k, v)| format!("{}={}", enc_str(k), enc_str(v))).collect();
    items.sort();
    items.join(",")
}
fn dec_vars(t: &str) -> Option<BTreeMap<String, String>> {
    let mut m = BTreeMap::new();
    if t == "-" {
        return Some(m);
    }
    for kv in t.split(',') {
        let (k, v) = kv.split_once('=')?;
        m.insert(dec_str(k)?, dec_str(v)?);
    }
    Some(m)
}

/// how often the real write is repeated to meet the iteration order the model was asked for
const ORDER_TRIES: usize = 200;

/// `map_to_properties` copies the entries into a fresh `HashMap` (fresh `RandomState`) on every
/// call and writes them in that map's iteration order, so the text — and with it the entry that
/// loses its trailing blank to the command's `trim`, or which of two colliding keys wins — differs
/// from call to call.  The model writes the entries in the order of the request token.  The real
/// round trip is therefore repeated (same map, new call) until its outcome equals the model's
/// outcome `want`, at most ORDER_TRIES times; the outcome of the last call is reported.  Maps of
/// fewer than two entries are run once.
fn run_props(m: &BTreeMap<String, String>, want: Option<&str>) -> String {
    let mut ctx = sdk_context();
    let h1 = "handle:c17map0000000000000a";
    let h2 = "handle:c17map0000000000000b";
    let sub: HashMap<String, StateValue> = m.iter().map(|(k, v)| (k.clone(), StateValue::String(v.clone()))).collect();
    handles(&mut ctx).insert(h1.to_string(), StateValue::SubState(sub));
    other_handles(&mut ctx);
    let mut last = String::new();
    for _ in 0..ORDER_TRIES {
        // the target map is not always empty: every second run it already holds some of the keys with
        // STALE values (loading overwrites them) — the key set afterwards is the same
        let mut target: HashMap<String, StateValue> = HashMap::new();
        // (only where the model expects the round trip to give the map back: an entry the recorded
        // defects of the writer drop would leave its stale value behind)
        if crate::hash_str(&enc_vars(m)) % 2 == 0 && want == Some(format!("ok {}", enc_vars(m)).as_str()) {
            for (i, k) in m.keys().enumerate() {
                if i % 2 == 0 {
                    target.insert(k.clone(), StateValue::String("stale value".to_string()));
                }
            }
        }
        handles(&mut ctx).insert(h2.to_string(), StateValue::SubState(target));
        last = props_once(&mut ctx, h1, h2);
        if want.is_none() || want == Some(last.as_str()) || m.len() < 2 {
            break;
        }
    }
    last
}

fn props_once(ctx: &mut Context, h1: &str, h2: &str) -> String {
    let text = match call(ctx, "map_to_properties", &[val(h1)]) {
        Ok(Some(t)) => t,
        Ok(None) => return "err-write-none".into(),
        Err(_) => return "err-write".into(),
    };
    if std::env::var("C17_DEBUG").is_ok() {
        eprintln!("properties text: {:?}", text);
    }
    match call(ctx, "map_load_properties", &[val(h2), val(&text)]) {
        Ok(_) => {}
        Err(_) => return "err-load".into(),
    }
    loaded_map(ctx, h2)
}

fn loaded_map(ctx: &mut Context, h2: &str) -> String {
    let loaded: BTreeMap<String, String> = match handles(ctx).get(h2) {
        Some(StateValue::SubState(s)) => s
            .iter()
            .map(|(k, v)| (k.clone(), match v { StateValue::String(x) => x.clone(), _ => "<non-string>".to_string() }))
            .collect(),
        _ => return "err-nomap".into(),
    };
    format!("ok {}", enc_vars(&loaded))
}

/// the text `map_to_properties` returns (repeated like `run_props` until it is the model's text)
fn run_write(m: &BTreeMap<String, String>, want: &str) -> String {
    let mut ctx = sdk_context();
    let h1 = "handle:c17map0000000000000a";
    let sub: HashMap<String, StateValue> = m.iter().map(|(k, v)| (k.clone(), StateValue::String(v.clone()))).collect();
    handles(&mut ctx).insert(h1.to_string(), StateValue::SubState(sub));
    other_handles(&mut ctx);
    let mut last = String::new();
    for _ in 0..ORDER_TRIES {
        last = match call(&mut ctx, "map_to_properties", &[val(h1)]) {
            Ok(Some(t)) => enc_str(&t),
            Ok(None) => "err-write-none".into(),
            Err(_) => "err-write".into(),
        };
        if last == want || m.len() < 2 {
            break;
        }
    }
    last
}

/// `map_load_properties` of an arbitrary text (passed through a variable) into an empty map
fn run_load(text: &str) -> String {
    let mut ctx = sdk_context();
    let h2 = "handle:c17map0000000000000b";
    handles(&mut ctx).insert(h2.to_string(), StateValue::SubState(HashMap::new()));
    match call(&mut ctx, "map_load_properties", &[val(h2), val(text)]) {
        Ok(_) => loaded_map(&mut ctx, h2),
        Err(_) => "err-load".into(),
    }
}

fn all_chars(m: &BTreeMap<String, String>) -> impl Iterator<Item = char> + '_ {
    m.iter().flat_map(|(k, v)| k.chars().chain(v.chars()))
}
fn is_latin1_supplement(c: char) -> bool {
    ('\u{80}'..='\u{ff}').contains(&c)
}
/// the 27 characters outside Latin-1 that windows-1252 (the java-properties crate's default
/// encoding) writes as one byte >= 0x80
const CP1252_SPECIALS: [char; 27] = [
    '\u{20ac}', '\u{201a}', '\u{0192}', '\u{201e}', '\u{2026}', '\u{2020}', '\u{2021}', '\u{02c6}', '\u{2030}', '\u{0160}', '\u{2039}', '\u{0152}', '\u{017d}', '\u{2018}',
    '\u{2019}', '\u{201c}', '\u{201d}', '\u{2022}', '\u{2013}', '\u{2014}', '\u{02dc}', '\u{2122}', '\u{0161}', '\u{203a}', '\u{0153}', '\u{017e}', '\u{0178}',
];
/// characters the crate writes as `\u` + hexadecimal digits WITHOUT padding to four digits
/// (its reader wants exactly four): control characters without a letter escape, U+0100..U+0FFF,
/// and everything above U+FFFF (five or six digits, silently misread)
fn is_bad_escape_width(c: char) -> bool {
    let n = c as u32;
    (n < 0x20 && !['\t', '\n', '\r', '\u{c}'].contains(&c)) || ((0x100..0x1000).contains(&n) && !CP1252_SPECIALS.contains(&c)) || n >= 0x10000
}
fn has_latin1_supplement(m: &BTreeMap<String, String>) -> bool {
    all_chars(m).any(is_latin1_supplement)
}
fn props_known_class(m: &BTreeMap<String, String>) -> Option<&'static str> {
    if has_latin1_supplement(m) {
        Some("C17/latin1-supplement")
    } else if all_chars(m).any(|c| CP1252_SPECIALS.contains(&c)) {
        Some("C17/properties-cp1252-specials")
    } else if all_chars(m).any(is_bad_escape_width) {
        Some("C17/properties-unicode-escape-width")
    } else if m.values().any(|v| v.ends_with(' ')) {
        Some("C17/properties-trailing-space")
    } else if m.iter().any(|(k, v)| [k, v].iter().any(|t| t.len() > 240 && t.chars().any(|c| c as u32 >= 0x100))) {
        // a `\u` escape that does not fit into what is left of the writer's 256-byte buffer
        Some("C17/properties-escape-cut-at-buffer-end")
    } else {
        None
    }
}

// ---------------------------------------------------------------- generators

const TEXT_CHARS: [char; 40] = [
    'a', 'b', 'Z', '0', '9', ' ', ' ', '\0', '\u{1}', '\t', '\n', '\r', '\u{7f}', '$', '{', '}', '%', '"', '\'', '\\', '=', '#', '+', '/',
    '\u{80}', 'é', 'ÿ', '\u{7ff}', '\u{800}', '€', '\u{d7ff}', '\u{e000}', '\u{ffff}', '\u{10000}', '😀', '\u{10ffff}', 'ß', '中', '\u{1b}', '~',
];
fn gen_text(rng: &mut Rng, max: usize) -> String {
    let mut t: String = (0..rng.below(max + 1)).map(|_| *rng.pick(&TEXT_CHARS)).collect();
    if rng.chance(1, 10) {
        let frag = rng.pick_s(&["\\x64", "\\x86", "\\xff", "\\u0041", "%41", "\\101", "\\n", "&#65;"]);
        let at = rng.below(t.chars().count() + 1);
        let i = t.char_indices().nth(at).map(|(i, _)| i).unwrap_or(t.len());
        t.insert_str(i, frag);
    }
    t
}
const KEY_CHARS: [char; 24] = ['a', 'b', 'k', '1', '.', ' ', '[', ']', '0', '-', '_', ':', '=', '"', '\\', '/', 'é', '中', '😀', '$', '{', '}', '\n', '\0'];
fn gen_key(rng: &mut Rng) -> String {
    (0..rng.below(5)).map(|_| *rng.pick(&KEY_CHARS)).collect()
}
fn gen_number(rng: &mut Rng) -> Number {
    match rng.below(8) {
        0 => Number::from(0),
        1 => Number::from(rng.range(-1000, 1000)),
        2 => Number::from(rng.next()),
        3 => Number::from(rng.next() as i64),
        4 => Number::from_f64(1.5).unwrap(),
        5 => Number::from_f64(1e3).unwrap(),
        6 => Number::from_f64(*rng.pick(&[-0.0, 0.1, 1e300, -2.5e-7, 123456.789, 1e21, 3.0])).unwrap(),
        _ => Number::from_f64((rng.range(-100000, 100000) as f64) / 64.0).unwrap(),
    }
}
fn gen_json(rng: &mut Rng, depth: usize) -> Value {
    let leaf = depth == 0 || rng.chance(2, 5);
    if leaf {
        match rng.below(6) {
            0 => Value::Null,
            1 => Value::Bool(rng.chance(1, 2)),
            2 | 3 => Value::Number(gen_number(rng)),
            _ => Value::String(gen_text(rng, 6)),
        }
    } else if depth >= 2 && rng.chance(1, 500) {
        // a WIDE document: a flat list of 130-300 small records
        Value::Array((0..130 + rng.below(40)).map(|i| {
            let mut m = Map::new();
            m.insert("id".to_string(), Value::String(i.to_string()));
            m.insert("tags".to_string(), Value::Array(vec![Value::String("a".into()), Value::String("b".into())]));
            Value::Object(m)
        }).collect())
    } else if rng.chance(1, 2) {
        Value::Array((0..rng.below(7)).map(|_| gen_json(rng, depth - 1)).collect())
    } else {
        let mut m = Map::new();
        for _ in 0..rng.below(7) {
            m.insert(gen_key(rng), gen_json(rng, depth - 1));
        }
        Value::Object(m)
    }
}
fn json_depth(v: &Value) -> usize {
    match v {
        Value::Array(l) => 1 + l.iter().map(json_depth).max().unwrap_or(0),
        Value::Object(m) => 1 + m.values().map(json_depth).max().unwrap_or(0),
        _ => 0,
    }
}
fn has_null(v: &Value) -> bool {
    match v {
        Value::Null => true,
        Value::Array(l) => l.iter().any(has_null),
        Value::Object(m) => m.values().any(has_null),
        _ => false,
    }
}
/// a string leaf that looks like a handle name is outside the quantifier of the JSON theorem
fn has_handle_text(v: &Value) -> bool {
    match v {
        Value::String(s) => s.starts_with("handle:"),
        Value::Array(l) => l.iter().any(has_handle_text),
        Value::Object(m) => m.values().any(has_handle_text),
        _ => false,
    }
}

const PROP_CHARS: [char; 30] = [
    'a', 'b', 'K', '1', '.', ' ', ' ', '=', ':', '#', '!', '\\', '\t', '\n', '\r', '\u{c}', '"', '\'', '$', '{', '中', '😀', '\u{100}', '\u{7f}', '\0', 'é', 'ÿ', '\u{80}', '€', 'x',
];
fn gen_prop_text(rng: &mut Rng, min: usize) -> String {
    let n = min + rng.below(5);
    (0..n)
        .map(|_| loop {
            let c = *rng.pick(&PROP_CHARS);
            // characters of the known-finding classes are kept rare so that most maps exercise the round trip
            if !(is_latin1_supplement(c) || CP1252_SPECIALS.contains(&c) || is_bad_escape_width(c)) || rng.chance(1, 12) {
                break c;
            }
        })
        .collect()
}
fn gen_props(rng: &mut Rng) -> BTreeMap<String, String> {
    let mut m = BTreeMap::new();
    for _ in 0..rng.below(6) {
        m.insert(gen_prop_text(rng, 1), gen_prop_text(rng, 0));
    }
    // one map in eight holds, as a value (or as a key), the text of a LIVE handle: of another map
    // with entries (`…c`), of the empty target map (`…b`), of the map itself (`…a`) — a value is
    // a text, whatever it happens to name
    if rng.chance(1, 8) {
        let h = rng.pick_s(&["handle:c17map0000000000000c", "handle:c17map0000000000000b", "handle:c17map0000000000000a", "handle:c17arr0000000000000d"]).to_string();
        if rng.chance(1, 4) { m.insert(h, gen_prop_text(rng, 0)); } else { m.insert(rng.pick_s(&["server", "k", "a.b"]).to_string(), h); }
    }
    m
}

/// the other live collections every properties run finds in the handle table
fn other_handles(ctx: &mut Context) {
    let sub: HashMap<String, StateValue> = [("host", "example.org"), ("port", "80")].iter().map(|(k, v)| (k.to_string(), StateValue::String(v.to_string()))).collect();
    handles(ctx).insert("handle:c17map0000000000000c".to_string(), StateValue::SubState(sub));
    handles(ctx).insert("handle:c17arr0000000000000d".to_string(), StateValue::List(vec![StateValue::String("x".to_string())]));
}

fn mutate_b64(rng: &mut Rng, s: &str) -> String {
    let mut c: Vec<char> = s.chars().collect();
    let subs = ['=', '*', ' ', '\n', '-', '_', 'A', 'B', 'Q', 'x', '/', '+', 'é'];
    match rng.below(6) {
        0 if !c.is_empty() => {
            let i = rng.below(c.len());
            c.remove(i);
        }
        1 if !c.is_empty() => {
            let i = rng.below(c.len());
            c[i] = *rng.pick(&subs);
        }
        2 => {
            let i = rng.below(c.len() + 1);
            c.insert(i, *rng.pick(&subs));
        }
        3 if !c.is_empty() => {
            let i = c.len() - 1 - rng.below(c.len().min(3));
            c[i] = *rng.pick(&subs);
        }
        4 => c.push('='),
        _ => {}
    }
    c.into_iter().collect()
}
const B64_ALPHA: &[u8] = b"ABCDEFGHIJKLMNOPQRSTUVWXYZabcdefghijklmnopqrstuvwxyz0123456789+/";
/// independent tiny encoder, only used to produce decode inputs
fn b64_plain(b: &[u8]) -> String {
    let mut o = String::new();
    for ch in b.chunks(3) {
        let n = (ch[0] as u32) << 16 | (*ch.get(1).unwrap_or(&0) as u32) << 8 | *ch.get(2).unwrap_or(&0) as u32;
        o.push(B64_ALPHA[(n >> 18) as usize & 63] as char);
        o.push(B64_ALPHA[(n >> 12) as usize & 63] as char);
        o.push(if ch.len() > 1 { B64_ALPHA[(n >> 6) as usize & 63] as char } else { '=' });
        o.push(if ch.len() > 2 { B64_ALPHA[n as usize & 63] as char } else { '=' });
    }
    o
}

const HEX_FIXED: [&str; 30] = [
    "0", "1", "9", "10", "15", "16", "255", "256", "4294967295", "4294967296", "9223372036854775807", "9223372036854775808",
    "18446744073709551615", "18446744073709551616", "18446744073709551617", "99999999999999999999", "007", "+5", "+", "-1", "-0", "", " 5", "5 ",
    "abc", "0x10", "1e3", "1.0", "١", "00000000000000000000000012",
];
const HEXD_FIXED: [&str; 34] = [
    "0x0", "0xff", "0xFF", "0XFF", "ff", "FF", "0x0xff", "0x0x0x1", "0x", "", "x1f", "0xx1", "+ff", "0x+ff", "+0xff", "-ff", "0x-1", "g", "0xg",
    "ffffffffffffffff", "0xffffffffffffffff", "0x10000000000000000", "0x00000000000000000001", "00x1", "0x 1", " 0x1", "0x1 ", "0x1_0", "٠", "é", "0x00x1",
    "1x0", "00", "0x0x",
];

fn text_case(t: &str, tag: &'static str) -> Case {
    Case { req: format!("e17text {}", enc_str(t)), in_domain: true, nontrivial: !t.is_empty(), tags: vec!["text", tag] }
}
fn bytes_case(b: &[u8]) -> Case {
    Case { req: format!("e17bytes {}", enc_bytes(b)), in_domain: true, nontrivial: !b.is_empty(), tags: vec!["bytes", if std::str::from_utf8(b).is_ok() { "bytes-utf8" } else { "bytes-not-utf8" }] }
}
fn b64d_case(s: &str) -> Case {
    Case { req: format!("e17b64d {}", enc_str(s)), in_domain: false, nontrivial: !s.is_empty(), tags: vec!["b64d"] }
}
fn canonical_u64(s: &str) -> bool {
    s.parse::<u64>().map(|n| n.to_string() == s).unwrap_or(false)
}
fn hex_case(s: &str) -> Case {
    let canon = canonical_u64(s);
    Case { req: format!("e17hex {}", enc_str(s)), in_domain: canon, nontrivial: true, tags: vec!["hex", if canon { "hex-u64" } else { "hex-other" }] }
}
fn hexd_case(s: &str) -> Case {
    Case { req: format!("e17hexd {}", enc_str(s)), in_domain: false, nontrivial: true, tags: vec!["hexd"] }
}
fn json_case(v: &Value) -> Case {
    let d = json_depth(v);
    let dom = !has_handle_text(v);
    Case {
        req: format!("e17json {}", tok_of(v)),
        in_domain: dom,
        nontrivial: d >= 1,
        tags: vec!["json", if d >= 3 { "json-deep" } else if d >= 1 { "json-nested" } else { "json-scalar" }, if has_null(v) { "json-with-null" } else { "json-no-null" }],
    }
}
fn props_case(m: &BTreeMap<String, String>) -> Case {
    Case {
        req: format!("m17props {}", enc_vars(m)),
        in_domain: true,
        nontrivial: !m.is_empty(),
        tags: vec!["props", match props_known_class(m) { Some("C17/properties-trailing-space") => "props-trailing-space", Some(_) => "props-known-class-chars", None => "props-plain" }],
    }
}

/// fragments of properties texts: keys, the three kinds of separators, comment markers, every
/// escape the reader knows and malformed ones, line ends, continuation lines, non-ASCII text (read
/// byte-wise as windows-1252), a BOM (switches the reader to UTF-8)
const LOAD_FRAGS: [&str; 66] = [
    "k", "key", "a.b", "K2", "k", "v", "value", "x y", "=", "=", ":", " ", "  ", "\t", "\x0c", " = ", " : ", "#", "!", "# note", "! note",
    "\\", "\\\\", "\\t", "\\n", "\\r", "\\f", "\\:", "\\=", "\\ ", "\\#", "\\!", "\\b", "\\z", "\\u0041", "\\u00e9", "\\u4E2d", "\\uD83D\\uDE00", "\\ud800",
    "\\u+041", "\\u-041", "\\u12", "\\u", "\\uzzzz", "\\u 041", "\\U0041", "\n", "\n", "\n", "\r", "\r\n", "\n\n", "\\\n", "\\\r\n", "\\\n   ", "\\\\\n", "\\\n#", "\\\n\n",
    "é", "中", "😀", "€", "\u{a0}", "\u{85}", "\0", "\u{feff}",
];
fn gen_load_text(rng: &mut Rng) -> String {
    let mut t = String::new();
    if rng.chance(1, 25) {
        t.push('\u{feff}');
    }
    for _ in 0..rng.below(11) {
        if rng.chance(1, 12) {
            t.push(*rng.pick(&PROP_CHARS));
        } else {
            t.push_str(rng.pick_s(&LOAD_FRAGS));
        }
    }
    t
}
const LOAD_FIXED: [&str; 64] = [
    "", "\n", "\r", "\r\n", " ", "k", "k=", "k:", "k ", "=v", ":v", "=", ":", "k=v", "k:v", "k v", "k\tv", "k\x0cv", "k = v", "k : v", "k  v", "k =  v ", "  k=v", "\tk=v",
    "k==v", "k=:v", "k: =v", "k = = v", "k=v\n", "k=v\r\nk2=v2\r\n", "k=v\rk2=v2", "a=1\nb=2\na=3", "a=1\n\n\nb=2", "# c\nk=v", "! c\nk=v", "  # c\nk=v", "#k=v", "k=#v", "k#=v", "k!v",
    "k\\ 1=v", "k\\=1=v", "k\\:1:v", "k\\\\=v", "k=a\\tb\\nc\\rd\\fe", "k=\\u0041\\u00E9\\u4e2d", "k=\\ud83d\\ude00", "k=\\u12", "k=\\u+123", "k=\\u-123", "k=\\uD800", "k=\\x\\y\\'",
    "k=a\\\nb", "k=a\\\n   b", "k=a\\\r\n\tb", "k=a\\\\\nb", "k=a\\", "k=a\\\n", "k\\", "#c\\\nk=v", "k=a\\\n#b", "# \\u12\nk=v", "\u{feff}k=é", "k=é中€\u{a0}",
];

fn load_case(t: &str) -> Case {
    let kind = if t.contains("\\\n") || t.contains("\\\r") {
        "load-continuation"
    } else if t.contains('#') || t.contains('!') {
        "load-comment-marker"
    } else if t.contains('\\') {
        "load-escapes"
    } else {
        "load-plain"
    };
    Case { req: format!("m17load {}", enc_str(t)), in_domain: false, nontrivial: !t.is_empty(), tags: vec!["load", kind] }
}
/// maps for the text comparison: like the round-trip maps, plus keys/values that fill the
/// writer's 256-byte buffer (and its first enlargement, 768) up to an unmappable character
fn gen_write_map(rng: &mut Rng) -> (BTreeMap<String, String>, bool) {
    let mut m = BTreeMap::new();
    let long = rng.chance(1, 3);
    // at most three entries in all: six orders, so that ORDER_TRIES calls meet the wanted one
    for _ in 0..rng.below(if long { 3 } else { 4 }) {
        m.insert(gen_prop_text(rng, 1), gen_prop_text(rng, 0));
    }
    if long {
        let n = *rng.pick(&[240usize, 247, 249, 250, 251, 252, 253, 254, 255, 256, 257, 260, 500, 760, 762, 763, 765, 767, 768, 769, 1000]) + rng.below(3);
        let fill: String = match rng.below(4) {
            0 => " ".repeat(n / 2),
            1 => "ab=".chars().cycle().take(n * 3 / 4).collect(),
            _ => "a".repeat(n),
        };
        let tail: String = (0..1 + rng.below(3)).map(|_| *rng.pick(&['中', '\u{100}', '😀', '\u{1}', 'x', ' ', '\u{ffff}', '\u{1000}'])).collect();
        let text = format!("{}{}{}", fill, tail, if rng.chance(1, 2) { "zz" } else { "" });
        if rng.chance(1, 3) {
            m.insert(text, "v".to_string());
        } else {
            m.insert(gen_prop_text(rng, 1), text);
        }
    }
    (m, long)
}
fn write_case(m: &BTreeMap<String, String>, long: bool) -> Case {
    Case { req: format!("m17write {}", enc_vars(m)), in_domain: false, nontrivial: !m.is_empty(), tags: vec!["write", if long { "write-long" } else { "write-short" }] }
}

impl Prop for C17Prop {
    fn id(&self) -> &'static str {
        "C17"
    }
    fn rule(&self) -> &'static str {
        "eleven request kinds through the real SDK commands, every value passed through a variable: (text) texts of 0..12 characters from a pool with NUL, control characters, '$ { } % quotes backslash', 1/2/3/4-byte scalars incl. the boundary code points U+7F/80/7FF/800/D7FF/E000/FFFF/10000/10FFFF: string_to_bytes -> base64_encode -> base64_decode -> bytes_to_string, all intermediate byte arrays read from the handle store; (bytes) arbitrary byte strings incl. invalid UTF-8: base64 there and back + bytes_to_string; (b64d) valid encodings with one mutation (drop/replace/insert/pad) decoded; (hex) decimal texts incl. 0, 2^64-1, 2^64, signs, blanks: hex_encode -> hex_decode; (hexd) arbitrary spellings with repeated/odd 0x prefixes decoded; (json) serde_json::Value documents of depth <= 5 and width <= 6 with string/number/bool/null leaves and keys containing dots, blanks, brackets, quotes, NUL and non-ASCII: json_parse --collection -> json_encode --collection, compared with the normalisation computed in Rust; (props) maps of <= 5 entries with keys/values over a pool with '= : # ! backslash blank tab newline' and non-ASCII: map_to_properties -> map_load_properties into a fresh map, compared with the Lean model of the java-properties writer/reader run on the entries in the order of the request (the real command writes in the iteration order of a fresh HashMap: the real round trip is repeated, at most 200 times, until its outcome is the model's; the last outcome is reported and the round-trip relation is evaluated on it); (write) the text map_to_properties returns for maps of <= 3 entries, one third of them with a key or value of 240..1002 characters ending in an unmappable character at the writer's buffer boundaries (256, 768), compared with the model's text (same repetition); (load) properties texts of <= 10 fragments (keys, '=' ':' blank tab form-feed separators, '#'/'!' comments, every escape incl. malformed \\u forms, LF/CR/CRLF, continuation lines, blank lines, non-ASCII, NBSP, BOM) loaded by the real map_load_properties through a variable, compared with the model. (jprint) the JSON TEXT layer, writer: documents of the json generator with every leaf a string (one in four keeps null/bool/integer leaves), half of the strings and a third of the keys from a pool with every control character, quote, backslash, '/', DEL, U+2028/2029, the borders of the surrogate gap and non-BMP characters: serde_json::to_string must equal the model's compact text byte for byte, and the raw text returned by the real json_parse --collection + json_encode --collection must equal the model's text of the normalised document; (jparse) the reader: serde_json::from_str::<Value> against the model on compact prints with outer white space (the in-domain class of the round-trip theorem), on renderings of concrete syntax trees (in domain: C17_jsontext_reads_every_text) with random white space between all tokens, random \\uXXXX / short re-escaping of string characters (hex digits of either case, surrogate pairs), members in random order with repeated keys, integer/null/bool leaves, on number texts of every shape (the model answers FLOAT for what the crate reads as f64; then only 'error or a value with an f64' is required), on glued hand-made fragments (bad escapes, lone surrogates, raw control characters, leading zeros, literals cut short) and on valid texts with 1-2 mutations (truncate/delete/replace/insert/append). Fixed cases: 64 hand-written properties texts, writer texts around the 256-byte boundary, all texts of <= 2 pool characters, all byte strings of length <= 1 and all continuation patterns of 2 bytes from a boundary set, corner integers, hand-written JSON documents and maps, every single character below U+0100 as a JSON string and inside a key, nesting depths 126..130 and 200 of arrays/objects through both the reader and the two commands, trailing commas, trailing garbage, repeated keys. Non-trivial = non-empty input (json: at least one array/object); distinct = distinct request."
    }
    fn budget(&self, tier: Tier) -> usize {
        match tier {
            Tier::Quick => 28_000,
            Tier::Thorough => 2_800_000,
        }
    }
    fn fixed_cases(&self, _tier: Tier) -> Vec<Case> {
        let mut out = vec![];
        // texts of <= 2 pool characters
        out.push(text_case("", "text-fixed"));
        for a in TEXT_CHARS {
            out.push(text_case(&a.to_string(), "text-fixed"));
            for b in TEXT_CHARS {
                out.push(text_case(&format!("{}{}", a, b), "text-fixed"));
            }
        }
        for t in ["a\0b é", "${x}", "%{x}", "\\${x}", "fo", "foo", "foob", "fooba", "foobar", "\"quoted\"", " lead", "trail ", "a=b # c"] {
            out.push(text_case(t, "text-fixed"));
        }
        // texts that look like ESCAPE sequences of other languages (a text is bytes, nothing in it
        // is interpreted): hex / unicode / octal escapes, percent-encoding, entities, base64-ish
        for t in ["C:\\tools\\x64\\bin", "C:\\tools\\x86\\bin", "\\x41", "\\x4", "\\xZZ", "\\x", "a\\x00b", "\\u0041", "\\u{41}", "\\101", "\\n\\t\\r\\0", "%41%42", "%zz", "&amp;&#65;", "=?utf-8?q?x?=", "0x41", "\\\\x41", "\\X41"] {
            out.push(text_case(t, "text-escape-lookalike"));
        }
        // lengths around powers of two and multiples of three (block boundaries of encoders)
        for n in [62usize, 63, 64, 65, 127, 128, 129, 191, 192, 193, 254, 255, 256, 257, 258, 259, 511, 512, 513, 514, 767, 768, 769, 1023, 1024, 1025, 4095, 4096, 4097] {
            out.push(text_case(&"a".repeat(n), "text-fixed-long"));
            let mixed: String = "é漢😀x".chars().cycle().take(n / 2).collect();
            out.push(text_case(&mixed, "text-fixed-long"));
            out.push(bytes_case(&(0..n).map(|i| (i * 7 % 256) as u8).collect::<Vec<u8>>()));
        }
        // bytes
        out.push(bytes_case(&[]));
        for b in 0..=255u8 {
            out.push(bytes_case(&[b]));
        }
        let edge = [0x00u8, 0x7f, 0x80, 0x8f, 0x90, 0x9f, 0xa0, 0xbf, 0xc0, 0xc1, 0xc2, 0xdf, 0xe0, 0xe1, 0xec, 0xed, 0xee, 0xef, 0xf0, 0xf1, 0xf3, 0xf4, 0xf5, 0xf7, 0xf8, 0xff];
        for a in edge {
            for b in edge {
                out.push(bytes_case(&[a, b]));
                for c in [0x80u8, 0xbf, 0x7f, 0xc0] {
                    out.push(bytes_case(&[a, b, c]));
                    if a >= 0xf0 {
                        out.push(bytes_case(&[a, b, c, 0x80]));
                        out.push(bytes_case(&[a, b, c, 0xbf]));
                    }
                }
            }
        }
        // base64 decode inputs
        for s in ["", "=", "==", "A", "AA", "AAA", "AAAA", "AA==", "AAA=", "AB==", "AAB=", "A===", "====", "AA=A", "AA==AAAA", "AAAAAA==", "AAAA AAAA", "AAAA\n", "Zm9v", "Zm8=", "Zg==", "Zh==", "Zm9=", "Z m9v", "-_-_", "Zm9vYg", "Zm9vYmE"] {
            out.push(b64d_case(s));
        }
        for s in HEX_FIXED {
            out.push(hex_case(s));
        }
        for k in 0..64 {
            out.push(hex_case(&(1u64 << k).to_string()));
            out.push(hex_case(&((1u64 << k) - 1).to_string()));
        }
        for s in HEXD_FIXED {
            out.push(hexd_case(s));
        }
        for t in [
            "null", "true", "false", "0", "-1", "1.50", "1e3", "\"\"", "\"text\"", "\"handle:abc\"", "[]", "{}", "[null]", "[null,null]", "{\"a\":null}",
            "[1,null,\"x\",{\"b\":true}]", "{\"a\":[1,null,\"x\",{\"b\":true}],\"n\":null,\"k k\":[]}", "[[[[[1]]]]]", "{\"a.b\":{\"c d\":{\"e[0]\":{\"f\":{\"g\":null}}}}}",
            "{\"\":\"\"}", "[\"\",\"\"]", "[[],[],{}]", "{\"b\":1,\"a\":2,\"c\":[3,{\"z\":0,\"y\":null}]}", "[\"true\",true,\"1\",1]", "[1.0,1.5e300,-0.0,18446744073709551615,-9223372036854775808]",
            "{\"k\":\"${x}\",\"%{y}\":\"\\\\\"}", "[\"\\u0000\",\"\\n\",\"é😀\"]",
            // scalars that look like the commands' own options
            "\"--collection\"", "\"--prefix\"", "\"-r\"", "[\"--collection\"]", "{\"--collection\":\"--collection\"}", "\"handle:\"",
            // scalar documents whose text is the NAME of a variable that exists while the commands
            // run (the harness's own argument variables, `name`, `document`, `list` + `list.length`)
            "\"name\"", "\"document\"", "\"list\"", "\"c17arg0\"", "\"c17arg1\"", "[\"name\"]", "{\"name\":\"name\"}",
            // different arrays of one length whose items read the same when joined by commas
            "{\"raw\":[\"name,age\",\"city\"],\"fixed\":[\"name\",\"age,city\"]}", "[[\"a,b\",\"c\"],[\"a\",\"b,c\"]]", "[[\"\",\",\"],[\",\",\"\"]]", "[[1,2],[\"1\",\"2\"]]", "[[\"1,2\"],[\"1\",\"2\"]]", "[[\"x\"],[\"x\"],[\"x\",\"x\"]]",
        ] {
            let v: Value = serde_json::from_str(t).unwrap();
            out.push(json_case(&v));
        }
        let maps: Vec<Vec<(&str, &str)>> = vec![
            vec![],
            vec![("a", "1")],
            vec![("a", "1"), ("b", "2"), ("a.b.c", "123")],
            vec![("k", "")],
            vec![("key with space", "value with space")],
            vec![("k=", "v=")],
            vec![("k:", "v:")],
            vec![("#k", "#v")],
            vec![("!k", "!v")],
            vec![("k\\", "v\\")],
            vec![("k", " lead")],
            vec![("k", "trail ")],
            vec![(" k", "v")],
            vec![("k ", "v")],
            vec![("k", "line1\nline2")],
            vec![("k", "tab\there")],
            vec![("k\n", "v\r")],
            vec![("中", "😀")],
            vec![("k", "\u{100}")],
            vec![("k", "é")],
            vec![("é", "v")],
            vec![("k", "\u{80}")],
            vec![("k", "ÿ")],
            vec![("k", "\u{7f}")],
            vec![("k", "\0")],
            vec![("a", "1"), ("b", "x "), ("c", " y")],
        ];
        for m in maps {
            let m: BTreeMap<String, String> = m.into_iter().map(|(k, v)| (k.to_string(), v.to_string())).collect();
            out.push(props_case(&m));
        }
        // finding C17/properties-escape-cut-at-buffer-end: the `\u` escape of the last character does
        // not fit into what is left of the writer's 256-byte buffer (and two values next to the class
        // that round-trip)
        // values whose escaped characters fall around columns 100-130 of the written line
        for n in 100usize..=130 {
            for tail in [" tail", "\\tail", "\ttab", "=x:y#z!"] {
                let mut m = BTreeMap::new();
                m.insert("k".to_string(), format!("{}{}", "a".repeat(n), tail));
                out.push(props_case(&m));
            }
        }
        for n in [250usize, 251, 253, 254, 255, 256, 765] {
            let mut m = BTreeMap::new();
            m.insert("k".to_string(), format!("{}中", "a".repeat(n)));
            out.push(props_case(&m));
        }
        for t in LOAD_FIXED {
            out.push(load_case(t));
        }
        // the writer's text: corner maps and values that end at the buffer boundary
        for (k, v) in [("k", "v"), ("a b", " x: y\t"), ("#!=:\\", "\r\n\u{c}"), ("k", "中"), ("k", "\u{100}"), ("k", "😀"), ("k", "é"), ("k", "\u{0}\u{1f}\u{7f}"), ("k", "a "), ("", "")] {
            let m: BTreeMap<String, String> = [(k.to_string(), v.to_string())].into_iter().collect();
            out.push(write_case(&m, false));
        }
        for n in 248..=258usize {
            let m: BTreeMap<String, String> = [("k".to_string(), format!("{}中x", "a".repeat(n)))].into_iter().collect();
            out.push(write_case(&m, true));
        }
        // JSON text layer: the writer
        for t in [
            "\"\"", "\"a\"", "[]", "{}", "[\"\"]", "{\"\":\"\"}", "[\"a\",\"b\"]", "{\"a\":\"1\",\"b\":[\"x\",{\"c\":\"\"}]}", "[[],{},[[]],[{}]]", "null", "true", "[null,false,0,-1,18446744073709551615,-9223372036854775808]",
            "{\"b\":\"1\",\"a\":\"2\",\"aa\":\"3\",\"B\":\"4\",\"\":\"5\",\"é\":\"6\",\"\\uffff\":\"7\",\"😀\":\"8\",\"a\\u0000\":\"9\"}",
        ] {
            let v: Value = serde_json::from_str(t).unwrap();
            out.push(jprint_case(&v));
        }
        // every character below U+0100 and the borders above it, alone and between two letters
        let mut singles: Vec<char> = (0u32..0x100).filter_map(char::from_u32).collect();
        singles.extend(['\u{2028}', '\u{2029}', '\u{d7ff}', '\u{e000}', '\u{fffd}', '\u{fffe}', '\u{ffff}', '\u{10000}', '😀', '\u{10ffff}']);
        for c in &singles {
            out.push(jprint_case(&Value::String(c.to_string())));
            let mut m = Map::new();
            m.insert(format!("k{}", c), Value::Array(vec![Value::String(format!("a{}b", c))]));
            out.push(jprint_case(&Value::Object(m)));
        }
        out.push(jprint_case(&Value::String(singles.iter().collect())));
        // the recursion limit seen through the two commands (127 containers pass, 128 do not)
        for n in [1usize, 2, 126, 127, 128, 129] {
            let mut v = Value::String("x".into());
            for i in 0..n {
                v = if i % 2 == 0 { Value::Array(vec![v]) } else { [("k".to_string(), v)].into_iter().collect::<Map<String, Value>>().into() };
            }
            out.push(jprint_case(&v));
        }
        // JSON text layer: the reader
        for t in JP_FRAGS {
            out.push(jparse_case(t, false, "jparse-fixed"));
            out.push(jparse_case(&format!(" [ {} ] ", t), false, "jparse-fixed"));
            out.push(jparse_case(&format!("{{\"k\":{}}}", t), false, "jparse-fixed"));
            out.push(jparse_case(&format!("[1,{}", t), false, "jparse-fixed"));
        }
        for t in [
            " ", "\n", "[1,]", "[,1]", "[1,,2]", "[1 2]", "{\"a\":1,}", "{,\"a\":1}", "{\"a\" 1}", "{\"a\":}", "{a:1}", "{1:1}", "{\"a\":1 \"b\":2}", "{\"a\":1,\"a\":2}", "{\"b\":1,\"a\":2,\"b\":3,\"a\":[4]}",
            "{\"a\":1,\"a\":null}", "{\"\\u0061\":1,\"a\":2}", "[1]x", "[1] x", "[1]\u{0}", "[1]\u{a0}", "\u{feff}[1]", "[1]\u{feff}", "\u{b}[1]", "\u{c}[1]", "[1]\u{2028}", "1 2", "\"a\" \"b\"", "nullnull", "[] []", "{}{}",
            "\t\r\n [ \t\r\n ] \t\r\n", " { \"a\" : [ ] , \"b\" : { } } ", "[\"\\u0000\\u001f\\u007f\\u2028\\uffff\"]", "\"\\ud834\\udd1e\"", "\"\\uD834\\uDD1E\"", "\"\\ud834\\udd1\"", "\"\\ud834\\u\"", "\"\\ud834\\\"",
            "\"\\ud834\\", "\"\\ud834", "\"\\ud83", "\"\\u", "\"\\ud834\\udd1e", "\"é\\u00e9\\u00E9\"", "\"\u{1}\"", "\"\\u001\u{e9}\"",
        ] {
            out.push(jparse_case(t, false, "jparse-fixed"));
        }
        for n in [1usize, 2, 3, 64, 126, 127, 128, 129, 130, 200] {
            out.push(jparse_case(&nest(n, "[", "", "]"), false, "jparse-depth"));
            out.push(jparse_case(&nest(n, "[", "\"x\"", "]"), n <= 127, "jparse-depth"));
            out.push(jparse_case(&nest(n, "{\"a\":", "\"x\"", "}"), n <= 127, "jparse-depth"));
            out.push(jparse_case(&nest(n, " [ ", "1", " ] "), false, "jparse-depth"));
            out.push(jparse_case(&nest(n, "[{\"k\":", "[]", "}]"), false, "jparse-depth"));
            out.push(jparse_case(&"[".repeat(n), false, "jparse-depth"));
            out.push(jparse_case(&format!("{}1.5{}", "[".repeat(n), "]".repeat(n)), false, "jparse-depth"));
        }
        out
    }
    fn generate(&self, rng: &mut Rng, _tier: Tier) -> Case {
        match rng.below(28) {
            24 | 25 => {
                let d = 1 + rng.below(5);
                let g = gen_json(rng, d);
                let ints = rng.chance(1, 4);
                jprint_case(&stringify(rng, &g, ints))
            }
            26 | 27 => gen_jparse(rng),
            0..=4 => {
                // mostly short; one in six long (block / buffer boundaries of the encoders)
                let max = match rng.below(18) { 0 => 300, 1 => 1100, 2 => 70, _ => 12 };
                text_case(&gen_text(rng, max), if max > 12 { "text-random-long" } else { "text-random" })
            }
            5 | 6 => {
                let n = match rng.below(18) { 0 => 250 + rng.below(20), 1 => rng.below(1200), _ => rng.below(11) };
                let b: Vec<u8> = if rng.chance(1, 2) {
                    (0..n).map(|_| rng.below(256) as u8).collect()
                } else {
                    // valid UTF-8 with one byte changed or dropped
                    let mut b = gen_text(rng, 5).into_bytes();
                    if !b.is_empty() {
                        let i = rng.below(b.len());
                        if rng.chance(1, 2) {
                            b[i] = rng.below(256) as u8;
                        } else {
                            b.remove(i);
                        }
                    }
                    b
                };
                bytes_case(&b)
            }
            7 | 8 => {
                let n = rng.below(8);
                let b: Vec<u8> = (0..n).map(|_| rng.below(256) as u8).collect();
                b64d_case(&mutate_b64(rng, &b64_plain(&b)))
            }
            9 | 10 => {
                let s = match rng.below(6) {
                    0 => rng.pick_s(&HEX_FIXED).to_string(),
                    1 => (rng.next() >> rng.below(64)).to_string(),
                    2 => format!("{}{}", rng.next(), rng.below(10)),
                    3 => format!("{}{}", rng.pick_s(&["+", "-", "0", " ", "00"]), rng.next() >> rng.below(64)),
                    _ => rng.next().to_string(),
                };
                hex_case(&s)
            }
            11 => {
                let s = match rng.below(4) {
                    0 => rng.pick_s(&HEXD_FIXED).to_string(),
                    1 => format!("{}{:x}", rng.pick_s(&["", "0x", "0x0x", "0X", "+", "0x+", "x"]), rng.next() >> rng.below(64)),
                    2 => format!("{}{:X}{}", rng.pick_s(&["", "0x"]), rng.next(), rng.pick_s(&["", "0", "f", "g", " "])),
                    _ => format!("0x{:x}{:x}", rng.next(), rng.below(4096)),
                };
                hexd_case(&s)
            }
            12..=16 => {
                let d = 1 + rng.below(5);
                json_case(&gen_json(rng, d))
            }
            17..=19 => props_case(&gen_props(rng)),
            20..=22 => load_case(&gen_load_text(rng)),
            _ => {
                let (m, long) = gen_write_map(rng);
                write_case(&m, long)
            }
        }
    }
    fn run_impl(&self, req: &str, model_out: &str) -> String {
        let t: Vec<&str> = req.split(' ').collect();
        if t.len() != 2 {
            return "BAD-REQUEST".into();
        }
        match t[0] {
            "e17text" => impl_text(&dec_str(t[1]).unwrap()),
            "e17bytes" => run_bytes(&dec_bytes(t[1]).unwrap()),
            "e17b64d" => run_b64d(&dec_str(t[1]).unwrap()),
            "e17hex" => run_hex(&dec_str(t[1]).unwrap()),
            "e17hexd" => run_hexd(&dec_str(t[1]).unwrap()),
            "e17json" => run_json(&value_of_tok(t[1]).unwrap()),
            "e17jprint" => run_jprint(&value_of_tok(t[1]).unwrap()),
            "e17jparse" => run_jparse(&dec_str(t[1]).unwrap(), model_out),
            // legacy op (corpus lines): the model side is only the property's reading, one run
            "e17props" => run_props(&dec_vars(t[1]).unwrap(), None),
            "m17props" => run_props(&dec_vars(t[1]).unwrap(), Some(model_out)),
            "m17write" => run_write(&dec_vars(t[1]).unwrap(), model_out),
            "m17load" => run_load(&dec_str(t[1]).unwrap()),
            _ => "BAD-REQUEST".into(),
        }
    }
    /// the round-trip relations, evaluated on the implementation output alone
    fn relation(&self, req: &str, _m: &str, imp: &str) -> Option<bool> {
        let t: Vec<&str> = req.split(' ').collect();
        let o: Vec<&str> = imp.split(' ').collect();
        match t[0] {
            "e17text" => {
                let text = dec_str(t[1])?;
                Some(o.len() == 4 && o[0] == enc_bytes(text.as_bytes()) && o[2] == o[0] && o[3] == enc_str(&text))
            }
            "e17bytes" => {
                let b = dec_bytes(t[1])?;
                let txt = match std::str::from_utf8(&b) {
                    Ok(s) => enc_str(s),
                    Err(_) => "err".to_string(),
                };
                Some(o.len() == 3 && o[1] == t[1] && o[2] == txt)
            }
            "e17hex" => {
                let s = dec_str(t[1])?;
                if canonical_u64(&s) {
                    Some(o.len() == 2 && o[1] == t[1])
                } else {
                    None
                }
            }
            "e17json" => {
                let v = value_of_tok(t[1])?;
                if has_handle_text(&v) {
                    None
                } else {
                    Some(o.len() == 3 && o[0] == "J" && o[1] == o[2])
                }
            }
            "e17jprint" => {
                // the property on the level of texts, on the real commands alone: the text
                // json_encode returns is the compact text of the normalised document and parses
                // back to it
                let v = value_of_tok(t[1])?;
                if has_handle_text(&v) || json_depth(&v) > 127 || has_float(&v) {
                    return None;
                }
                Some(o.len() == 3 && o[0] == "P" && match normalise(&v) {
                    None => o[2] == "-",
                    Some(n) => match unhex(o[2]) {
                        Some(text) => text == serde_json::to_string(&n).unwrap() && serde_json::from_str::<Value>(&text).ok() == Some(n),
                        None => false,
                    },
                })
            }
            "e17props" | "m17props" => Some(imp == format!("ok {}", t[1])),
            _ => None,
        }
    }
    fn known(&self, req: &str, model: &str, imp: &str) -> Option<String> {
        let t: Vec<&str> = req.split(' ').collect();
        // the model reproduces the recorded defects: on `m17props` a case is a known finding only
        // when the real commands did exactly what the model says (a difference is reported)
        if t[0] == "m17props" && model != imp {
            return None;
        }
        if (t[0] == "e17props" || t[0] == "m17props") && !imp.starts_with("PANIC") {
            if let Some(m) = dec_vars(t[1]) {
                return props_known_class(&m).map(|s| s.to_string());
            }
        }
        None
    }
    fn shrink(&self, req: &str) -> Vec<String> {
        let t: Vec<&str> = req.split(' ').collect();
        let mut out = vec![];
        match t[0] {
            "e17text" | "e17b64d" | "e17hex" | "e17hexd" | "m17load" | "e17jparse" => {
                if let Some(s) = dec_str(t[1]) {
                    let c: Vec<char> = s.chars().collect();
                    for i in 0..c.len() {
                        let mut n = c.clone();
                        n.remove(i);
                        out.push(format!("{} {}", t[0], enc_str(&n.into_iter().collect::<String>())));
                    }
                }
            }
            "e17bytes" => {
                if let Some(b) = dec_bytes(t[1]) {
                    for i in 0..b.len() {
                        let mut n = b.clone();
                        n.remove(i);
                        out.push(format!("e17bytes {}", enc_bytes(&n)));
                    }
                }
            }
            "e17json" | "e17jprint" => {
                if let Some(v) = value_of_tok(t[1]) {
                    let mut cands = vec![];
                    match &v {
                        Value::Array(l) => {
                            for i in 0..l.len() {
                                cands.push(l[i].clone());
                                let mut n = l.clone();
                                n.remove(i);
                                cands.push(Value::Array(n));
                            }
                        }
                        Value::Object(m) => {
                            for k in m.keys() {
                                cands.push(m[k].clone());
                                let mut n = m.clone();
                                n.remove(k);
                                cands.push(Value::Object(n));
                            }
                        }
                        _ => {}
                    }
                    for c in cands {
                        out.push(format!("{} {}", t[0], tok_of(&c)));
                    }
                }
            }
            "e17props" | "m17props" | "m17write" => {
                let op = t[0];
                if let Some(m) = dec_vars(t[1]) {
                    for k in m.keys() {
                        let mut n = m.clone();
                        n.remove(k);
                        out.push(format!("{} {}", op, enc_vars(&n)));
                        let v = &m[k];
                        let vc: Vec<char> = v.chars().collect();
                        for i in 0..vc.len() {
                            let mut x = vc.clone();
                            x.remove(i);
                            let mut n = m.clone();
                            n.insert(k.clone(), x.into_iter().collect());
                            out.push(format!("{} {}", op, enc_vars(&n)));
                        }
                        let kc: Vec<char> = k.chars().collect();
                        if kc.len() > 1 {
                            for i in 0..kc.len() {
                                let mut x = kc.clone();
                                x.remove(i);
                                let nk: String = x.into_iter().collect();
                                if !m.contains_key(&nk) {
                                    let mut n = m.clone();
                                    n.remove(k);
                                    n.insert(nk, v.clone());
                                    out.push(format!("{} {}", op, enc_vars(&n)));
                                }
                            }
                        }
                    }
                }
            }
            _ => {}
        }
        out
    }
    fn outcome_kind(&self, imp: &str) -> String {
        let first = imp.split(' ').next().unwrap_or("");
        if first == "J" || first == "P" || first == "V" || first == "ERR" || first == "FLOAT" || first == "ok" || first.starts_with("err") || first == "PANIC" {
            first.to_string()
        } else if imp.contains("err") {
            "partial-err".to_string()
        } else {
            "values".to_string()
        }
    }
    fn describe(&self, req: &str) -> String {
        let t: Vec<&str> = req.split(' ').collect();
        match t[0] {
            "e17text" | "e17b64d" | "e17hex" | "e17hexd" => format!("{} {:?}", &t[0][3..], dec_str(t[1]).unwrap_or_default()),
            "e17bytes" => format!("bytes {:?}", dec_bytes(t[1]).unwrap_or_default()),
            "e17jprint" => format!("jprint {}", value_of_tok(t[1]).map(|v| v.to_string()).unwrap_or_default()),
            "e17jparse" => format!("jparse {:?}", dec_str(t[1]).unwrap_or_default()),
            "e17json" => format!("json {}", value_of_tok(t[1]).map(|v| v.to_string()).unwrap_or_default()),
            "e17props" | "m17props" => format!("props {:?}", dec_vars(t[1]).unwrap_or_default()),
            "m17write" => format!("write {:?}", dec_vars(t[1]).unwrap_or_default()),
            "m17load" => format!("load {:?}", dec_str(t[1]).unwrap_or_default()),
            _ => req.to_string(),
        }
    }
}
