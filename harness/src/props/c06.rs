//! C06: conditions — one truthiness rule, and-of-ors grouping, parentheses.
use crate::rng::Rng;
use crate::sdkenv::*;
use crate::wire::*;
use crate::{Case, Prop, Tier};
use duckscript::types::command::CommandResult;

pub struct C06Prop;
pub static C06: C06Prop = C06Prop;

// (the last four differ from an operator only in letter case: they are plain truthy values)
/// (`@EA` `@EM` `@ES` `@CA` `@NA`: the harness replaces these by the handle of a live EMPTY array /
/// map / set, of an array emptied by array_clear, of a non-empty array — a handle is a text like
/// any other, hence truthy; the model is asked about the placeholder, which is truthy for the same
/// reason.  `then` `do` `!false` …: words that look like syntax of other languages)
const TRUTHY: [&str; 27] = ["true", "1", "yes", "abc", " ", "x y", "TRUE", "-1", "nope", "0.0", "AND", "Or", "OR", "And", "@EA", "@EM", "@ES", "@CA", "@NA", "then", "do", "!false", "!0", "!", "&&", "||", "handle:none"];
const FALSY: [&str; 9] = ["false", "0", "no", "", "FALSE", "No", "nO", "False", "NO"];
const CONSUMERS: [&str; 4] = ["not", "if", "elseif", "while"];

#[derive(Clone, Debug)]
enum Ast {
    Val(String, bool),
    Group(Option<Box<Conj>>),
}
#[derive(Clone, Debug)]
struct Conj(Vec<Vec<Ast>>);

fn gen_atom(rng: &mut Rng, depth: usize) -> Ast {
    if depth > 0 && rng.chance(1, 4) {
        if rng.chance(1, 8) {
            Ast::Group(None)
        } else {
            Ast::Group(Some(Box::new(gen_conj(rng, depth - 1))))
        }
    } else if rng.chance(1, 2) {
        Ast::Val(rng.pick_s(&TRUTHY).to_string(), true)
    } else {
        Ast::Val(rng.pick_s(&FALSY).to_string(), false)
    }
}
fn gen_conj(rng: &mut Rng, depth: usize) -> Conj {
    let n = 1 + rng.below(3);
    Conj((0..n).map(|_| (0..1 + rng.below(3)).map(|_| gen_atom(rng, depth)).collect()).collect())
}
fn eval_atom(a: &Ast) -> bool {
    match a {
        Ast::Val(_, b) => *b,
        Ast::Group(None) => false,
        Ast::Group(Some(c)) => eval_conj(c),
    }
}
fn eval_conj(c: &Conj) -> bool {
    c.0.iter().all(|d| d.iter().any(eval_atom))
}
fn tok_atom(a: &Ast, out: &mut Vec<String>) {
    match a {
        Ast::Val(s, _) => out.push(s.clone()),
        Ast::Group(g) => {
            out.push("(".into());
            if let Some(c) = g {
                tok_conj(c, out);
            }
            out.push(")".into());
        }
    }
}
fn tok_conj(c: &Conj, out: &mut Vec<String>) {
    for (i, d) in c.0.iter().enumerate() {
        if i > 0 {
            out.push("and".into());
        }
        for (j, a) in d.iter().enumerate() {
            if j > 0 {
                out.push("or".into());
            }
            tok_atom(a, out);
        }
    }
}

/// recursive-descent recogniser + evaluator for the grammar over T/F/and/or/(/) (independent oracle)
fn parse_eval(toks: &[&str]) -> Option<bool> {
    fn conj(t: &[&str], p: &mut usize) -> Option<bool> {
        let mut r = disj(t, p)?;
        while *p < t.len() && t[*p] == "and" {
            *p += 1;
            let d = disj(t, p)?;
            r = r && d;
        }
        Some(r)
    }
    fn disj(t: &[&str], p: &mut usize) -> Option<bool> {
        let mut r = atom(t, p)?;
        while *p < t.len() && t[*p] == "or" {
            *p += 1;
            let a = atom(t, p)?;
            r = r || a;
        }
        Some(r)
    }
    fn atom(t: &[&str], p: &mut usize) -> Option<bool> {
        if *p >= t.len() {
            return None;
        }
        match t[*p] {
            "(" => {
                *p += 1;
                if *p < t.len() && t[*p] == ")" {
                    *p += 1;
                    return Some(false);
                }
                let r = conj(t, p)?;
                if *p < t.len() && t[*p] == ")" {
                    *p += 1;
                    Some(r)
                } else {
                    None
                }
            }
            "and" | "or" | ")" => None,
            "T" => {
                *p += 1;
                Some(true)
            }
            _ => {
                *p += 1;
                Some(false)
            }
        }
    }
    if toks.is_empty() {
        return Some(false);
    }
    let mut p = 0;
    let r = conj(toks, &mut p)?;
    if p == toks.len() { Some(r) } else { None }
}

fn mk(consumer: &str, toks: &[String], exp: Option<bool>) -> String {
    format!("cond {} {} exp={}", consumer, enc_list(toks), match exp { Some(true) => "1", Some(false) => "0", None => "-" })
}

/// decide the condition through one of the four consumers of the real interpreter
fn decide(consumer: &str, toks: &[String]) -> String {
    let mut ctx = sdk_context();
    let mut args = vec![];
    for (i, t) in toks.iter().enumerate() {
        let t = &match t.as_str() {
            "@EA" | "@EM" | "@ES" | "@CA" | "@NA" => {
                let (cmd, args): (&str, Vec<String>) = match t.as_str() { "@EA" => ("array", vec![]), "@EM" => ("map", vec![]), "@ES" => ("set_new", vec![]), _ => ("array", vec!["a".into(), "b".into()]) };
                match run_one(&mut ctx, cmd, args, Some("h".into())).0 {
                    CommandResult::Continue(Some(h)) => {
                        if t == "@CA" {
                            run_one(&mut ctx, "array_clear", vec![h.clone()], None);
                        }
                        h
                    }
                    other => return format!("odd-handle {:?}", other),
                }
            }
            _ => t.clone(),
        };
        ctx.variables.insert(format!("t{}", i), t.clone());
        args.push(format!("${{t{}}}", i));
    }
    match consumer {
        "not" => match run_one(&mut ctx, "not", args, Some("out".into())).0 {
            CommandResult::Continue(Some(v)) => if v == "false" { "ok 1".into() } else if v == "true" { "ok 0".into() } else { format!("odd {}", v) },
            CommandResult::Error(_) => "err".into(),
            other => format!("odd {:?}", other),
        },
        _ => {
            let cond = args.join(" ");
            let script = match consumer {
                "if" => format!("r = set none\nif {}\nr = set yes\nelse\nr = set no\nend", cond),
                "elseif" => format!("r = set none\nif false\nr = set first\nelseif {}\nr = set yes\nelse\nr = set no\nend", cond),
                _ => format!("r = set no\nwhile {}\nr = set yes\ngoto :out\nend\n:out", cond),
            };
            match run_text(&script, ctx) {
                Ok(c) => match c.variables.get("r").map(|s| s.as_str()) {
                    Some("yes") => "ok 1".into(),
                    Some("no") => "ok 0".into(),
                    // an evaluation error makes the block command fail: its output is 'false' and
                    // the script continues with the next line (C10), which sets r = yes/first
                    other => format!("err-or-odd {:?}", other),
                },
                Err(_) => "err".into(),
            }
        }
    }
}

impl Prop for C06Prop {
    fn id(&self) -> &'static str {
        "C06"
    }
    fn rule(&self) -> &'static str {
        "all token sequences over {T,F,and,or,(,)} up to length L (7 quick, 9 thorough) through the 'not' command (well-formed ones are in the domain and also checked against an independent recursive-descent evaluator; malformed ones compare model vs code only), plus random well-formed nested statements (depth <= 4) with atom values from truthy/falsy spellings in mixed case and odd strings, decided through all four consumers (not, if, elseif, while) of the real interpreter. Non-trivial = at least 3 tokens; distinct = distinct request."
    }
    fn budget(&self, tier: Tier) -> usize {
        match tier {
            Tier::Quick => 6_000,
            Tier::Thorough => 400_000,
        }
    }
    fn fixed_cases(&self, tier: Tier) -> Vec<Case> {
        let alpha = ["T", "F", "and", "or", "(", ")"];
        let maxlen = if tier == Tier::Quick { 6 } else { 8 };
        let mut out = vec![];
        let mut cur: Vec<Vec<&str>> = vec![vec![]];
        for len in 0..=maxlen {
            let mut next = vec![];
            for s in &cur {
                if !s.is_empty() {
                    let exp = parse_eval(s);
                    let toks: Vec<String> = s.iter().map(|t| match *t { "T" => "true".to_string(), "F" => "false".to_string(), o => o.to_string() }).collect();
                    out.push(Case { req: mk("not", &toks, exp), in_domain: exp.is_some(), nontrivial: s.len() >= 3, tags: vec![if exp.is_some() { "exhaustive-wellformed" } else { "exhaustive-malformed" }] });
                }
                if len < maxlen {
                    for a in alpha {
                        let mut n = s.clone();
                        n.push(a);
                        next.push(n);
                    }
                }
            }
            cur = next;
        }
        // failing-input search support: every word of the falsy table REGENERATED from the source
        // (lean/DuckModel/Generated/Falsy.lean) is tried against the property's own rule, so a
        // word added to `is_true` shows up as a concrete violating input, not only as a broken proof
        if let Ok(gen) = std::fs::read_to_string("lean/DuckModel/Generated/Falsy.lean") {
            for piece in gen.split("\".toList").collect::<Vec<_>>() {
                if let Some(i) = piece.rfind('"') {
                    let w = &piece[i + 1..];
                    if w.len() < 40 && !w.contains('\n') {
                        for spelled in [w.to_string(), w.to_uppercase()] {
                            let lower = spelled.to_ascii_lowercase();
                            let truthy = !(lower.is_empty() || lower == "0" || lower == "false" || lower == "no");
                            out.push(Case { req: mk("not", &[spelled.clone()], Some(truthy)), in_domain: true, nontrivial: true, tags: vec!["generated-table-word"] });
                        }
                    }
                }
            }
        }
        // truthiness dictionary: every string of length <= 2 (thorough: <= 3) over [a-z0-9 ] and a
        // list of words a developer might be tempted to treat as "false" — each is truthy unless it
        // is one of the four documented falsy words (any letter case). Ties the falsy table to the
        // code's behaviour without relying on the source shape of `is_true`. Words that are
        // operators or registered command names (a command in first position would be RUN) are skipped.
        {
            let reserved: std::collections::HashSet<String> = crate::props::c04::registry_names().into_iter().collect();
            let alphabet: Vec<char> = "abcdefghijklmnopqrstuvwxyz0123456789 ".chars().collect();
            let maxlen = if tier == Tier::Quick { 2 } else { 3 };
            let mut words: Vec<String> = vec![String::new()];
            let mut layer: Vec<String> = vec![String::new()];
            for _ in 0..maxlen {
                let mut next = vec![];
                for w in &layer {
                    for c in &alphabet {
                        next.push(format!("{}{}", w, c));
                    }
                }
                words.extend(next.iter().cloned());
                layer = next;
            }
            for w in ["off", "Off", "OFF", "none", "None", "null", "NULL", "nil", "disabled", "negative", "never", "undefined", "nan", "NaN", "empty", "-", "0.0", "00", "000", "0x0", " 0", "0 ", "-0", "+0", "false ", " false", "fals", "falsee", "noo", "n o", "non", "0false", "false0", "\u{0}", "０", "ｎｏ", "nein", "ko", "fail", "failed", "error", "f", "n"] {
                words.push(w.to_string());
            }
            // near misses of the falsy words: every single-character substitution (each ASCII
            // character incl. the control characters, and look-alikes / case-folding oddities) at
            // every position of `0`, `false`, `no` in both letter cases, and every single character
            let mut subst: Vec<char> = (0u8..128).map(|b| b as char).collect();
            subst.extend(['\u{130}', '\u{131}', '\u{17f}', '\u{212a}', '\u{ba}', '\u{ff10}', '\u{660}', '\u{2070}', '\u{1e9e}', '\u{d8}', '\u{f8}', '\u{3bf}', '\u{43e}', '\u{ff4e}', '\u{ff2e}', '\u{85}', '\u{a0}', '\u{feff}']);
            for base in ["0", "false", "no", "FALSE", "NO", "False", "No"] {
                let cs: Vec<char> = base.chars().collect();
                for i in 0..cs.len() {
                    for c in &subst {
                        let mut v = cs.clone();
                        v[i] = *c;
                        words.push(v.into_iter().collect());
                    }
                }
            }
            for c in &subst {
                words.push(c.to_string());
            }
            for w in words {
                if w == "and" || w == "or" || w == "(" || w == ")" || reserved.contains(&w) {
                    continue;
                }
                let lower = w.to_lowercase();
                let truthy = !(lower.is_empty() || lower == "0" || lower == "false" || lower == "no");
                out.push(Case { req: mk("not", &[w.clone()], Some(truthy)), in_domain: true, nontrivial: !w.is_empty(), tags: vec!["truthiness-dictionary"] });
            }
        }
        // truthiness of single values, all consumers
        for v in TRUTHY.iter().chain(FALSY.iter()) {
            for c in CONSUMERS {
                out.push(Case { req: mk(c, &[v.to_string()], Some(TRUTHY.contains(v))), in_domain: true, nontrivial: true, tags: vec!["truthiness"] });
            }
        }
        out
    }
    fn generate(&self, rng: &mut Rng, _tier: Tier) -> Case {
        if rng.chance(1, 8) {
            // TWO statements decided one after the other on the same thread: B, and before it A = B with one
            // `atom op atom` span merged into a single value with blanks (`false and true` as ONE atom is a
            // text, hence truthy) — the two read the same when joined by blanks and mean different things
            for _ in 0..20 {
                let c = gen_conj(rng, 2);
                let mut b = vec![];
                tok_conj(&c, &mut b);
                let plain = |t: &String| !["and", "or", "(", ")"].contains(&t.as_str()) && !t.starts_with('@');
                let spans: Vec<usize> = (0..b.len().saturating_sub(2)).filter(|&i| plain(&b[i]) && (b[i + 1] == "and" || b[i + 1] == "or") && plain(&b[i + 2])).collect();
                if spans.is_empty() || b.len() < 5 {
                    continue;
                }
                let i = *rng.pick(&spans);
                let merged = format!("{} {} {}", b[i], b[i + 1], b[i + 2]);
                let mut a: Vec<String> = b[..i].to_vec();
                a.push(merged);
                a.extend_from_slice(&b[i + 3..]);
                let sym = |t: &String| -> &'static str { match t.as_str() { "and" => "and", "or" => "or", "(" => "(", ")" => ")", _ => if FALSY.contains(&t.as_str()) { "F" } else { "T" } } };
                let ea = parse_eval(&a.iter().map(sym).collect::<Vec<_>>());
                let eb = parse_eval(&b.iter().map(sym).collect::<Vec<_>>());
                if let (Some(ea), Some(eb)) = (ea, eb) {
                    let consumer = rng.pick_s(&CONSUMERS);
                    let swap = rng.chance(1, 2);
                    let (x, y, ex, ey) = if swap { (&b, &a, eb, ea) } else { (&a, &b, ea, eb) };
                    return Case { req: format!("cond2 {} {} {} exp={}{}", consumer, enc_list(x), enc_list(y), ex as u8, ey as u8), in_domain: true, nontrivial: true, tags: vec![consumer, "two-statements-same-thread"] };
                }
            }
        }
        let c = gen_conj(rng, 3);
        let mut toks = vec![];
        tok_conj(&c, &mut toks);
        let consumer = rng.pick_s(&CONSUMERS);
        Case { req: mk(consumer, &toks, Some(eval_conj(&c))), in_domain: true, nontrivial: toks.len() >= 3, tags: vec![consumer, if toks.contains(&"(".to_string()) { "with-group" } else { "flat" }] }
    }
    fn run_impl(&self, req: &str, _m: &str) -> String {
        let t: Vec<&str> = req.split(' ').collect();
        if t[0] == "cond2" {
            return format!("{} {}", decide(t[1], &dec_list(t[2]).unwrap()), decide(t[1], &dec_list(t[3]).unwrap()));
        }
        decide(t[1], &dec_list(t[2]).unwrap())
    }
    fn relation(&self, req: &str, _m: &str, imp: &str) -> Option<bool> {
        let t: Vec<&str> = req.split(' ').collect();
        if t[0] == "cond2" {
            let e = t[4].strip_prefix("exp=")?;
            return Some(imp == format!("ok {} ok {}", &e[0..1], &e[1..2]));
        }
        match t[3] {
            "exp=1" => Some(imp == "ok 1"),
            "exp=0" => Some(imp == "ok 0"),
            _ => None,
        }
    }
    fn shrink(&self, req: &str) -> Vec<String> {
        let t: Vec<&str> = req.split(' ').collect();
        if t[0] == "cond2" {
            return vec![];
        }
        let toks = dec_list(t[2]).unwrap();
        let mut out = vec![];
        for i in 0..toks.len() {
            let mut n = toks.clone();
            n.remove(i);
            if !n.is_empty() {
                let plain: Vec<&str> = n.iter().map(|s| if ["and", "or", "(", ")"].contains(&s.as_str()) { s.as_str() } else if TRUTHY.contains(&s.as_str()) { "T" } else { "F" }).collect();
                let exp = parse_eval(&plain);
                out.push(mk(t[1], &n, exp));
            }
        }
        out
    }
    fn describe(&self, req: &str) -> String {
        let t: Vec<&str> = req.split(' ').collect();
        if t[0] == "cond2" {
            return format!("{} {:?} then {:?} on the same thread (expected {})", t[1], dec_list(t[2]).unwrap(), dec_list(t[3]).unwrap(), t[4]);
        }
        format!("{} {:?} (expected {})", t[1], dec_list(t[2]).unwrap(), t[3])
    }
}
