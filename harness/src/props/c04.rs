//! C04: if / elseif / else / while / for-in behave as properly nested structured blocks.
//! Trees are generated here; the Lean specification flattens them into script text and
//! runs the tree-walking interpreter (the property's oracle) and the goto-machine model;
//! the real interpreter runs the same text.
use crate::rng::Rng;
use crate::sdkenv::run_structured;
use crate::wire::*;
use crate::{Case, Prop, Tier};

pub struct C04Prop;
pub static C04: C04Prop = C04Prop;

pub const KW_IF: [&str; 2] = ["if", "std::flowcontrol::If"];
pub const KW_ELIF: [&str; 3] = ["elif", "elseif", "std::flowcontrol::ElseIf"];
pub const KW_ELSE: [&str; 2] = ["else", "std::flowcontrol::Else"];
pub const KW_ENDIF: [&str; 5] = ["end", "end_if", "endif", "fi", "std::flowcontrol::EndIf"];
pub const KW_WHILE: [&str; 2] = ["while", "std::flowcontrol::While"];
pub const KW_ENDWHILE: [&str; 4] = ["end", "end_while", "endwhile", "std::flowcontrol::EndWhile"];
pub const KW_FOR: [&str; 2] = ["for", "std::flowcontrol::ForIn"];
pub const KW_ENDFOR: [&str; 3] = ["end", "end_for", "std::flowcontrol::EndForIn"];

pub const KW_FN: [&str; 3] = ["fn", "function", "std::flowcontrol::Function"];
pub const KW_ENDFN: [&str; 4] = ["end", "end_fn", "end_function", "std::flowcontrol::EndFunction"];
pub const KW_RET: [&str; 2] = ["return", "std::flowcontrol::Return"];

pub struct Gen<'a> {
    pub rng: &'a mut Rng,
    pub next_id: usize,
    pub lines: usize,
    pub max_depth: usize,
    pub loops: usize,
    pub canonical_only: bool,
    /// callable functions: (name, arity, leaf = safe in condition position)
    pub calls: Vec<(String, usize, bool)>,
    /// generating a function body: `return` statements allowed
    pub in_fn: bool,
    /// nesting depth of for-in loops at the current point
    pub in_for: usize,
    /// allow `return` lexically inside a for-in body (known-finding stream)
    pub return_in_for: bool,
    pub made_return_in_for: bool,
}

fn kw(g: &mut Gen, set: &[&'static str]) -> String {
    // mostly the short alias, sometimes any spelling
    if g.canonical_only || g.rng.chance(1, 2) { enc_str(set[0]) } else { enc_str(g.rng.pick_s(set)) }
}

pub fn line(out: Option<&str>, cmd: &str, args: &[String]) -> Vec<String> {
    vec!["L".into(), match out { Some(o) => enc_str(o), None => "-".into() }, enc_str(cmd), enc_list(args)]
}

const FLAGS: [&str; 3] = ["fa", "fb", "fc"];
const VALS: [&str; 4] = ["red", "blue", "7", "x1"];
/// initial values of v0 / v1 only (they reach calls in condition position as bound arguments):
/// blanks together with backslashes, a trailing backslash, an inner quote
const INIT_VALS: [&str; 9] = ["red", "blue", "7", "x1", "C:\\Program Files\\new", "a\\tb c", "tail\\", "it's", "a b"];

/// boolean expression over flags / literals with `and`, `or` and parenthesised groups in every
/// position (first, after `or`, after `and`, nested, empty)
fn gen_bool_expr(g: &mut Gen, depth: usize) -> Vec<String> {
    let n = 1 + g.rng.below(4);
    let mut out: Vec<String> = vec![];
    for i in 0..n {
        if i > 0 {
            out.push(if g.rng.chance(1, 2) { "and".into() } else { "or".into() });
        }
        if depth < 2 && g.rng.chance(1, 3) {
            out.push("(".into());
            if !g.rng.chance(1, 8) {
                out.extend(gen_bool_expr(g, depth + 1));
            }
            out.push(")".into());
        } else {
            out.push(match g.rng.below(4) {
                0 => "true".to_string(),
                1 => "false".to_string(),
                _ => format!("${{{}}}", g.rng.pick_s(&FLAGS)),
            });
        }
    }
    out
}

pub fn gen_cond(g: &mut Gen) -> Vec<String> {
    // conditions whose evaluation is OBSERVABLE: `emit` in command position logs its arguments
    // and yields no value (falsy); `not emit …` is truthy. A condition that is evaluated although
    // the structured reading never reaches it (e.g. an elseif after a branch that already ran)
    // shows up in the trace.
    if g.rng.chance(1, 6) {
        let tag = format!("q{}", g.next_id);
        g.next_id += 1;
        return if g.rng.chance(1, 2) { vec!["emit".into(), tag, "${n0}".into()] } else { vec!["not".into(), "emit".into(), tag, "${v0}".into()] };
    }
    match g.rng.below(9) {
        0 => vec!["true".into()],
        1 => vec!["false".into()],
        2 => vec![format!("${{{}}}", g.rng.pick_s(&FLAGS))],
        3 => vec![format!("${{{}}}", g.rng.pick_s(&FLAGS)), if g.rng.chance(1, 2) { "and".into() } else { "or".into() }, format!("${{{}}}", g.rng.pick_s(&FLAGS))],
        4 => gen_bool_expr(g, 0),
        5 => vec!["equals".into(), "${v0}".into(), g.rng.pick_s(&VALS).to_string()],
        6 => vec!["not".into(), "equals".into(), "${v1}".into(), g.rng.pick_s(&VALS).to_string()],
        7 => vec!["not".into(), format!("${{{}}}", g.rng.pick_s(&FLAGS))],
        _ => {
            let leafs: Vec<(String, usize, bool)> = g.calls.iter().filter(|c| c.2).cloned().collect();
            if !leafs.is_empty() && g.rng.chance(1, 2) {
                let (name, arity, _) = leafs[g.rng.below(leafs.len())].clone();
                let mut v = vec![name];
                for _ in 0..arity { v.push(call_arg(g)); }
                v
            } else {
                vec!["lt".into(), "${n0}".into(), format!("{}", g.rng.below(4))]
            }
        }
    }
}

fn call_arg(g: &mut Gen) -> String {
    match g.rng.below(6) {
        // an argument VALUE that is the NAME of a variable of the caller (a value is not a key:
        // a scoped body must not see that variable because of it)
        5 => g.rng.pick_s(&["v0", "n0", "x", "fa", "v1"]).to_string(),
        0 => "${v0}".to_string(),
        1 => "${n0}".to_string(),
        2 => "${1}".to_string(),
        3 => g.rng.pick_s(&VALS).to_string(),
        _ => g.rng.below(3).to_string(),
    }
}

fn gen_simple(g: &mut Gen, out: &mut Vec<String>) -> usize {
    let id = g.next_id;
    g.next_id += 1;
    g.lines += 1;
    if !g.calls.is_empty() && g.rng.chance(1, 3) {
        let (name, arity, _) = g.calls[g.rng.below(g.calls.len())].clone();
        let args: Vec<String> = (0..arity).map(|_| call_arg(g)).collect();
        let outv = format!("r{}", g.rng.below(2));
        let o = if g.rng.chance(2, 3) { Some(outv.as_str()) } else { None };
        out.extend(line(o, &name, &args));
        return 1;
    }
    if g.in_fn && (g.in_for == 0 || g.return_in_for) && g.rng.chance(1, 5) {
        if g.in_for > 0 { g.made_return_in_for = true; }
        out.push("R".into());
        out.push(kw(g, &KW_RET));
        out.push(match g.rng.below(4) { 0 => "-".to_string(), 1 => enc_str("${1}"), 2 => enc_str("${n0}"), _ => enc_str(g.rng.pick_s(&VALS)) });
        return 1;
    }
    if g.in_fn && g.rng.chance(1, 6) {
        // a body-local variable that has the same name as an output variable callers use
        let local = format!("r{}", g.rng.below(3));
        out.extend(line(Some(&local), "set", &[format!("local-{}", g.rng.pick_s(&VALS))]));
        return 1;
    }
    match g.rng.below(5) {
        0 => out.extend(line(Some(if g.rng.chance(1, 2) { "v0" } else { "v1" }), "set", &[g.rng.pick_s(&VALS).to_string()])),
        1 => out.extend(line(Some("n0"), "inc", &["${n0}".to_string()])),
        2 => out.extend(line(Some(g.rng.pick_s(&FLAGS)), "set", &[if g.rng.chance(1, 2) { "true".to_string() } else { "false".to_string() }])),
        _ => out.extend(line(None, "emit", &[format!("e{}", id), "${v0}".into(), "${n0}".into(), "${x}".into()])),
    }
    1
}

pub fn gen_block(g: &mut Gen, depth: usize, out: &mut Vec<String>) {
    let n = if depth == 0 { 1 + g.rng.below(5) } else { g.rng.below(4) };
    let mut stmts: Vec<Vec<String>> = vec![];
    for _ in 0..n {
        if g.lines > 55 {
            break;
        }
        let mut s = vec![];
        let k = g.rng.below(10);
        if depth >= g.max_depth || k < 4 {
            gen_simple(g, &mut s);
            stmts.push(s);
        } else if k < 7 {
            // if chain
            s.push("I".into());
            s.push(kw(g, &KW_IF));
            s.push(enc_list(&gen_cond(g)));
            g.lines += 2;
            gen_block(g, depth + 1, &mut s);
            let ne = g.rng.below(3);
            s.push(format!("E{}", ne));
            for _ in 0..ne {
                s.push(kw(g, &KW_ELIF));
                s.push(enc_list(&gen_cond(g)));
                g.lines += 1;
                gen_block(g, depth + 1, &mut s);
            }
            if g.rng.chance(1, 2) {
                s.push(format!("X{}", kw(g, &KW_ELSE)));
                g.lines += 1;
                gen_block(g, depth + 1, &mut s);
            } else {
                s.push("X-".into());
            }
            s.push(kw(g, &KW_ENDIF));
            stmts.push(s);
        } else if k < 8 && g.loops < 5 {
            // counter-driven while: c = set 0 ; while lt ${c} N … c = inc ${c} end
            g.loops += 1;
            let c = format!("c{}", g.next_id);
            g.next_id += 1;
            // mostly 0-3 iterations; sometimes many (stale call-stack entries pile up: one per execution)
            let bound = if g.loops == 1 && g.rng.chance(1, 8) { 33 + g.rng.below(12) } else { g.rng.below(4) };
            stmts.push(line(Some(&c), "set", &["0".to_string()]));
            g.lines += 4;
            s.push("W".into());
            s.push(kw(g, &KW_WHILE));
            let cond = match g.rng.below(3) {
                0 => vec!["lt".to_string(), format!("${{{}}}", c), bound.to_string()],
                1 => vec!["not".to_string(), "equals".to_string(), format!("${{{}}}", c), bound.to_string()],
                _ => vec!["lt".to_string(), format!("${{{}}}", c), bound.to_string(), "and".to_string(), "true".to_string()],
            };
            // note: the third form is a command condition whose extra arguments are ignored by lt? no: lt takes exactly 2
            let cond = if cond.len() > 3 && cond[0] == "lt" { vec!["lt".to_string(), format!("${{{}}}", c), bound.to_string()] } else { cond };
            s.push(enc_list(&cond));
            // body = generated block + the increment as last statement
            let mut body = vec![];
            gen_block(g, depth + 1, &mut body);
            // splice increment: body is "B<n> stmts"; rebuild with n+1
            let nb: usize = body[0][1..].parse().unwrap();
            body[0] = format!("B{}", nb + 1);
            body.extend(line(Some(&c), "inc", &[format!("${{{}}}", c)]));
            s.extend(body);
            s.push(kw(g, &KW_ENDWHILE));
            stmts.push(s);
        } else if g.loops < 5 {
            g.loops += 1;
            let h = format!("h{}", g.next_id);
            g.next_id += 1;
            // items: mostly plain words; sometimes the empty string or a text with a blank
            let items: Vec<String> = (0..g.rng.below(4)).map(|i| match g.rng.below(8) { 0 => String::new(), 1 => format!("it {}", i), _ => format!("it{}", i) }).collect();
            if g.rng.chance(1, 3) {
                stmts.push(line(Some(&h), "range", &["0".to_string(), g.rng.below(4).to_string()]));
            } else {
                stmts.push(line(Some(&h), "array", &items));
            }
            g.lines += 3;
            s.push("F".into());
            s.push(kw(g, &KW_FOR));
            // the loop variable: `x`; one loop in eight uses the legal name `in`
            s.push(enc_str(if g.rng.chance(1, 8) { "in" } else { "x" }));
            s.push(enc_str(&format!("${{{}}}", h)));
            g.in_for += 1;
            gen_block(g, depth + 1, &mut s);
            g.in_for -= 1;
            s.push(kw(g, &KW_ENDFOR));
            stmts.push(s);
        } else {
            gen_simple(g, &mut s);
            stmts.push(s);
        }
    }
    out.push(format!("B{}", stmts.len()));
    for s in stmts {
        out.extend(s);
    }
}

pub fn init_vars(rng: &mut Rng) -> String {
    let mut v = vec![];
    for f in FLAGS {
        // (values with blanks around a falsy word are truthy: only the exact words are falsy)
        v.push(format!("{}={}", enc_str(f), enc_str(rng.pick_s(&["true", "false", "0", "yes", "no", "", "abc", " ", " no ", "0 ", "\u{3000}", "No", "FALSE"]))));
    }
    v.push(format!("{}={}", enc_str("v0"), enc_str(rng.pick_s(&INIT_VALS))));
    v.push(format!("{}={}", enc_str("v1"), enc_str(rng.pick_s(&INIT_VALS))));
    v.push(format!("{}={}", enc_str("n0"), enc_str(&rng.below(3).to_string())));
    v.sort();
    v.join(",")
}

pub fn run_impl_structured(req: &str, model: &str) -> String {
    let t: Vec<&str> = req.split(' ').collect();
    let m: Vec<&str> = model.split(' ').collect();
    if (m.len() != 3 && m.len() != 4) || !m[0].starts_with('T') {
        return format!("no-model-output {}", model);
    }
    let text = dec_str(&m[0][1..]).unwrap();
    let vars = crate::scripted::dec_vars(t[2]);
    // the malformed-structure stream (fuel 2000) may produce programs that never end: a short
    // watchdog, and the answer `stopped` does not count as a slow case
    let malformed = t[0] == "c04raw" && t.get(3) == Some(&"2000");
    let mut out = if malformed { crate::sdkenv::run_structured_short(&text, &vars, 200) } else { run_structured(&text, &vars) };
    if out == "timeout" && std::env::var("VERIF_DEBUG_TIMEOUT").is_ok() {
        eprintln!("TIMEOUT-CASE vars={:?}\n{}", vars, text);
    }
    if malformed && out == "timeout" {
        out = if m[1] == "M:fuel" { "fuel".to_string() } else { "stopped".to_string() };
    }
    format!("{} M:{} {}", m[0], out.replace(' ', "_"), m[2..].join(" "))
}

pub fn relation_structured(model: &str, imp: &str) -> Option<bool> {
    // the property's own relation: implementation outcome = tree interpreter outcome
    let i: Vec<&str> = imp.split(' ').collect();
    if i.len() != 3 && i.len() != 4 {
        return Some(false);
    }
    let m: Vec<&str> = model.split(' ').collect();
    // C05: where the literal reading of the clause about calls that end without a value differs
    // from the tree interpretation (`S2:`, lean/DuckModel/Spec/StrictEnd.lean), it is the demand
    if let Some(s2) = m.get(3).and_then(|x| x.strip_prefix("S2:")) {
        let got = i[1].strip_prefix("M:")?;
        return Some(got == s2);
    }
    let spec = m.get(2)?.strip_prefix("S:")?;
    if spec == "fuel" {
        return None;
    }
    let got = i[1].strip_prefix("M:")?;
    if spec == "fail" {
        // a program whose tree interpretation fails (a condition that errors, an unknown
        // command) is outside the domain of well-formed structured programs
        return None;
    }
    Some(got == spec)
}

pub fn shrink_tree(req: &str) -> Vec<String> {
    // drop one top-level statement at a time (statement boundaries are found by a tiny parser)
    let t: Vec<&str> = req.split(' ').collect();
    let toks: Vec<&str> = t[1].split(';').collect();
    fn skip_stmt(tk: &[&str], mut i: usize) -> usize {
        match tk[i] {
            "L" => i + 4,
            "I" => {
                i += 3;
                i = skip_block(tk, i);
                let k: usize = tk[i][1..].parse().unwrap();
                i += 1;
                for _ in 0..k {
                    i += 2;
                    i = skip_block(tk, i);
                }
                if tk[i] == "X-" { i += 1; } else { i += 1; i = skip_block(tk, i); }
                i + 1
            }
            "W" => { i += 3; i = skip_block(tk, i); i + 1 }
            "F" => { i += 4; i = skip_block(tk, i); i + 1 }
            "D" => { i += 4; i = skip_block(tk, i); i + 1 }
            "R" => i + 3,
            _ => tk.len(),
        }
    }
    fn skip_block(tk: &[&str], i: usize) -> usize {
        let n: usize = tk[i][1..].parse().unwrap();
        let mut j = i + 1;
        for _ in 0..n {
            j = skip_stmt(tk, j);
        }
        j
    }
    let mut out = vec![];
    // all blocks: try removing each statement of each block
    let mut i = 0;
    while i < toks.len() {
        if toks[i].starts_with('B') && toks[i][1..].chars().all(|c| c.is_ascii_digit()) && toks[i].len() > 1 {
            let n: usize = toks[i][1..].parse().unwrap();
            let mut j = i + 1;
            for _ in 0..n {
                let e = skip_stmt(&toks, j);
                if e > toks.len() { break; }
                let mut nt: Vec<String> = toks.iter().map(|s| s.to_string()).collect();
                nt[i] = format!("B{}", n - 1);
                nt.drain(j..e);
                out.push(format!("{} {} {} {}", t[0], nt.join(";"), t[2], t[3]));
                j = e;
            }
        }
        i += 1;
    }
    out
}

pub fn describe_tree(model_or_req: &str) -> String {
    model_or_req.chars().take(200).collect()
}

/// every name and alias registered by the real SDK (read from the real registry at run time)
pub fn registry_names() -> Vec<String> {
    let ctx = crate::sdkenv::sdk_context();
    let mut v: Vec<String> = ctx.commands.commands.keys().cloned().collect();
    v.extend(ctx.commands.aliases.keys().cloned());
    v.sort();
    v.dedup();
    v
}

/// Keyword-classification probes (fixed cases): for every registered command name / alias N and
/// each of the four block scanners (if, while, for-in, function definition), flat line
/// sequences in which N stands in a region the scanner has to skip — directly inside the
/// block, inside a nested block of another kind, inside a nested block of the same kind — and
/// `emit` lines after each of several generic `end`s show where the scanner decided the block
/// ended and which `else` it picked.  The Lean goto machine (its scanners driven by the
/// keyword tables of Generated/FlowTables.lean) and the real interpreter must agree on every
/// one: a keyword table that differs between the code and the model in ANY registered name is
/// exposed without relying on the source shape of the code that builds the tables.
pub fn keyword_probes() -> Vec<Case> {
    let names = registry_names();
    let e = |s: &str| s.to_string();
    // opener lines per scanner: (tag, opener line, an opener of another kind, same kind again)
    let openers: Vec<(&str, Vec<String>, Vec<String>, Vec<String>)> = vec![
        ("if", line(None, "if", &[e("false")]), line(None, "while", &[e("false")]), line(None, "if", &[e("false")])),
        ("while", line(None, "while", &[e("false")]), line(None, "if", &[e("false")]), line(None, "while", &[e("false")])),
        ("for", line(None, "for", &[e("x"), e("in"), e("${nohandle}")]), line(None, "if", &[e("false")]), line(None, "for", &[e("y"), e("in"), e("${nohandle}")])),
        ("fn", line(None, "fn", &[e("probe_fn")]), line(None, "while", &[e("false")]), line(None, "if", &[e("false")])),
    ];
    let emit = |t: &str| line(None, "emit", &[e(t)]);
    let end = || line(None, "end", &[]);
    let mut out = vec![];
    for n in &names {
        if n == "emit" || n == "inc" || n == "lt" {
            continue;
        }
        for (tag, open, other, same) in &openers {
            let nl = line(None, n, &[]);
            let tail: Vec<Vec<String>> = vec![emit("a"), end(), emit("b"), end(), emit("c"), end(), emit("d")];
            let shapes: Vec<Vec<Vec<String>>> = vec![
                // directly inside the block
                [vec![open.clone(), nl.clone()], tail.clone()].concat(),
                // inside a nested block of another kind
                [vec![open.clone(), other.clone(), nl.clone()], tail.clone()].concat(),
                // inside a nested block of the same kind (for `fn`: another block kind again)
                [vec![open.clone(), same.clone(), nl.clone()], tail.clone()].concat(),
                // followed by an `else`: which block does it belong to?
                [vec![open.clone(), nl.clone(), emit("p"), line(None, "else", &[]), emit("q")], tail.clone()].concat(),
            ];
            for (k, sh) in shapes.iter().enumerate() {
                let mut toks = vec![format!("B{}", sh.len())];
                for l in sh {
                    toks.extend(l.clone());
                }
                out.push(Case { req: format!("c04raw {} - 400", toks.join(";")), in_domain: false, nontrivial: false, tags: vec![if k == 0 { "kwprobe" } else { "kwprobe-nested" }, tag] });
            }
        }
    }
    out
}

/// Flat line sequences that are NOT well nested (missing / surplus / wrong-kind terminators, an
/// `else` after an `else`, an `elif` after it, stray `return` / `end_fn`, blocks opened inside a
/// block and closed outside it): outside the property's domain, so only the goto-machine model
/// and the real interpreter are compared — this is what ties the ERROR paths of the block
/// scanners and of the call stacks (`End of … block not found`, `Unsupported nested structure`,
/// a terminator met with an empty or foreign call stack) to the model.
pub fn malformed_program(rng: &mut Rng) -> Case {
    let e = |s: &str| s.to_string();
    let n = 2 + rng.below(9);
    let mut ls: Vec<Vec<String>> = vec![line(Some("arr"), "array", &[e("a"), e("b")])];
    let conds = ["true", "false", "${fa}", "${fb}"];
    let mut k = 0;
    for _ in 0..n {
        k += 1;
        let c = e(rng.pick_s(&conds));
        let l = match rng.below(16) {
            0 | 1 => line(None, rng.pick_s(&KW_IF), &[c]),
            2 => line(None, rng.pick_s(&KW_ELIF), &[c]),
            3 => line(None, rng.pick_s(&KW_ELSE), &[]),
            4 | 5 => line(None, rng.pick_s(&["end", "end", "end_if", "fi", "end_while", "endwhile", "end_for", "end_fn", "std::flowcontrol::EndIf"]), &[]),
            6 => {
                // (a loop that is entered switches its own flag off first: no endless runs)
                if rng.chance(1, 2) {
                    ls.push(line(None, rng.pick_s(&KW_WHILE), &[e("${fw}")]));
                    line(Some("fw"), "set", &[e("false")])
                } else {
                    line(None, rng.pick_s(&KW_WHILE), &[e("false")])
                }
            }
            7 => line(None, rng.pick_s(&KW_FOR), &[e("x"), e("in"), e(rng.pick_s(&["${arr}", "${nohandle}"]))]),
            8 => line(Some(rng.pick_s(&["fa", "fb"])), "set", &[e("false")]),
            9 => line(None, rng.pick_s(&KW_FN), &[e("g")]),
            10 => line(None, rng.pick_s(&KW_RET), &if rng.chance(1, 2) { vec![e("r")] } else { vec![] }),
            _ => line(None, "emit", &[format!("t{}", k)]),
        };
        ls.push(l);
    }
    // the call comes last, outside whatever body the definition got (no recursion)
    if rng.chance(1, 2) {
        ls.push(line(if rng.chance(1, 2) { Some("o") } else { None }, "g", &[]));
    }
    ls.push(line(None, "emit", &[e("last")]));
    let mut toks = vec![format!("B{}", ls.len())];
    for l in &ls {
        toks.extend(l.clone());
    }
    let mut vs: Vec<String> = init_vars(rng).split(',').map(|x| x.to_string()).collect();
    vs.push(format!("{}={}", enc_str("fw"), enc_str("true")));
    vs.sort();
    let vars = vs.join(",");
    Case { req: format!("c04raw {} {} 2000", toks.join(";"), vars), in_domain: false, nontrivial: false, tags: vec!["malformed-structure"] }
}

/// a taken `if` branch whose body executes an inner `if … end` block `n` times before the outer
/// `else` line is reached (every execution leaves an entry on the if call stack): the `else`
/// must still find the outer block's entry
pub fn deep_if_stack_case(n: usize, outer_true: bool) -> Case {
    let e = |s: &str| s.to_string();
    let mut t: Vec<String> = vec![e("B2")];
    t.extend(line(Some("h"), "range", &[e("0"), n.to_string()]));
    t.push(e("I")); t.push(enc_str("if")); t.push(enc_list(&[e(if outer_true { "true" } else { "false" })]));
    t.push(e("B2"));
    t.push(e("F")); t.push(enc_str("for")); t.push(enc_str("x")); t.push(enc_str("${h}"));
    t.push(e("B1"));
    t.push(e("I")); t.push(enc_str("if")); t.push(enc_list(&[e("true")]));
    t.push(e("B1")); t.extend(line(Some("n0"), "inc", &[e("${n0}")]));
    t.push(e("E0")); t.push(e("X-")); t.push(enc_str("end"));
    t.push(enc_str("end"));
    t.extend(line(None, "emit", &[e("then-done"), e("${n0}")]));
    t.push(e("E0"));
    t.push(format!("X{}", enc_str("else")));
    t.push(e("B1")); t.extend(line(None, "emit", &[e("else-ran")]));
    t.push(enc_str("end"));
    let vars = format!("{}={}", enc_str("n0"), enc_str("0"));
    Case { req: format!("c04 {} {} 400000", t.join(";"), vars), in_domain: true, nontrivial: true, tags: vec!["deep-call-stack", "if", "for"] }
}

/// a `while` line whose condition, after binding, starts with a plain VALUE on the first evaluation and
/// with a COMMAND on the next (`%{cnd}` spreads `true`, then `not true`): every evaluation decides anew;
/// the same through `if` inside the loop, which must agree with the loop on every pass
pub fn flipping_condition_case(start: &str, next: &str) -> Case {
    let e = |s: &str| s.to_string();
    let mut t: Vec<String> = vec![e("B2")];
    t.push(e("W")); t.push(enc_str("while")); t.push(enc_list(&[e("%{cnd}")])); t.push(e("B3"));
    t.extend(line(Some("n0"), "inc", &[e("${n0}")]));
    t.extend(line(None, "emit", &[e("pass"), e("${n0}"), e("${cnd}")]));
    t.extend(line(Some("cnd"), "set", &[e("${alt}")]));
    t.push(enc_str("end"));
    t.extend(line(None, "emit", &[e("after"), e("${n0}")]));
    let mut vars = vec![format!("{}={}", enc_str("cnd"), enc_str(start)), format!("{}={}", enc_str("alt"), enc_str(next)), format!("{}={}", enc_str("n0"), enc_str("0"))];
    vars.sort();
    Case { req: format!("c04 {} {} 4000", t.join(";"), vars.join(",")), in_domain: true, nontrivial: true, tags: vec!["flipping-condition", "while"] }
}

impl Prop for C04Prop {
    fn id(&self) -> &'static str {
        "C04"
    }
    fn fixed_cases(&self, _tier: Tier) -> Vec<Case> {
        let mut out = keyword_probes();
        // thresholds: 40 / 300 / 1100 / 2100 entries above the outer block's entry
        for n in [40usize, 300, 1100, 2100] {
            out.push(deep_if_stack_case(n, true));
        }
        out.push(deep_if_stack_case(1100, false));
        out.push(flipping_condition_case("true", "not true"));
        out.push(flipping_condition_case("yes", "equals a b"));
        out.push(flipping_condition_case("not false", "false"));
        out
    }
    fn rule(&self) -> &'static str {
        "random well-nested program trees (depth <= 4, <= ~60 lines): if/elseif/else chains (0-2 elseif, optional else), counter-driven while loops (0-3 iterations, incl. zero), for-in over array/range handles (0-3 elements), straight-line set/inc/emit commands; every keyword spelled by a random alias or the full command name, blocks closed by the generic 'end' or the specific end command; conditions as values, boolean expressions with groups, commands (equals, lt) and negated commands/values; random truthy/falsy initial flags. The Lean specification flattens the tree to script text and runs the tree-walking interpreter (oracle); the real interpreter runs the same text. Observed: emit trace with argument values, final variables (handles canonicalised). Non-trivial = nesting depth >= 2 and at least one loop; distinct = distinct request."
    }
    fn budget(&self, tier: Tier) -> usize {
        match tier {
            Tier::Quick => 4_000,
            Tier::Thorough => 300_000,
        }
    }
    fn generate(&self, rng: &mut Rng, _tier: Tier) -> Case {
        if rng.chance(1, 5) {
            return malformed_program(rng);
        }
        let vars = init_vars(rng);
        let mut g = Gen { rng, next_id: 0, lines: 0, max_depth: 4, loops: 0, canonical_only: false, calls: vec![], in_fn: false, in_for: 0, return_in_for: false, made_return_in_for: false };
        let mut toks = vec![];
        gen_block(&mut g, 0, &mut toks);
        let deep = toks.iter().filter(|t| *t == "I" || *t == "W" || *t == "F").count() >= 2;
        let loops = g.loops;
        let mut tags = vec![];
        if toks.iter().any(|t| t == "I") { tags.push("if"); }
        if toks.iter().any(|t| t == "W") { tags.push("while"); }
        if toks.iter().any(|t| t == "F") { tags.push("for"); }
        if toks.iter().any(|t| t.starts_with("E") && t != "E0" && t[1..].chars().all(|c| c.is_ascii_digit())) { tags.push("elseif"); }
        Case { req: format!("c04 {} {} 200000", toks.join(";"), vars), in_domain: true, nontrivial: deep && loops >= 1, tags }
    }
    fn run_impl(&self, req: &str, model: &str) -> String {
        run_impl_structured(req, model)
    }
    fn relation(&self, _req: &str, model: &str, imp: &str) -> Option<bool> {
        relation_structured(model, imp)
    }
    fn outcome_kind(&self, imp: &str) -> String {
        imp.split(' ').nth(1).map(|s| s.trim_start_matches("M:").split('_').next().unwrap_or("").to_string()).unwrap_or("odd".into())
    }
    fn shrink(&self, req: &str) -> Vec<String> {
        if req.starts_with("c04raw ") {
            // keyword probes are minimal by construction; dropping lines would execute the probed
            // command, which the model does not implement
            return vec![];
        }
        shrink_tree(req)
    }
    fn describe(&self, req: &str) -> String {
        format!("structured program tree {}", describe_tree(req))
    }
}
