//! C16: text, comparison, case-mapping, arithmetic and range commands compute the documented
//! function (one unit: bytes).  Case tables / calc helpers: c16ext.rs.
use super::c16ext as x;
use super::c16f64 as fl;
use crate::rng::Rng;
use crate::sdkenv::*;
use crate::wire::*;
use crate::{Case, Prop, Tier};
use duckscript::types::command::CommandResult;
use duckscript::types::runtime::StateValue;

pub struct C16Prop;
pub static C16: C16Prop = C16Prop;

const ALPHA: [char; 12] = ['a', 'b', 'a', 'b', ' ', ',', 'é', '漢', '😀', 'A', 'z', '\t'];
const SWEEP: [&str; 8] = ["", "a", "abc", "aé漢", "é", "😀b", "ab ab", "漢漢"];
const INTS: [&str; 30] = [
    "", "+", "-", "+1", "-1", " 1", "1 ", "1.0", "abc", "9223372036854775807", "9223372036854775808",
    "-9223372036854775808", "-9223372036854775809", "0x1", "١", "+-1", "00", "-0", "+0", "007", "1e2",
    "１", "1_0", "--1", "0", "1", "2", "3", "99999999999999999999", "-",
];
const FLOATS: [&str; 44] = [
    "1", "1.", ".5", ".", "1e5", "1e", "inf", "-inf", "NaN", "nan", "infinity", "+1.5", "-0", "0", "1_0",
    " 1", "1.5.2", "1e+5", "1E-5", "e5", "+", "-", "", "0x10", "１", "1.0", "1.00", "0.1", "0.10", "-0.5",
    "123456789012345", "1234567890123456", "-.5", "+.5", "-1.", "00.5", "0.000000000000001", "Infinity",
    "infinit", "+inf", "+-1", "1e+", "abc", "-2",
];
const TEXT2: [&str; 17] = [
    "length", "indexof", "last_indexof", "contains", "starts_with", "ends_with", "equals", "is_empty", "concat",
    "replace", "split", "trim", "trim_start", "trim_end", "substring", "uppercase", "lowercase",
];

fn mk(cmd: &str, args: &[String]) -> String {
    format!("str {} {}", cmd, enc_list(args))
}
fn parse_req(req: &str) -> (String, Vec<String>) {
    let t: Vec<&str> = req.split(' ').collect();
    (t[1].to_string(), dec_list(t[2]).unwrap())
}

fn gen_str(rng: &mut Rng, max: usize) -> String {
    // one string in forty is long (thresholds and buffers inside searchers / splitters)
    let max = if rng.chance(1, 40) { max * 30 + 40 } else { max };
    let n = rng.below(max + 1);
    (0..n).map(|_| *rng.pick(&ALPHA)).collect()
}
/// a needle: often a real piece of the haystack, sometimes longer than it
fn gen_needle(rng: &mut Rng, hay: &str) -> String {
    let chars: Vec<char> = hay.chars().collect();
    match rng.below(6) {
        0 | 1 | 2 if !chars.is_empty() => {
            let a = rng.below(chars.len());
            let b = a + 1 + rng.below((chars.len() - a).min(3));
            chars[a..b.min(chars.len())].iter().collect()
        }
        3 => format!("{}{}", hay, gen_str(rng, 2)),
        4 => String::new(),
        _ => gen_str(rng, 3),
    }
}
fn gen_ws_str(rng: &mut Rng) -> String {
    let n = rng.below(7);
    (0..n)
        .map(|_| if rng.chance(1, 2) { *rng.pick(&crate::pools::WS) } else { *rng.pick(&ALPHA) })
        .collect()
}
fn gen_int(rng: &mut Rng, len: i64) -> String {
    match rng.below(10) {
        0 => rng.pick_s(&INTS).to_string(),
        1 => format!("+{}", rng.range(0, len + 2)),
        _ => rng.range(-2, len + 2).to_string(),
    }
}
fn gen_dec(rng: &mut Rng) -> String {
    match rng.below(8) {
        0 => rng.pick_s(&FLOATS).to_string(),
        1 | 2 => rng.range(-1000, 1000).to_string(),
        3 => rng.range(-999_999_999_999_999, 999_999_999_999_999).to_string(),
        _ => {
            let ip = rng.range(0, 999);
            let fd = rng.below(6);
            let fp: String = (0..fd).map(|_| (b'0' + rng.below(10) as u8) as char).collect();
            let sign = ["", "", "-", "+"][rng.below(4)];
            if fd == 0 && rng.chance(1, 2) { format!("{}{}", sign, ip) } else if rng.chance(1, 8) { format!("{}.{}", sign, fp) } else { format!("{}{}.{}", sign, ip, fp) }
        }
    }
}

/// the same decimal with its last digit moved by one (stays a plain decimal)
fn bump_last_digit(a: &str, rng: &mut Rng) -> String {
    let mut cs: Vec<char> = a.chars().collect();
    if let Some(i) = cs.iter().rposition(|c| c.is_ascii_digit()) {
        let d = cs[i].to_digit(10).unwrap();
        let nd = if d == 9 { 8 } else if d == 0 { 1 } else if rng.chance(1, 2) { d + 1 } else { d - 1 };
        cs[i] = char::from_digit(nd, 10).unwrap();
    }
    cs.into_iter().collect()
}

fn set_args(ctx: &mut duckscript::types::runtime::Context, args: &[String]) -> Vec<String> {
    let mut out = vec![];
    for (i, a) in args.iter().enumerate() {
        ctx.variables.insert(format!("a{}", i), a.clone());
        out.push(format!("${{a{}}}", i));
    }
    out
}

fn read_array(ctx: &duckscript::types::runtime::Context, handle: &str) -> Option<Vec<String>> {
    match ctx.state.get("handles") {
        Some(StateValue::SubState(m)) => match m.get(handle) {
            Some(StateValue::List(l)) => Some(
                l.iter()
                    .map(|v| match v {
                        StateValue::String(s) => s.clone(),
                        StateValue::Number64Bit(n) => n.to_string(),
                        other => format!("?{:?}", other),
                    })
                    .collect(),
            ),
            _ => None,
        },
        _ => None,
    }
}

/// run one SDK command for real
fn run_cmd(cmd: &str, args: &[String]) -> String {
    let mut ctx = sdk_context();
    let written = set_args(&mut ctx, args);
    // the caller may own variables named like a script command's working variables, and the
    // output variable may already hold something (a text, a live array handle): neither is an
    // input of the command
    let h = crate::hash_str(&format!("{} {:?}", cmd, args));
    if h % 3 == 0 {
        for w in ["output", "value", "index", "counter", "length", "argument::1"] {
            ctx.variables.insert(format!("scope::{}::{}", cmd, w), "CALLER".to_string());
        }
    }
    if h % 5 == 0 {
        ctx.variables.insert("out".to_string(), "old".to_string());
    } else if h % 5 == 1 {
        if let (CommandResult::Continue(Some(old)), _) = run_one(&mut ctx, "array", vec!["kept".to_string(), "array".to_string()], Some("out".into())) {
            ctx.variables.insert("out".to_string(), old.clone());
            ctx.variables.insert("keeper".to_string(), old);
        }
    }
    // recorded finding C16/concat-no-arguments-reads-caller-variable: a `concat` WITHOUT arguments
    // called while the caller owns a variable `scope::concat::arguments` holding an array handle
    if cmd == "concat" && args.is_empty() {
        if let (CommandResult::Continue(Some(hd)), _) = run_one(&mut ctx, "array", vec!["a".to_string(), "b".to_string(), "c".to_string()], Some("tmp_h".into())) {
            ctx.variables.insert("scope::concat::arguments".to_string(), hd);
        }
    }
    // a text command given the HANDLE of a live, empty collection sees a 27-character text
    // (the literal argument `handle:EMPTY-<kind>` stands for such a handle: same answers for
    // is_empty / contains / starts_with "handle:" whatever the 20 random characters are)
    for (j, a) in args.iter().enumerate() {
        let kind = match a.as_str() { "handle:EMPTY-array" => Some("array"), "handle:EMPTY-map" => Some("map"), "handle:EMPTY-set" => Some("set_new"), _ => None };
        if let Some(k) = kind {
            if let (CommandResult::Continue(Some(hd)), _) = run_one(&mut ctx, k, vec![], Some(format!("empty{}", j))) {
                ctx.variables.insert(format!("a{}", j), hd.clone());
            }
        }
    }
    let res = run_one(&mut ctx, cmd, written, Some("out".into())).0;
    // an array the caller kept from before the call is still what it was
    if let Some(k) = ctx.variables.get("keeper").cloned() {
        if read_array(&ctx, &k) != Some(vec!["kept".to_string(), "array".to_string()]) {
            return format!("caller-array-changed {:?}", read_array(&ctx, &k));
        }
    }
    match res {
        CommandResult::Continue(Some(v)) => {
            if cmd == "split" || cmd == "range" {
                match read_array(&ctx, &v) {
                    Some(items) => format!("arr {}", enc_list(&items)),
                    None => format!("odd-handle {}", enc_str(&v)),
                }
            } else {
                format!("ok {}", enc_str(&v))
            }
        }
        CommandResult::Continue(None) => "ok -".into(),
        CommandResult::Error(_) => "err".into(),
        other => format!("odd {}", enc_str(&format!("{:?}", other))),
    }
}

// ---- independent reference computations on bytes (for `relation`) ----
fn naive_find(h: &[u8], p: &[u8]) -> Option<usize> {
    if p.len() > h.len() {
        return None;
    }
    (0..=h.len() - p.len()).find(|&i| &h[i..i + p.len()] == p)
}
fn naive_rfind(h: &[u8], p: &[u8]) -> Option<usize> {
    if p.len() > h.len() {
        return None;
    }
    (0..=h.len() - p.len()).rev().find(|&i| &h[i..i + p.len()] == p)
}
fn boundary(s: &str, i: usize) -> bool {
    i == 0 || i == s.len() || (i < s.len() && (s.as_bytes()[i] & 0xC0) != 0x80)
}
fn strict_i64(s: &str) -> Option<i64> {
    let b = s.as_bytes();
    let (neg, d) = match b.first() {
        Some(b'-') => (true, &b[1..]),
        Some(b'+') => (false, &b[1..]),
        _ => (false, b),
    };
    if d.is_empty() || !d.iter().all(|c| c.is_ascii_digit()) {
        return None;
    }
    let mut v: i128 = 0;
    for c in d {
        v = v * 10 + (*c - b'0') as i128;
        if v > (1i128 << 64) {
            return None;
        }
    }
    let v = if neg { -v } else { v };
    if v < i64::MIN as i128 || v > i64::MAX as i128 { None } else { Some(v as i64) }
}
/// plain decimal of at most 15 digits: (signed mantissa, scale)
fn small_dec(s: &str) -> Option<(i128, u32)> {
    let b = s.as_bytes();
    let (neg, d) = match b.first() {
        Some(b'-') => (true, &b[1..]),
        Some(b'+') => (false, &b[1..]),
        _ => (false, b),
    };
    let mut m: i128 = 0;
    let mut digits = 0;
    let mut scale = 0u32;
    let mut seen_dot = false;
    for c in d {
        if *c == b'.' && !seen_dot {
            seen_dot = true;
        } else if c.is_ascii_digit() {
            digits += 1;
            if digits > 15 {
                return None;
            }
            m = m * 10 + (*c - b'0') as i128;
            if seen_dot {
                scale += 1;
            }
        } else {
            return None;
        }
    }
    if digits == 0 || digits > 15 { None } else { Some((if neg { -m } else { m }, scale)) }
}
fn ok_bytes(imp: &str) -> Option<Vec<u8>> {
    let v = imp.strip_prefix("ok ")?;
    dec_str(v).map(|s| s.into_bytes())
}
fn ok_bool(imp: &str) -> Option<bool> {
    match ok_bytes(imp)?.as_slice() {
        b"true" => Some(true),
        b"false" => Some(false),
        _ => None,
    }
}
fn ok_opt_num(imp: &str) -> Option<Option<usize>> {
    if imp == "ok -" {
        return Some(None);
    }
    String::from_utf8(ok_bytes(imp)?).ok()?.parse().ok().map(Some)
}

fn domain(cmd: &str, args: &[String]) -> bool {
    match cmd {
        "substring" if args.len() >= 2 => {
            // an index equal to the length is left unconstrained by the property
            let len = args[0].len() as i64;
            !args[1..].iter().take(2).any(|a| strict_i64(a) == Some(len))
        }
        _ => true,
    }
}
fn case_of(cmd: &str, args: Vec<String>, tag: &'static str) -> Case {
    let d = domain(cmd, &args);
    let nontrivial = args.iter().any(|a| !a.is_empty());
    Case { req: mk(cmd, &args), in_domain: d, nontrivial, tags: vec![tag, if args.iter().any(|a| !a.is_ascii()) { "multi-byte" } else { "ascii" }] }
}
/// run the real `calc`: Ok(printed text) | Err(()) for the error result
fn run_calc(args: &[String]) -> Result<String, String> {
    let mut ctx = sdk_context();
    let written = set_args(&mut ctx, args);
    match run_one(&mut ctx, "calc", written, Some("out".into())).0 {
        CommandResult::Continue(Some(v)) => Ok(v),
        CommandResult::Error(_) => Err("ERR".into()),
        other => Err(format!("odd {}", enc_str(&format!("{:?}", other)))),
    }
}
fn calc_args(req: &str) -> Vec<String> {
    dec_list(req.split(' ').nth(1).unwrap_or("[]")).unwrap_or_default()
}
fn calc_case(args: Vec<String>, tag: &'static str) -> Case {
    let mut tags = vec!["calc", tag];
    if let Some(e) = x::read_text(&args.join(" ")) {
        match x::eval(&e) {
            Err(()) => tags.push("calc:i64-overflow"),
            Ok(ev) => {
                let v = ev.v.f();
                tags.push(if !v.is_finite() { "calc:non-finite" } else if v.abs() >= 9.3e18 { "calc:beyond-2^63" } else if v.abs() >= 9.1e15 { "calc:beyond-2^53" } else if v == 0.0 { "calc:zero" } else if v.fract() != 0.0 { "calc:fraction" } else { "calc:whole" });
                if v < 0.0 {
                    tags.push("calc:negative");
                }
            }
        }
    }
    Case { req: format!("calc {}", enc_list(&args)), in_domain: true, nontrivial: !args.is_empty(), tags }
}
fn bits_case(lit: &str, tag: &'static str) -> Case {
    Case { req: format!("f64bits {}", enc_str(lit)), in_domain: true, nontrivial: !lit.is_empty(), tags: vec!["f64bits", tag] }
}
fn float_tags(a: &str) -> &'static str {
    match a.parse::<f64>() {
        Err(_) => "f64:rejected",
        Ok(v) if v.is_nan() => "f64:nan",
        Ok(v) if v.is_infinite() => if fl::read_exact(a).map(|e| matches!(e, fl::Exact::Inf(_))).unwrap_or(false) { "f64:inf-literal" } else { "f64:overflow" },
        Ok(v) if v == 0.0 => if fl::read_exact(a).map(|e| matches!(e, fl::Exact::Dec(_, ref s, _) if s.is_empty())).unwrap_or(false) { "f64:zero" } else { "f64:underflow" },
        Ok(v) if v.abs() < f64::MIN_POSITIVE => "f64:subnormal",
        Ok(_) => if a.len() > 17 { "f64:long" } else { "f64:normal" },
    }
}
fn tag_of(cmd: &str) -> &'static str {
    TEXT2.iter().chain(["range", "less_than", "greater_than"].iter()).find(|c| **c == cmd).copied().unwrap_or("other")
}

impl Prop for C16Prop {
    fn id(&self) -> &'static str {
        "C16"
    }
    fn rule(&self) -> &'static str {
        "fixed: substring over 8 texts (ASCII, multi-byte, empty) x all index pairs in [-2,len+2]^2, all single indexes in [-len-2,len+2], 30 integer spellings; every two-text command over 7x7 texts incl. empty and needle longer than haystack; every command with 0..3 arguments; 44 float spellings squared through less_than/greater_than; 81 fixed f64 literals (ties around 2^53, the overflow threshold and the exact midpoint to 2^1024, 2^-1074 and its exact half with neighbours in the 750th digit, smallest normal / largest subnormal, 1e400 / 1e-400 / 1e99999999999, zeros, inf/nan spellings) each through `f64bits` (model of correctly rounded dec2flt vs str::parse::<f64>, 64-bit pattern) and every PAIR of them through both commands; 64 malformed spellings; range over 30 integer spellings. Random: texts over {a,b,space,comma,e-acute,CJK,emoji,A,z,tab} (0..8 scalars), needles cut from the haystack / longer than it / empty / random, indexes in [-2,len+2] and odd integer spellings, decimals with sign, fraction, up to 15 digits. One random case in four is an f64 case (3 in 4 of them a command, 1 in 4 `f64bits`): random bit patterns printed shortest / 17 digits / 21 digits / positionally and respelled (point moved, exponent written, up to 420 zeros appended or prepended), exact decimal expansions of midpoints between adjacent doubles and the same +/- one unit in the last digit or with 0..01 appended, subnormals, 16..40 digit literals, exponents in +-345, +-400, +-99999 and up to 27 exponent digits, integers around 2^53..2^64, `.5` / `5.` forms, inf/nan in mixed case, damaged literals; the second operand is equal / one unit in the last digit away / the same with more digits / the double 0..2 ulps away / the midpoint towards the neighbour (2 in 3) or independent. Verdict on the implementation alone (relation): an independent reader of the literal grammar and an exact decimal order on digit strings (no floating point) - the error result exactly on non-literals, `true` only if numerically true and never against the exact order, NaN compares false, and exact equality with integer cross-multiplication on plain decimals of at most 15 digits; `f64bits`: accepted exactly when the independent reader accepts, sign bit = the literal's sign, a zero-mantissa literal reads as a zero, infinity/NaN literals read as such. All through the real SDK commands (arguments passed by variable). Non-trivial = some argument non-empty; distinct = distinct request. uppercase/lowercase over ALL of Unicode: every character with a case mapping (in chunks, every run), Greek words with capital sigma in every position and context (cased / case-ignorable / uncased neighbours, combining marks), multi-character mappings (dotted I, sharp s, n-apostrophe, ligatures, title-case digraphs), 4-byte scripts, long texts; the four case tables of the model are compared with the installed toolchain over all code points (casetab). calc: expressions over integer and decimal literals, + - *, unary minus, parentheses, ^ with a literal exponent, depth <= 4, three in ten with values beyond 2^53 / 2^63 (powers, products of float literals), negative, zero and fractional results, i64 overflow of integer-typed sub-expressions (error result); handed to the real command as one argument per token / one argument / arbitrary cuts; verdicts: exact class - the printed decimal read EXACTLY as a fraction equals the rational value; otherwise within 1e-9 relative of the typed f64 evaluation and within a rigorous rounding bound of the exact i128 rational value. Index equal to the length (substring) is outside the domain; every less_than/greater_than case is inside (the model answers for every literal)."
    }
    fn budget(&self, tier: Tier) -> usize {
        match tier {
            Tier::Quick => 40_000,
            Tier::Thorough => 3_000_000,
        }
    }
    fn fixed_cases(&self, _tier: Tier) -> Vec<Case> {
        let mut out = vec![];
        let s = |x: &str| x.to_string();
        for t in SWEEP {
            let len = t.len() as i64;
            out.push(case_of("substring", vec![s(t)], "substring-sweep"));
            for a in -len - 2..=len + 2 {
                out.push(case_of("substring", vec![s(t), a.to_string()], "substring-sweep"));
            }
            for a in -2..=len + 2 {
                for b in -2..=len + 2 {
                    out.push(case_of("substring", vec![s(t), a.to_string(), b.to_string()], "substring-sweep"));
                }
            }
        }
        for n in INTS {
            out.push(case_of("substring", vec![s("aé漢bc"), s(n)], "int-spelling"));
            out.push(case_of("substring", vec![s("aé漢bc"), s("0"), s(n)], "int-spelling"));
            out.push(case_of("substring", vec![s("aé漢bc"), s(n), s("3")], "int-spelling"));
            out.push(case_of("range", vec![s(n), s(n)], "int-spelling"));
            if strict_i64(n).map(|v| v.unsigned_abs() < 100).unwrap_or(true) {
                out.push(case_of("range", vec![s("-2"), s(n)], "int-spelling"));
                out.push(case_of("range", vec![s(n), s("5")], "int-spelling"));
            }
        }
        let texts = ["", "a", "é", "aa", "aaa", "漢a漢", "a,b,,c"];
        for c in ["indexof", "last_indexof", "contains", "starts_with", "ends_with", "equals", "split", "concat"] {
            for a in texts {
                for b in texts {
                    out.push(case_of(c, vec![s(a), s(b)], "text-pairs"));
                }
            }
        }
        for a in texts {
            for b in ["", "a", "aa", ",", "漢"] {
                for c in ["", "-", "é", "aa"] {
                    out.push(case_of("replace", vec![s(a), s(b), s(c)], "text-pairs"));
                }
            }
        }
        for c in TEXT2.iter().chain(["range", "less_than", "greater_than"].iter()) {
            for n in 0..=3 {
                out.push(case_of(c, (0..n).map(|i| ["ab", "1", "2"][i].to_string()).collect(), "arity"));
            }
        }
        // numerically CLOSE operands (a comparison done in lower precision, e.g. f32, is wrong here)
        for (a, b) in [("16777216", "16777217"), ("-16777216", "-16777217"), ("4294967296", "4294967297"),
                       ("1700000000", "1700000001"), ("123456789", "123456790"), ("999999999999998", "999999999999999"),
                       ("0.1", "0.10000000001"), ("1.0000001", "1.00000011"), ("33554432.5", "33554433.5"), ("2147483647", "2147483648"),
                       // ties: 2^53 + 1 is halfway between two doubles and rounds to the even one, 2^53
                       ("9007199254740992", "9007199254740993"), ("9007199254740993", "9007199254740994"), ("-9007199254740992", "-9007199254740993"),
                       ("18014398509481984", "18014398509481986"), ("0.1", "0.1000000000000000055511151231257827"), ("1e23", "9.999999999999999e22")] {
            for (x, y) in [(a, b), (b, a), (a, a)] {
                out.push(case_of("less_than", vec![s(x), s(y)], "close-numbers"));
                out.push(case_of("greater_than", vec![s(x), s(y)], "close-numbers"));
            }
        }
        for a in FLOATS {
            for b in FLOATS {
                out.push(case_of("less_than", vec![s(a), s(b)], "float-spelling"));
                out.push(case_of("greater_than", vec![s(a), s(b)], "float-spelling"));
            }
        }
        // the f64 reader itself (model of correctly rounded dec2flt vs the toolchain), then every
        // pair of the fixed literals through both commands
        for a in fl::F64_FIXED.iter().chain(fl::MALFORMED.iter()).chain(FLOATS.iter()) {
            out.push(bits_case(a, "f64bits-fixed"));
            out.push(bits_case(&format!("-{}", a), "f64bits-fixed"));
        }
        for a in fl::F64_FIXED {
            for b in fl::F64_FIXED {
                out.push(case_of("less_than", vec![s(a), s(b)], "f64-fixed-pairs"));
                out.push(case_of("greater_than", vec![s(a), s(b)], "f64-fixed-pairs"));
            }
        }
        for a in fl::MALFORMED {
            for (x, y) in [(*a, "1"), ("1", *a), (*a, "nan"), (*a, *a)] {
                out.push(case_of("less_than", vec![s(x), s(y)], "f64-malformed"));
                out.push(case_of("greater_than", vec![s(x), s(y)], "f64-malformed"));
            }
        }
        for t in ["", " ", " a ", "\u{a0}x\u{3000}", "\t\n a b \r\n", "漢 ", " é"] {
            for c in ["trim", "trim_start", "trim_end", "length", "is_empty", "uppercase", "lowercase"] {
                out.push(case_of(c, vec![s(t)], "single-text"));
            }
        }
        // the model's case tables against the toolchain, over all code points
        for w in ["lower", "upper", "cased", "ignorable"] {
            out.push(Case { req: format!("casetab {}", w), in_domain: true, nontrivial: true, tags: vec!["unicode-case-table"] });
        }
        for t in x::SIGMA_TEXTS {
            for c in ["lowercase", "uppercase"] {
                out.push(case_of(c, vec![s(t)], "final-sigma"));
            }
        }
        for ch in x::CASE_POOL {
            for c in ["lowercase", "uppercase"] {
                out.push(case_of(c, vec![ch.to_string()], "case-special"));
                out.push(case_of(c, vec![format!("a{}Σ{}b", ch, ch)], "case-special"));
                out.push(case_of(c, vec![format!("{}Σ{}", ch, ch)], "case-special"));
            }
        }
        // every character that has a case mapping, in chunks (alone and after a capital sigma)
        for chunk in x::changed_chars().chunks(64) {
            for c in ["lowercase", "uppercase"] {
                out.push(case_of(c, vec![chunk.iter().collect()], "case-all-mapped"));
                out.push(case_of(c, vec![chunk.iter().flat_map(|ch| ['Σ', *ch, ' ']).collect()], "case-all-mapped"));
            }
        }
        for t in [
            "", "2 ^ 70", "2 ^ 63", "2 ^ 64", "0 - 2 ^ 63", "- 2 ^ 64", "2 ^ 53", "2 ^ 53 + 1", "10 ^ 21", "10 ^ 22", "1 + 2 * 3",
            "( 1 + 2 ) * 3", "- 2 ^ 2", "( - 2 ) ^ 2", "2 * - 3", "2 - - 3", "- - 2", "1.5 * 4", "0.5 + 0.25", "0.1 + 0.2", "1 - 1",
            "0.5 - 0.5", "- 0.5 * 0", "0 * - 1", "9223372036854775807 + 1", "9223372036854775807 + 1.0", "9223372036854775807 * 2",
            "- 9223372036854775807 - 1", "- ( 0 - 9223372036854775807 - 1 )", "3037000500 * 3037000500", "3037000499 * 3037000499",
            "9223372036854775808", "9223372036854775808 - 1", "4294967296.0 * 4294967296.0", "4294967296 * 4294967296.0 * 4",
            "1.5 ^ 3", "0 ^ 0", "0.0 ^ 0", "2 ^ 0", "( 2 ^ 3 ) ^ 2", "2 ^ ( 3 )", "007 + 1", "1000000 * 1000000 * 1000000",
            "1000000 * 1000000 * 1000000 * 10", "1000000.0 * 1000000 * 1000000 * 10", "123456.789 * 1000", "3 * 0.1", "2.5 ^ 40",
            "9007199254740993 - 1", "9007199254740993.0 - 1", "( 0.1 + 0.2 ) - 0.3", "( 2 ^ 40 + 0.1 - 2 ^ 40 ) * 2 ^ 40",
        ] {
            let toks: Vec<String> = t.split(' ').filter(|w| !w.is_empty()).map(s).collect();
            out.push(calc_case(toks.clone(), "calc-fixed"));
            if !toks.is_empty() {
                out.push(calc_case(vec![toks.join(" ")], "calc-fixed"));
                out.push(calc_case(vec![toks.join("")], "calc-fixed"));
            }
        }
        out
    }
    fn generate(&self, rng: &mut Rng, _tier: Tier) -> Case {
        // one case in four: the f64 reader and the two comparison commands over every kind of literal
        if rng.chance(1, 4) {
            let a = fl::gen_lit(rng);
            if rng.chance(1, 4) {
                let mut c = bits_case(&a, "f64bits-random");
                c.tags.push(float_tags(&a));
                return c;
            }
            let b = if rng.chance(2, 3) { fl::gen_related(&a, rng) } else { fl::gen_lit(rng) };
            let cmd = *rng.pick(&["less_than", "greater_than"]);
            let (ta, tb) = (float_tags(&a), float_tags(&b));
            let mut c = case_of(cmd, if rng.chance(1, 2) { vec![a, b] } else { vec![b, a] }, tag_of(cmd));
            c.tags.push(ta);
            c.tags.push(tb);
            return c;
        }
        let k = rng.below(31);
        if k >= 27 {
            let e = x::gen_calc(rng);
            let toks = x::render_random(&e, rng);
            return calc_case(x::to_args(&toks, rng), "calc-random");
        }
        let hay = gen_str(rng, 8);
        let len = hay.len() as i64;
        let (cmd, args): (&str, Vec<String>) = match k {
            0..=5 => match rng.below(8) {
                0 => ("substring", vec![hay.clone(), gen_int(rng, len)]),
                _ => ("substring", vec![hay.clone(), gen_int(rng, len), gen_int(rng, len)]),
            },
            6 | 7 => ("indexof", vec![hay.clone(), gen_needle(rng, &hay)]),
            8 => ("last_indexof", vec![hay.clone(), gen_needle(rng, &hay)]),
            9 | 10 => ("split", vec![hay.clone(), gen_needle(rng, &hay)]),
            11 => ("replace", vec![hay.clone(), gen_needle(rng, &hay), gen_str(rng, 2)]),
            12 => ("contains", vec![hay.clone(), gen_needle(rng, &hay)]),
            13 => ("starts_with", vec![hay.clone(), gen_needle(rng, &hay)]),
            14 => ("ends_with", vec![hay.clone(), gen_needle(rng, &hay)]),
            15 => {
                if rng.chance(1, 4) {
                    // two spellings that a numeric reading would identify (equals compares TEXT)
                    let pairs = [("1", "1.0"), ("1.10", "1.1"), ("007", "7"), ("0", "-0"), ("+5", "5"), ("1e3", "1000"), ("0x10", "16"), (" 1", "1"), ("9007199254740993", "9007199254740992"), ("NaN", "NaN"), ("inf", "Infinity"), ("true", "TRUE"), ("", " ")];
                    let (a, b) = *rng.pick(&pairs);
                    if rng.chance(1, 2) { ("equals", vec![a.to_string(), b.to_string()]) } else { ("equals", vec![b.to_string(), a.to_string()]) }
                } else {
                    ("equals", vec![hay.clone(), if rng.chance(1, 3) { hay.clone() } else { gen_needle(rng, &hay) }])
                }
            }
            16 => {
                if rng.chance(1, 5) {
                    // `is_empty` of a text that happens to be the handle of an EMPTY collection
                    ("is_empty", vec![format!("handle:EMPTY-{}", rng.pick_s(&["array", "map", "set"]))])
                } else {
                    (*rng.pick(&["length", "is_empty"]), vec![hay.clone()])
                }
            }
            17 => ("concat", (0..rng.below(4)).map(|_| gen_str(rng, 3)).collect()),
            18 => (*rng.pick(&["trim", "trim_start", "trim_end"]), vec![gen_ws_str(rng)]),
            19 => (*rng.pick(&["uppercase", "lowercase"]), vec![(0..rng.below(8)).map(|_| (32 + rng.below(95) as u8) as char).collect()]),
            24 | 25 | 26 => (*rng.pick(&["uppercase", "lowercase"]), vec![x::gen_case_text(rng)]),
            20 => {
                // never ask for an astronomically long array
                let (x, y) = (gen_int(rng, 6), gen_int(rng, 6));
                let big = |v: &str| strict_i64(v).map(|n| n.unsigned_abs() > 1000).unwrap_or(false);
                if big(&x) || big(&y) { ("range", vec![x.clone(), x]) } else { ("range", vec![x, y]) }
            }
            _ => {
                let a = gen_dec(rng);
                // half of the time the second operand differs from the first only in its last digit
                let b = if rng.chance(1, 2) { bump_last_digit(&a, rng) } else { gen_dec(rng) };
                (*rng.pick(&["less_than", "greater_than"]), if rng.chance(1, 2) { vec![a, b] } else { vec![b, a] })
            }
        };
        case_of(cmd, args, tag_of(cmd))
    }
    fn run_impl(&self, req: &str, model_out: &str) -> String {
        if let Some(which) = req.strip_prefix("casetab ") {
            return x::casetab_of_toolchain(which);
        }
        if let Some(t) = req.strip_prefix("f64bits ") {
            return fl::bits_of_toolchain(&dec_str(t).unwrap_or_default());
        }
        if req.starts_with("calc ") {
            let args = calc_args(req);
            return match (run_calc(&args), model_out) {
                (Err(e), _) => e,
                // exact class: the printed decimal, read exactly
                (Ok(text), m) if m.starts_with("Q ") => match x::parse_decimal_exact(&text) {
                    Some(q) => format!("Q {}/{}", q.n, q.d),
                    None => format!("Q-BAD {}", enc_str(&text)),
                },
                (Ok(text), "APPROX") => match x::read_text(&args.join(" ")).map(|e| x::eval(&e)) {
                    Some(Ok(ev)) if x::approx_ok(&ev, &text) => "APPROX".into(),
                    _ => format!("APPROX-BAD {}", enc_str(&text)),
                },
                (Ok(_), "unmodelled") => "unmodelled".into(),
                (Ok(text), _) => format!("ok {}", enc_str(&text)),
            };
        }
        let (cmd, args) = parse_req(req);
        let r = run_cmd(&cmd, &args);
        // declared outside the model: only the error / no-error classification is compared
        if model_out == "unmodelled" && r.starts_with("ok ") { "unmodelled".into() } else { r }
    }
    fn relation(&self, req: &str, _m: &str, imp: &str) -> Option<bool> {
        if req.starts_with("casetab ") {
            return None;
        }
        if let Some(t) = req.strip_prefix("f64bits ") {
            // accepted exactly when the independent grammar reader accepts; the sign bit is the
            // literal's sign; a literal infinity / NaN reads as such
            let lit = dec_str(t)?;
            return Some(match fl::read_exact(&lit) {
                None => imp == "ERR",
                Some(fl::Exact::Nan) => imp == "NAN",
                Some(fl::Exact::Inf(neg)) => imp == if neg { "fff0000000000000" } else { "7ff0000000000000" },
                Some(fl::Exact::Dec(neg, sig, _)) => {
                    let b = u64::from_str_radix(imp, 16).ok()?;
                    (b >> 63 == neg as u64) && (!sig.is_empty() || b << 1 == 0) && (b << 1 >> 53 != 2047 || b << 12 == 0)
                }
            });
        }
        if req.starts_with("calc ") {
            // ordinary arithmetic, computed here (independent of the model)
            let e = x::read_text(&calc_args(req).join(" "))?;
            return match x::eval(&e) {
                Err(()) => Some(imp == "ERR"),
                Ok(ev) => {
                    if let Some(f) = imp.strip_prefix("Q ") {
                        let (n, d) = f.split_once('/')?;
                        let q = ev.q?;
                        Some(n.parse::<i128>().ok()? == q.n && d.parse::<i128>().ok()? == q.d)
                    } else if imp == "APPROX" {
                        Some(true)
                    } else if imp == "unmodelled" {
                        None
                    } else {
                        Some(false)
                    }
                }
            };
        }
        let (cmd, args) = parse_req(req);
        let a = |i: usize| args[i].as_bytes();
        match (cmd.as_str(), args.len()) {
            ("length", 1..) => Some(ok_opt_num(imp) == Some(Some(args[0].len()))),
            ("indexof", 2..) => {
                let want = naive_find(a(0), a(1));
                let got = ok_opt_num(imp)?;
                let mut good = got == want;
                if let Some(k) = got {
                    // one unit: substring(s, 0, k) followed by t is a prefix of s
                    good = good && k <= a(0).len() && [&a(0)[..k], a(1)].concat() == a(0)[..k + a(1).len()].to_vec();
                    if k < a(0).len() {
                        let sub = run_cmd("substring", &[args[0].clone(), "0".into(), k.to_string()]);
                        good = good && ok_bytes(&sub).map(|p| a(0).starts_with(&[&p[..], a(1)].concat())).unwrap_or(false);
                    }
                }
                Some(good)
            }
            ("last_indexof", 2..) => Some(ok_opt_num(imp)? == naive_rfind(a(0), a(1))),
            ("contains", 2..) => Some(ok_bool(imp)? == naive_find(a(0), a(1)).is_some()),
            ("starts_with", 2..) => Some(ok_bool(imp)? == (a(0).len() >= a(1).len() && &a(0)[..a(1).len()] == a(1))),
            ("ends_with", 2..) => Some(ok_bool(imp)? == (a(0).len() >= a(1).len() && &a(0)[a(0).len() - a(1).len()..] == a(1))),
            ("equals", 2..) => Some(ok_bool(imp)? == (a(0) == a(1))),
            ("is_empty", 1..) => Some(ok_bool(imp)? == (a(0).len() == 0)),
            ("concat", _) => Some(ok_bytes(imp)? == args.concat().into_bytes()),
            ("split", 2..) => {
                let items = dec_list(imp.strip_prefix("arr ")?)?;
                // the pieces joined by the separator give back the text; a piece followed by the
                // separator ends at the FIRST match in (piece ++ separator)
                let mut good = items.join(&args[1]) == args[0] && !items.is_empty();
                // (an EMPTY piece list is a wrong answer, not something to index into)
                if !args[1].is_empty() && !items.is_empty() {
                    for p in &items[..items.len() - 1] {
                        let ps = [p.as_bytes(), a(1)].concat();
                        good = good && naive_find(&ps, a(1)) == Some(p.len());
                    }
                    good = good && naive_find(items[items.len() - 1].as_bytes(), a(1)).is_none();
                }
                Some(good)
            }
            ("replace", 3..) if !args[1].is_empty() => {
                let (mut out, mut i, h, p) = (vec![], 0usize, a(0), a(1));
                while i < h.len() {
                    if h[i..].starts_with(p) {
                        out.extend_from_slice(a(2));
                        i += p.len();
                    } else {
                        out.push(h[i]);
                        i += 1;
                    }
                }
                Some(ok_bytes(imp)? == out)
            }
            // what the plain string operation of the standard library returns
            ("lowercase", 1..) => Some(ok_bytes(imp)? == args[0].to_lowercase().into_bytes()),
            ("uppercase", 1..) => Some(ok_bytes(imp)? == args[0].to_uppercase().into_bytes()),
            ("trim" | "trim_start" | "trim_end", 1..) => {
                // independent reference: strip by the 25-scalar White_Space table
                let ws = |c: &char| crate::pools::WS.contains(c);
                let mut cs: Vec<char> = args[0].chars().collect();
                if cmd != "trim_end" {
                    let k = cs.iter().take_while(|c| ws(c)).count();
                    cs.drain(..k);
                }
                if cmd != "trim_start" {
                    while cs.last().map(|c| ws(c)).unwrap_or(false) {
                        cs.pop();
                    }
                }
                Some(ok_bytes(imp)? == cs.into_iter().collect::<String>().into_bytes())
            }
            ("substring", 3..) => {
                let len = args[0].len() as i64;
                match (strict_i64(&args[1]), strict_i64(&args[2])) {
                    (Some(x), Some(y)) => {
                        if x == len || y == len {
                            None
                        } else if 0 <= x && x <= y && y < len {
                            if boundary(&args[0], x as usize) && boundary(&args[0], y as usize) {
                                Some(ok_bytes(imp)? == a(0)[x as usize..y as usize].to_vec())
                            } else {
                                Some(imp == "err")
                            }
                        } else {
                            Some(imp == "err")
                        }
                    }
                    _ => Some(imp == "err"),
                }
            }
            ("substring", 2) => match strict_i64(&args[1]) {
                None => Some(imp == "err"),
                Some(_) => {
                    // whatever is returned must be a well-formed piece of the text
                    if imp == "err" { None } else { Some(ok_bytes(imp).map(|p| naive_find(a(0), &p).is_some()).unwrap_or(false)) }
                }
            },
            ("range", 2..) => match (strict_i64(&args[0]), strict_i64(&args[1])) {
                (Some(x), Some(y)) if x <= y => {
                    let items = dec_list(imp.strip_prefix("arr ")?)?;
                    Some(items == (x..y).map(|v| v.to_string()).collect::<Vec<_>>())
                }
                _ => Some(imp == "err"),
            },
            ("less_than" | "greater_than", 2) => match (small_dec(&args[0]), small_dec(&args[1])) {
                (Some((m1, s1)), Some((m2, s2))) => {
                    let (l, r) = (m1 * 10i128.pow(s2), m2 * 10i128.pow(s1));
                    Some(ok_bool(imp)? == if cmd == "less_than" { l < r } else { l > r })
                }
                // every other pair: the exact decimal order (digit strings, no floating point).
                // The answer `true` must be numerically true, and a pair in the opposite exact order
                // is never answered `true`; NaN compares false; non-literals give the error result
                _ => match (fl::read_exact(&args[0]), fl::read_exact(&args[1])) {
                    (Some(ea), Some(eb)) => {
                        let r = ok_bool(imp)?;
                        let (ea, eb) = if cmd == "less_than" { (ea, eb) } else { (eb, ea) };
                        match fl::exact_lt(&ea, &eb) {
                            None => Some(!r),
                            Some(lt) => Some(!r || lt),
                        }
                    }
                    _ => Some(imp == "err"),
                },
            },
            _ => None,
        }
    }
    fn known(&self, req: &str, _model: &str, imp: &str) -> Option<String> {
        // `concat` without arguments while the caller owns `scope::concat::arguments` = [a, b, c]
        // (set up by run_cmd for every argument-less concat): the body iterates the CALLER's array
        if req.starts_with("cmd ") || !req.starts_with("calc ") {
            let (cmd, args) = parse_req(req);
            if cmd == "concat" && args.is_empty() && imp == format!("ok {}", enc_str("abc")) {
                return Some("C16/concat-no-arguments-reads-caller-variable".to_string());
            }
        }
        None
    }
    fn outcome_kind(&self, imp: &str) -> String {
        let t = imp.split(' ').next().unwrap_or("");
        if t.len() == 16 && t.chars().all(|c| c.is_ascii_hexdigit()) {
            return "f64-bits".into();
        }
        if t.len() <= 24 && t.chars().all(|c| c.is_ascii_alphabetic() || c == '-') { t.to_string() } else { "other".to_string() }
    }
    fn shrink(&self, req: &str) -> Vec<String> {
        if req.starts_with("casetab ") {
            return vec![];
        }
        if let Some(t) = req.strip_prefix("f64bits ") {
            let cs: Vec<char> = dec_str(t).unwrap_or_default().chars().collect();
            return (0..cs.len()).map(|j| format!("f64bits {}", enc_str(&cs.iter().enumerate().filter(|(k, _)| *k != j).map(|(_, c)| *c).collect::<String>()))).collect();
        }
        if req.starts_with("calc ") {
            return match x::read_text(&calc_args(req).join(" ")) {
                Some(e) => x::smaller(&e).iter().map(|s| format!("calc {}", enc_list(&x::render_min(s)))).collect(),
                None => vec![],
            };
        }
        let (cmd, args) = parse_req(req);
        let mut out = vec![];
        for i in 0..args.len() {
            let chars: Vec<char> = args[i].chars().collect();
            for j in 0..chars.len() {
                let mut n = args.clone();
                n[i] = chars.iter().enumerate().filter(|(k, _)| *k != j).map(|(_, c)| *c).collect();
                out.push(mk(&cmd, &n));
            }
        }
        out
    }
    fn describe(&self, req: &str) -> String {
        if req.starts_with("casetab ") {
            return req.to_string();
        }
        if let Some(t) = req.strip_prefix("f64bits ") {
            return format!("f64bits {:?}", dec_str(t).unwrap_or_default());
        }
        if req.starts_with("calc ") {
            return format!("calc {:?}", calc_args(req));
        }
        let (cmd, args) = parse_req(req);
        format!("{} {:?}", cmd, args)
    }
}
