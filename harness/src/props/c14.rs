//! C14: including files is equivalent to pasting them in place, with provenance kept.
//!
//! Every case is an acyclic include tree (depth <= 4, fan-out <= 3) written with paths rooted at
//! the token `/R`.  `run_impl` materialises it in a fresh directory below the (canonicalised)
//! temp dir, runs the real `parse_file` / `run_script_file`, maps the real root back to `/R` and
//! removes the directory.  The model gets the same `/R`-rooted tree.
use crate::pools;
use crate::props::c03;
use crate::rng::Rng;
use crate::scripted::*;
use crate::wire::*;
use crate::{Case, Prop, Tier};
use duckscript::types::instruction::{Instruction, InstructionMetaInfo, InstructionType};
use std::path::PathBuf;
use std::sync::atomic::{AtomicUsize, Ordering};
use std::sync::OnceLock;

pub struct C14Prop;
pub static C14: C14Prop = C14Prop;

const ROOT_TOKEN: &str = "/R";
/// (`~`: a directory that is literally named like the shell's home shorthand)
const DIRS: [&str; 8] = ["", "sub", "sub/deep", "lib", "a b", "d\u{e9}", "~", "~/inner"];
const MALFORMED: [&str; 8] = [":\"", "x = \"abc", "!", "!  ", "!foo bar", "cmd \"a\\q\"", "\"cmd", "a\\b c"];
const INCLUDE: &str = "!include_files";

// ---------------------------------------------------------------------------------------------
// request encoding

type Tree = Vec<(String, String)>;

fn enc_tree(t: &Tree) -> String {
    if t.is_empty() {
        "-".to_string()
    } else {
        t.iter().map(|(p, x)| format!("{}={}", enc_str(p), enc_str(x))).collect::<Vec<_>>().join(",")
    }
}

fn dec_tree(t: &str) -> Tree {
    dec_vars(t)
}

fn mk_inc(root: &str, t: &Tree) -> String {
    format!("inc {} {}", enc_str(root), enc_tree(t))
}

fn mk_incrun(root: &str, t: &Tree, names: &[String], queue: &[String], vars: &[(String, String)], fuel: usize) -> String {
    let vs = if vars.is_empty() { "-".to_string() } else { vars.iter().map(|(k, v)| format!("{}={}", enc_str(k), enc_str(v))).collect::<Vec<_>>().join(",") };
    format!(
        "incrun {} {} {} {} {} {}",
        enc_str(root), enc_tree(t), enc_list(names), if queue.is_empty() { "-".to_string() } else { queue.join(",") }, vs, fuel
    )
}

struct Req {
    op: String,
    root: String,
    tree: Tree,
    names: Vec<String>,
    queue: Vec<String>,
    vars: Vec<(String, String)>,
    fuel: usize,
}

fn parse_req(req: &str) -> Req {
    let t: Vec<&str> = req.split(' ').collect();
    let mut r = Req { op: t[0].to_string(), root: dec_str(t[1]).unwrap(), tree: dec_tree(t[2]), names: vec![], queue: vec![], vars: vec![], fuel: 0 };
    if t[0] == "incrun" {
        r.names = dec_list(t[3]).unwrap();
        r.queue = if t[4] == "-" { vec![] } else { t[4].split(',').map(|s| s.to_string()).collect() };
        r.vars = dec_vars(t[5]);
        r.fuel = t[6].parse().unwrap();
    }
    r
}

fn rebuild(r: &Req) -> String {
    if r.op == "incrun" {
        mk_incrun(&r.root, &r.tree, &r.names, &r.queue, &r.vars, r.fuel)
    } else {
        mk_inc(&r.root, &r.tree)
    }
}

// ---------------------------------------------------------------------------------------------
// materialisation

static COUNTER: AtomicUsize = AtomicUsize::new(0);
static BASE: OnceLock<PathBuf> = OnceLock::new();

struct TempTree {
    dir: PathBuf,
    root: String,
}

impl TempTree {
    fn new(t: &Tree) -> TempTree {
        let base = BASE.get_or_init(|| std::fs::canonicalize(std::env::temp_dir()).expect("temp dir"));
        // ONE root per worker thread, emptied and refilled for every case: file paths recur from
        // case to case, so state that the implementation keeps between parses (a cache, a
        // "currently including" list that is not cleaned up after an error, …) meets the same
        // paths again with different contents
        thread_local! {
            static SLOT: usize = COUNTER.fetch_add(1, Ordering::SeqCst);
        }
        let n = SLOT.with(|s| *s);
        let dir = base.join(format!("duck-c14-{}-t{}", std::process::id(), n));
        let _ = std::fs::remove_dir_all(&dir);
        std::fs::create_dir_all(&dir).expect("create temp root");
        let root = dir.to_string_lossy().into_owned();
        let tt = TempTree { dir, root };
        for (p, text) in t {
            let real = tt.real(p);
            if let Some(parent) = std::path::Path::new(&real).parent() {
                std::fs::create_dir_all(parent).expect("mkdir");
            }
            // absolute include arguments inside the texts name the real root
            std::fs::write(&real, tt.real_text(text)).expect("write file");
        }
        tt
    }
    /// `/R/x` -> `<real root>/x`
    fn real(&self, p: &str) -> String {
        match p.strip_prefix(ROOT_TOKEN) {
            Some(rest) if rest.is_empty() || rest.starts_with('/') => format!("{}{}", self.root, rest),
            _ => p.to_string(),
        }
    }
    fn real_text(&self, text: &str) -> String {
        text.replace("/R/", &format!("{}/", self.root))
    }
    /// replace the real root by `/R` inside every hex-encoded string of a canonical line
    fn unroot(&self, line: &str) -> String {
        let pat = &enc_str(&self.root)[1..];
        let rep = &enc_str(ROOT_TOKEN)[1..];
        let mut out = String::with_capacity(line.len());
        let b = line.as_bytes();
        let mut i = 0;
        let mut last_h: Option<usize> = None;
        while i < b.len() {
            if b[i] == b'h' {
                last_h = Some(i);
            }
            if line[i..].starts_with(pat) {
                if let Some(h) = last_h {
                    if (i - (h + 1)) % 2 == 0 {
                        out.push_str(rep);
                        i += pat.len();
                        continue;
                    }
                }
            }
            out.push(b[i] as char);
            i += 1;
        }
        out
    }
}

impl Drop for TempTree {
    fn drop(&mut self) {
        let _ = std::fs::remove_dir_all(&self.dir);
    }
}

// ---------------------------------------------------------------------------------------------
// independent (harness-side) reading of the property: lexical paths and textual inlining

fn comps(p: &str) -> Vec<String> {
    p.split('/').filter(|c| !c.is_empty()).map(|c| c.to_string()).collect()
}

fn is_file(t: &Tree, cs: &[String]) -> bool {
    t.iter().any(|(k, _)| comps(k) == cs)
}

fn is_dir(t: &Tree, cs: &[String]) -> bool {
    cs.is_empty() || t.iter().any(|(k, _)| { let kc = comps(k); kc.len() > cs.len() && kc[..cs.len()] == *cs })
}

/// what the OS makes of an absolute path in a tree without symlinks
fn os_resolve(t: &Tree, p: &str) -> Option<Vec<String>> {
    if !p.starts_with('/') {
        return None;
    }
    let mut st: Vec<String> = vec![];
    for piece in p.split('/') {
        if !is_dir(t, &st) {
            return None;
        }
        match piece {
            "" | "." => {}
            ".." => {
                st.pop();
            }
            x => {
                st.push(x.to_string());
                if !is_file(t, &st) && !is_dir(t, &st) {
                    return None;
                }
            }
        }
    }
    Some(st)
}

fn read_tree(t: &Tree, p: &str) -> Option<String> {
    let cs = os_resolve(t, p)?;
    t.iter().find(|(k, _)| comps(k) == cs).map(|(_, x)| x.clone())
}

/// directory part of an absolute source path (text before the last component, trailing
/// separators dropped)
fn dir_of(src: &str) -> String {
    fn trim_tail(mut s: &str) -> &str {
        // trailing separators and `.` components do not count
        loop {
            let t = s.trim_end_matches('/');
            let t = if t.ends_with("/.") { &t[..t.len() - 1] } else { t };
            if t.len() == s.len() {
                return s;
            }
            s = t;
        }
    }
    let s = trim_tail(src);
    match s.rfind('/') {
        Some(i) => {
            let d = trim_tail(&s[..i + 1]);
            if d.is_empty() { "/".to_string() } else { d.to_string() }
        }
        None => String::new(),
    }
}

/// the path an argument of a directive written in `src` stands for, as the property reads it
fn target_of(t: &Tree, src: &str, arg: &str) -> String {
    if arg.starts_with('/') || arg.starts_with('\\') {
        return arg.to_string();
    }
    let d = dir_of(src);
    let joined = if d.ends_with('/') { format!("{}{}", d, arg) } else { format!("{}/{}", d, arg) };
    match os_resolve(t, &joined) {
        Some(cs) => if cs.is_empty() { "/".to_string() } else { cs.iter().map(|c| format!("/{}", c)).collect::<String>() },
        None => joined,
    }
}

/// arguments of a directive line written by the generator (bare or double-quoted, no escapes,
/// `#` starts a comment)
fn directive_args(line: &str) -> Option<Vec<String>> {
    let t = line.trim();
    let rest = t.strip_prefix(INCLUDE)?;
    if !(rest.is_empty() || rest.starts_with(' ')) {
        return None;
    }
    let mut args = vec![];
    let cs: Vec<char> = rest.chars().collect();
    let mut i = 0;
    while i < cs.len() {
        if cs[i] == ' ' {
            i += 1;
        } else if cs[i] == '#' {
            break;
        } else if cs[i] == '"' {
            let mut a = String::new();
            i += 1;
            while i < cs.len() && cs[i] != '"' {
                a.push(cs[i]);
                i += 1;
            }
            i += 1;
            args.push(a);
        } else {
            let mut a = String::new();
            while i < cs.len() && cs[i] != ' ' && cs[i] != '#' {
                a.push(cs[i]);
                i += 1;
            }
            args.push(a);
        }
    }
    Some(args)
}

#[derive(Clone, Debug)]
struct Entry {
    src: String,
    line: usize,
    text: String,
    directive: Option<Vec<String>>,
}

/// in-order walk; stops at the first file that cannot be read (Err = its path)
fn rs_inline(t: &Tree, file: &str, depth: usize, out: &mut Vec<Entry>) -> Result<(), String> {
    if depth > 1000 {
        return Err("<depth>".to_string());
    }
    let text = match read_tree(t, file) {
        Some(x) => x,
        None => return Err(file.to_string()),
    };
    for (k, l) in text.lines().enumerate() {
        let d = directive_args(l);
        out.push(Entry { src: file.to_string(), line: k + 1, text: l.to_string(), directive: d.clone() });
        if let Some(args) = d {
            for a in args {
                rs_inline(t, &target_of(t, file, &a), depth + 1, out)?;
            }
        }
    }
    Ok(())
}

/// the instruction a single (non-directive) line stands for, or the error kind
fn line_instruction(e: &Entry) -> Result<String, String> {
    let meta = InstructionMetaInfo { line: Some(e.line), source: Some(e.src.clone()) };
    match duckscript::parser::parse_text(&e.text) {
        Ok(is) => {
            let ty = if is.is_empty() { InstructionType::Empty } else { is[0].instruction_type.clone() };
            Ok(enc_instr(&Instruction { meta_info: meta, instruction_type: ty }))
        }
        Err(err) => {
            let s = enc_script_error(&err);
            Err(s.split(' ').next().unwrap_or("").to_string())
        }
    }
}

/// FULL SDK: running the root file equals running the pasted text — same success / failure, same
/// variables (handle names apart), same printed trace.  Function definitions, flow control and
/// labels live in included files here (`fn` reached twice through two includes of one file is an
/// error in BOTH runs: the second definition is a second definition wherever its text came from).
fn run_incsdk(req: &str) -> String {
    let t: Vec<&str> = req.split(' ').collect();
    let root = dec_str(t[1]).unwrap();
    let tree = dec_tree(t[2]);
    let mut entries = vec![];
    if rs_inline(&tree, &root, 0, &mut entries).is_err() {
        return "incsdk-unreadable".to_string();
    }
    let pasted: String = entries.iter().filter(|e| e.directive.is_none()).map(|e| format!("{}\n", e.text)).collect();
    let tt = TempTree::new(&tree);
    let run = |file: Option<String>, text: &str| -> String {
        let buf = std::rc::Rc::new(std::cell::RefCell::new(Vec::new()));
        struct Cap(std::rc::Rc<std::cell::RefCell<Vec<u8>>>);
        impl std::io::Write for Cap {
            fn write(&mut self, b: &[u8]) -> std::io::Result<usize> { self.0.borrow_mut().extend_from_slice(b); Ok(b.len()) }
            fn flush(&mut self) -> std::io::Result<()> { Ok(()) }
        }
        let halt = crate::sdkenv::guarded_halt(3000);
        let env = duckscript::types::env::Env::new(Some(Box::new(Cap(buf.clone()))), Some(Box::new(crate::scripted::Sink)), Some(halt.clone()));
        let ctx = crate::sdkenv::sdk_context();
        let res = match file { Some(f) => duckscript::runner::run_script_file(&f, ctx, Some(env)), None => duckscript::runner::run_script(text, ctx, Some(env)) };
        let out = String::from_utf8_lossy(&buf.borrow()).to_string();
        match res {
            Ok(c) => {
                let mut v: Vec<(String, String)> = c.variables.iter().map(|(k, x)| (k.clone(), if x.starts_with("handle:") { "handle".to_string() } else { x.clone() })).collect();
                v.sort();
                format!("ok {:?} out={:?} halted={}", v, out, halt.load(std::sync::atomic::Ordering::SeqCst))
            }
            // (the text of a failure names positions and files, which differ between the two runs by construction)
            Err(_) => format!("err out={:?}", out),
        }
    };
    let a = run(Some(tt.real(&root)), "");
    let b = run(None, &tt.real_text(&pasted));
    if a == b { "incsdk-same".to_string() } else { format!("incsdk-differs file-run={} pasted-run={}", enc_str(&a), enc_str(&b)) }
}

/// what the property demands of `parse_file(root)`, in the canonical format
fn expected_parse(t: &Tree, root: &str) -> String {
    let mut entries = vec![];
    let stop = rs_inline(t, root, 0, &mut entries);
    let mut items = vec![];
    for e in &entries {
        match &e.directive {
            Some(args) => {
                let a = if args.is_empty() { "-".to_string() } else { enc_list(args) };
                items.push(format!("P:{}:{}:{}:{}", e.line, enc_str(&e.src), enc_str("include_files"), a));
            }
            None => match line_instruction(e) {
                Ok(s) => items.push(s),
                Err(kind) => return format!("ERR {} {}:{}", kind, e.line, enc_str(&e.src)),
            },
        }
    }
    match stop {
        Err(p) => format!("ERR ErrorReadingFile:{} -:-", enc_str(&p)),
        Ok(()) => format!("OK {} {}", items.len(), items.join(";")).trim_end().to_string(),
    }
}

// ---------------------------------------------------------------------------------------------
// generator

struct Gen {
    files: Vec<(String, usize, String)>, // path, depth, text
    simple: bool,
    tags: Vec<&'static str>,
    backslash: bool,
    budget: usize,
}

fn tag(tags: &mut Vec<&'static str>, t: &'static str) {
    if !tags.contains(&t) {
        tags.push(t);
    }
}

fn rel_ref(rng: &mut Rng, from: &str, to: &str, tags: &mut Vec<&'static str>) -> String {
    let fc = comps(&dir_of(from));
    let tc = comps(to);
    let mut common = 0;
    while common < fc.len() && common + 1 < tc.len() && fc[common] == tc[common] {
        common += 1;
    }
    // never climb above /R (component 0)
    if common > 1 && rng.chance(1, 5) {
        common -= 1;
    }
    let ups = fc.len() - common;
    let mut s = String::new();
    if rng.chance(1, 4) {
        s.push_str("./");
        tag(tags, "dot");
    }
    for _ in 0..ups {
        s.push_str("../");
        tag(tags, "dotdot");
    }
    let down = tc[common..].to_vec();
    if down.len() > 1 {
        tag(tags, "nested-dir");
    }
    let sep = if rng.chance(1, 8) { "//" } else if rng.chance(1, 8) { "/./" } else { "/" };
    s.push_str(&down.join(sep));
    s
}

fn abs_ref(rng: &mut Rng, to: &str, tags: &mut Vec<&'static str>) -> String {
    tag(tags, "abs-path");
    let rest = &to[ROOT_TOKEN.len()..];
    match rng.below(6) {
        0 => format!("/R/.{}", rest),
        1 => format!("/R/{}", rest),
        2 => {
            let tc = comps(to);
            if tc.len() > 2 {
                // /R/d/../d/…
                format!("/R/{}/../{}", tc[1], tc[1..].join("/"))
            } else {
                to.to_string()
            }
        }
        _ => to.to_string(),
    }
}

fn quote_arg(rng: &mut Rng, a: &str) -> String {
    if a.is_empty() || a.contains(' ') || a.contains('#') || rng.chance(1, 5) {
        format!("\"{}\"", a)
    } else {
        a.to_string()
    }
}

impl Gen {
    fn new_path(&self, rng: &mut Rng) -> String {
        let d = *rng.pick(&DIRS);
        // mostly plain names; sometimes names that look like something else to a careless path
        // test: a drive-letter shape (second character `:`), a leading dot / tilde / dash, no extension
        let k = self.files.len();
        let name = match rng.below(12) {
            0 => format!("{}:f.ds", k % 10),
            1 => format!("C:f{}.ds", k),
            2 => format!(".f{}.ds", k),
            3 => format!("~f{}.ds", k),
            4 => format!("f{}", k),
            _ => format!("f{}.ds", k),
        };
        if d.is_empty() { format!("/R/{}", name) } else { format!("/R/{}/{}", d, name) }
    }

    fn plain_line(&self, rng: &mut Rng) -> String {
        if self.simple {
            // (one line in twelve calls the real `goto` / `exit`: labels repeat across the files)
            return if rng.chance(1, 12) { c03::gen_real_line(rng) } else { c03::gen_line(rng) };
        }
        match rng.below(24) {
            0 | 1 => {
                let t = pools::text(rng, 12);
                if t.trim_start().starts_with("!print") || t.trim_start().starts_with("!include") { "x".to_string() } else { t }
            }
            _ => c03::gen_line(rng),
        }
    }

    fn gen_file(&mut self, rng: &mut Rng, depth: usize) -> usize {
        let idx = self.files.len();
        let path = self.new_path(rng);
        self.files.push((path.clone(), depth, String::new()));
        let n = rng.below(6);
        let mut lines: Vec<String> = (0..n).map(|_| self.plain_line(rng)).collect();
        // directives
        let nd = if depth >= 4 { 0 } else if depth == 0 { 1 + rng.below(3) } else { rng.below(3) };
        for _ in 0..nd {
            let mut args: Vec<String> = vec![];
            let na = 1 + rng.below(3);
            if na > 1 {
                tag(&mut self.tags, "multi-arg");
            }
            for _ in 0..na {
                let choice = rng.below(60);
                let deeper: Vec<usize> = (0..self.files.len()).filter(|&j| self.files[j].1 > depth && j != idx).collect();
                let target: Option<String> = if choice < 30 && self.budget > 0 {
                    self.budget -= 1;
                    let j = self.gen_file(rng, depth + 1);
                    Some(self.files[j].0.clone())
                } else if choice < 54 && !deeper.is_empty() {
                    tag(&mut self.tags, "twice");
                    Some(self.files[*rng.pick(&deeper)].0.clone())
                } else if (54..57).contains(&choice) && !args.is_empty() {
                    tag(&mut self.tags, "twice");
                    let a: String = args[args.len() - 1].clone();
                    args.push(a);
                    continue;
                } else if !self.simple && choice >= 58 {
                    tag(&mut self.tags, "missing");
                    let a = match rng.below(7) {
                        0 => "nope.ds".to_string(),
                        1 => "../nope.ds".to_string(),
                        2 => "/R/nope.ds".to_string(),
                        3 => "nodir/../f0.ds".to_string(),
                        4 => "".to_string(),
                        5 => "sub".to_string(),
                        _ => {
                            self.backslash = true;
                            "\\f0.ds".to_string()
                        }
                    };
                    args.push(quote_arg(rng, &a));
                    continue;
                } else {
                    None
                };
                if let Some(to) = target {
                    let a = if rng.chance(1, 4) { abs_ref(rng, &to, &mut self.tags) } else { rel_ref(rng, &path, &to, &mut self.tags) };
                    // one reference in fourteen (not in simple trees) names the file WITHOUT its `.ds`
                    // extension: that name does not exist — the sibling with the extension is no substitute
                    let a = if !self.simple && a.ends_with(".ds") && rng.chance(1, 14) {
                        tag(&mut self.tags, "missing");
                        a[..a.len() - 3].to_string()
                    } else { a };
                    args.push(quote_arg(rng, &a));
                }
            }
            let mut d = String::new();
            if rng.chance(1, 6) {
                d.push_str("  ");
            }
            d.push_str(INCLUDE);
            for a in &args {
                d.push(' ');
                if rng.chance(1, 8) {
                    d.push(' ');
                }
                d.push_str(a);
            }
            if rng.chance(1, 8) {
                d.push_str(" # note");
            }
            let pos = match rng.below(4) {
                0 => 0,
                1 => lines.len(),
                _ => rng.below(lines.len() + 1),
            };
            lines.insert(pos, d);
        }
        if !self.simple && rng.chance(1, 16) {
            tag(&mut self.tags, "malformed");
            let pos = rng.below(lines.len() + 1);
            lines.insert(pos, rng.pick(&MALFORMED).to_string());
        }
        // one file in six starts with an interpreter line (an ordinary comment: it is line 1)
        if rng.chance(1, 6) {
            lines.insert(0, "#!/usr/bin/env duck".to_string());
        }
        // where the directives ended up
        for (k, l) in lines.iter().enumerate() {
            if l.trim_start().starts_with(INCLUDE) {
                if k == 0 {
                    tag(&mut self.tags, "dir-first");
                } else if k + 1 == lines.len() {
                    tag(&mut self.tags, "dir-last");
                } else {
                    tag(&mut self.tags, "dir-middle");
                }
            }
        }
        let crlf = rng.chance(1, 5);
        if crlf {
            tag(&mut self.tags, "crlf");
        }
        let nl = if crlf { "\r\n" } else { "\n" };
        let mut text = lines.join(nl);
        if !lines.is_empty() && rng.chance(2, 3) {
            text.push_str(nl);
        }
        self.files[idx].2 = text;
        idx
    }
}

fn gen_tree(rng: &mut Rng, simple: bool) -> (Tree, Vec<&'static str>, bool) {
    let mut g = Gen { files: vec![], simple, tags: vec![], backslash: false, budget: 1 + rng.below(8) };
    g.gen_file(rng, 0);
    let t: Tree = g.files.iter().map(|(p, _, x)| (p.clone(), x.clone())).collect();
    (t, g.tags, g.backslash)
}

/// a chain of `n` files, each including the next one between two lines of its own
fn chain_tree(n: usize) -> Tree {
    (0..n).map(|k| {
        let path = if k == 0 { "/R/main.ds".to_string() } else { format!("/R/chain/f{}.ds", k) };
        let next = if k + 1 == n { String::new() } else if k == 0 { format!("!include_files chain/f{}.ds\n", k + 1) } else { format!("!include_files f{}.ds\n", k + 1) };
        (path, format!("c0 before{}\n{}c1 after{}\n", k, next, k))
    }).collect()
}

fn fixed_trees() -> Vec<(Tree, &'static str)> {
    let s = |x: &str| x.to_string();
    let f = |v: &[(&str, &str)]| -> Tree { v.iter().map(|(a, b)| (s(a), s(b))).collect() };
    let mut v = vec![
        // long (non-circular) include chains
        (chain_tree(20), "chain-20"), (chain_tree(70), "chain-70"), (chain_tree(140), "chain-140"),
    ];
    v.extend(fixed_trees_small());
    v
}

fn fixed_trees_small() -> Vec<(Tree, &'static str)> {
    let s = |x: &str| x.to_string();
    let f = |v: &[(&str, &str)]| -> Tree { v.iter().map(|(a, b)| (s(a), s(b))).collect() };
    vec![
        // the tree of the Lean non-vacuity example: nested directory, a file included twice
        (f(&[("/R/main.ds", "a 1\n!include_files sub/b.ds c.ds\nz 9\n"), ("/R/sub/b.ds", "b 1\n!include_files ../c.ds\nb 3\n"), ("/R/c.ds", "c 1\n")]), "example"),
        // relative to the includer, not to the root: /R/sub/a.ds says `b.ds`
        (f(&[("/R/main.ds", "!include_files sub/a.ds\n"), ("/R/sub/a.ds", "!include_files b.ds\n"), ("/R/b.ds", "root_b\n"), ("/R/sub/b.ds", "sub_b\n")]), "relative-to-includer"),
        (f(&[("/R/main.ds", "x\n!include_files sub\n"), ("/R/sub/a.ds", "a\n")]), "include-a-directory"),
        (f(&[("/R/main.ds", "x\n!include_files \"\"\n")]), "empty-argument"),
        (f(&[("/R/main.ds", "x\n!include_files\ny\n")]), "no-argument"),
        (f(&[("/R/main.ds", "!include_files \\a.ds\n"), ("/R/\\a.ds", "a\n")]), "backslash"),
        (f(&[("/R/main.ds", "!include_files a.ds/\n"), ("/R/a.ds", "a\n")]), "trailing-slash"),
        (f(&[("/R/main.ds", "!include_files a.ds/../a.ds\n"), ("/R/a.ds", "a\n")]), "dotdot-through-file"),
        (f(&[("/R/main.ds", "!include_files nodir/../a.ds\n"), ("/R/a.ds", "a\n")]), "dotdot-through-missing-dir"),
        (f(&[("/R/main.ds", "m1\n!include_files a.ds\nm3"), ("/R/a.ds", "a1\n!include_files sub/b.ds\n"), ("/R/sub/b.ds", "b1\nb2\n:\"\nb4\n")]), "error-line3-nested"),
        (f(&[("/R/main.ds", "m1\n!include_files a.ds b.ds\n"), ("/R/a.ds", "a1\nx = \"abc\n"), ("/R/c.ds", "")]), "error-before-missing"),
        (f(&[("/R/main.ds", "m1\r\n!include_files a.ds a.ds\r\nm3\r\n"), ("/R/a.ds", "a1\r\na2")]), "crlf-twice"),
        (f(&[("/R/main.ds", "!include_files /R/sub/../sub/a.ds\n"), ("/R/sub/a.ds", "!include_files b.ds\n"), ("/R/sub/b.ds", "b\n")]), "absolute-noncanonical-source"),
        (f(&[("/R/main.ds", "!include_files /R/./sub/a.ds\n"), ("/R/sub/a.ds", "!include_files nope.ds\n")]), "missing-below-noncanonical-source"),
        (f(&[("/R/main.ds", "")]), "empty-root"),
        (f(&[]), "missing-root"),
    ]
}

// ---------------------------------------------------------------------------------------------

fn strip_log_lines(s: &str) -> String {
    // drop `@<index>` of every log entry
    match s.find(" | LOG") {
        None => s.to_string(),
        Some(i) => {
            if s.len() < i + 7 {
                return s.to_string();
            }
            let (head, log) = s.split_at(i + 7);
            let items: Vec<String> = log.split(';').map(|e| match (e.find('@'), e.find('[')) {
                (Some(a), Some(b)) if a < b => format!("{}{}", &e[..a], &e[b..]),
                _ => e.to_string(),
            }).collect();
            format!("{}{}", head, items.join(";"))
        }
    }
}

/// behaviour of the inlined text against the behaviour of the file run
fn behaviour_agrees(r: &Req, file_run: &str) -> bool {
    let mut entries = vec![];
    if rs_inline(&r.tree, &r.root, 0, &mut entries).is_err() {
        return file_run.starts_with("PARSEERR ErrorReadingFile");
    }
    // A: directive lines become blank lines (same absolute indexes)
    let text_a: String = entries.iter().map(|e| if e.directive.is_some() { "\n".to_string() } else { format!("{}\n", e.text) }).collect();
    let run_a = run_scripted_with(&text_a, None, &r.names, &r.queue.join(","), None, &r.vars, &["exit", "goto"]).trim_end().to_string();
    let ok_a = if run_a.starts_with("fail ") && file_run.starts_with("fail ") {
        let a: Vec<&str> = run_a.splitn(4, ' ').collect();
        let f: Vec<&str> = file_run.splitn(4, ' ').collect();
        // the failing line of the inlined text is the line the file run blames, with its file
        let l: usize = a[2].split(':').next().unwrap_or("").parse().unwrap_or(0);
        let prov = if l >= 1 && l <= entries.len() { format!("{}:{}", entries[l - 1].line, enc_str(&entries[l - 1].src)) } else { "?".to_string() };
        a[1] == f[1] && f[2] == prov && a.get(3) == f.get(3)
    } else {
        run_a == file_run
    };
    // B: directive lines dropped (pure pasting): same calls, arguments, variables, outcome
    let kept: Vec<&Entry> = entries.iter().filter(|e| e.directive.is_none()).collect();
    let text_b: String = kept.iter().map(|e| format!("{}\n", e.text)).collect();
    let run_b = run_scripted_with(&text_b, None, &r.names, &r.queue.join(","), None, &r.vars, &["exit", "goto"]).trim_end().to_string();
    let ok_b = if run_b.starts_with("fail ") && file_run.starts_with("fail ") {
        let b: Vec<&str> = run_b.splitn(4, ' ').collect();
        let f: Vec<&str> = file_run.splitn(4, ' ').collect();
        let l: usize = b[2].split(':').next().unwrap_or("").parse().unwrap_or(0);
        let prov = if l >= 1 && l <= kept.len() { format!("{}:{}", kept[l - 1].line, enc_str(&kept[l - 1].src)) } else { "?".to_string() };
        b[1] == f[1] && f[2] == prov && strip_log_lines(&run_b).splitn(4, ' ').nth(3) == strip_log_lines(file_run).splitn(4, ' ').nth(3)
    } else {
        strip_log_lines(&run_b) == strip_log_lines(file_run)
    };
    ok_a && ok_b
}

fn describe_tree(r: &Req) -> String {
    let files: Vec<String> = r.tree.iter().map(|(p, x)| format!("{} = {:?}", p, x)).collect();
    if r.op == "incrun" {
        format!("run_script_file({}) vs run_script(inlined) results={:?} vars={:?} files: {}", r.root, r.queue, r.vars, files.join(" ; "))
    } else {
        format!("parse_file({}) files: {}", r.root, files.join(" ; "))
    }
}

impl Prop for C14Prop {
    fn id(&self) -> &'static str {
        "C14"
    }
    fn rule(&self) -> &'static str {
        "acyclic include trees (1-9 files, include depth <= 4, <= 3 files per directive, <= 3 directives per file) materialised per case in a fresh directory under the canonicalised temp dir: files in nested directories (incl. a directory with a space and a non-ASCII one), arguments written relative (sub/x, ../y, ./z, x//y, x/./y, detours through a parent), absolute (plain, /./, //, d/../d) or quoted, the same file listed twice / reachable by two routes, directives at the first / a middle / the last line with leading blanks or a trailing comment, LF and CRLF files with or without final newline, planted malformed lines (8 classes) and random garbage lines at arbitrary lines of arbitrary files, missing files (relative, absolute, through a missing directory, a directory, the empty argument, a backslash argument). Stream 1 (op inc): parse_file(root) compared with the model (instruction fields + (line, source) of every instruction, or error kind + line + source / path) and, independently of the model, with a harness-side textual inlining whose lines are parsed one by one with parse_text. Stream 2 (op incrun, trees of well-formed command lines): run_script_file(root) with scripted commands compared with the model and with run_script of the inlined text (directive lines blanked: identical log incl. indexes, variables, outcome; directive lines dropped: identical calls, arguments, variables, outcome; a failing run blames the included file and its own line). Non-trivial = at least 3 files; distinct = distinct request."
    }
    fn budget(&self, tier: Tier) -> usize {
        match tier {
            Tier::Quick => 1_200,
            Tier::Thorough => 50_000,
        }
    }
    fn fixed_cases(&self, _tier: Tier) -> Vec<Case> {
        let mut out: Vec<Case> = fixed_trees()
            .into_iter()
            .map(|(t, name)| Case {
                req: mk_inc("/R/main.ds", &t),
                in_domain: name != "backslash",
                nontrivial: t.len() >= 3,
                tags: vec!["fixed"],
            })
            .collect();
        // behaviour: the SAME label in an included file and in its includer, a real `goto` written in
        // the file whose definition is not the last one (labels belong to the whole script, not to a file);
        // the label only in the includer; the same with the roles swapped
        let names: Vec<String> = ["c0", "c1", "c2", "c3"].iter().map(|s| s.to_string()).collect();
        let trees: Vec<Tree> = vec![
            vec![("/R/main.ds".into(), "!include_files lib.ds\nc1 main\n:finish\nc2 end\n".into()), ("/R/lib.ds".into(), "c0 lib\ngoto :finish\n:finish\nc3 lib-end\n".into())],
            vec![("/R/main.ds".into(), "c0 m\ngoto :finish\n!include_files lib.ds\n:finish\nc2 end\n".into()), ("/R/lib.ds".into(), ":finish\nc3 lib\n".into())],
            vec![("/R/main.ds".into(), ":finish\nc1 first\n!include_files lib.ds\nc2 end\n".into()), ("/R/lib.ds".into(), "c0 lib\n:finish\nc3 x\ngoto :finish\n".into())],
            vec![("/R/main.ds".into(), "!include_files a.ds b.ds\nc2 end\n".into()), ("/R/a.ds".into(), ":dup\nc0 a\n".into()), ("/R/b.ds".into(), "c1 b\ngoto :dup\n:dup\nc3 b2\n".into())],
        ];
        let sdk_trees: Vec<Tree> = vec![
            // a library with a function, included once; twice (two directives); a diamond; the function called before / after
            vec![("/R/main.ds".into(), "!include_files lib.ds\nmarks = set \"\"\nr = greet a\necho ${r} ${marks}\n".into()), ("/R/lib.ds".into(), "fn greet\n    marks = set \"${marks}x\"\n    return hello-${1}\nend\n".into())],
            vec![("/R/main.ds".into(), "marks = set \"\"\n!include_files common.ds\n!include_files common.ds\necho ${marks}\n".into()), ("/R/common.ds".into(), "fn mark\n    marks = set \"${marks}x\"\nend\nmark\n".into())],
            vec![("/R/main.ds".into(), "marks = set \"\"\n!include_files a.ds b.ds\necho ${marks}\n".into()), ("/R/a.ds".into(), "!include_files common.ds\necho a\n".into()), ("/R/b.ds".into(), "!include_files common.ds\necho b\n".into()), ("/R/common.ds".into(), "fn mark\n    marks = set \"${marks}x\"\nend\nmark\n".into())],
            vec![("/R/main.ds".into(), "!include_files sub/loop.ds\necho after ${n}\n".into()), ("/R/sub/loop.ds".into(), "n = set 0\nr = range 0 3\nfor i in ${r}\n    n = calc ${n} + ${i}\nend\nrelease ${r}\n!include_files ../tail.ds\n".into()), ("/R/tail.ds".into(), "if equals ${n} 3\n    echo three\nelse\n    echo other\nend\n".into())],
            vec![("/R/main.ds".into(), "x = set 1\n!include_files lib.ds lib.ds\necho ${x}\n".into()), ("/R/lib.ds".into(), "x = calc ${x} + 1\n".into())],
        ];
        for t in sdk_trees {
            out.push(Case { req: format!("incsdk {} {}", enc_str("/R/main.ds"), enc_tree(&t)), in_domain: true, nontrivial: true, tags: vec!["fixed", "full-sdk-include-vs-paste"] });
        }
        for t in trees {
            let q: Vec<String> = (0..6).map(|_| "C/-".to_string()).collect();
            out.push(Case { req: mk_incrun("/R/main.ds", &t, &names, &q, &[], 400), in_domain: true, nontrivial: true, tags: vec!["fixed", "behaviour", "label-in-two-files"] });
        }
        out
    }
    fn generate(&self, rng: &mut Rng, _tier: Tier) -> Case {
        let beh = rng.chance(1, 4);
        let (t, mut tags, backslash) = gen_tree(rng, beh);
        let root = t[0].0.clone();
        let nontrivial = t.len() >= 3;
        if beh {
            tags.push("behaviour");
            let names: Vec<String> = ["c0", "c1", "c2", "c3"].iter().map(|s| s.to_string()).collect();
            let total: usize = t.iter().map(|(_, x)| x.lines().count()).sum::<usize>() * 2 + 4;
            let qn = rng.below(20);
            let mut queue = vec![];
            for k in 0..qn {
                let mut q = c03::gen_result(rng, total, k);
                while q.starts_with("GN") {
                    q = c03::gen_result(rng, total, k);
                }
                queue.push(q);
            }
            let mut vars = vec![];
            for k in ["x", "y", "z", "w"].iter() {
                if rng.chance(1, 2) {
                    vars.push((k.to_string(), pools::value(rng)));
                }
            }
            let fuel = (qn + 3) * (total + 3) + 10;
            Case { req: mk_incrun(&root, &t, &names, &queue, &vars, fuel), in_domain: true, nontrivial, tags }
        } else {
            Case { req: mk_inc(&root, &t), in_domain: !backslash, nontrivial, tags }
        }
    }
    fn run_impl(&self, req: &str, _model: &str) -> String {
        if req.starts_with("incsdk ") {
            return run_incsdk(req);
        }
        let r = parse_req(req);
        // Two-phase materialisation (every second case): an EARLIER VERSION of the tree, in which
        // the files that include nothing have other contents, is written and parsed first; then
        // only those files are rewritten (every other file keeps its bytes, size and modification
        // time) and the tree is parsed again. Whatever the implementation remembers from the first
        // parse (a cache of flattened files, …) must not show in the second.
        let two_phase = r.op != "incrun" && crate::hash_str(req) % 2 == 0;
        let tt = if two_phase {
            let leaf = |text: &str| !text.lines().any(|l| l.trim_start().starts_with(INCLUDE));
            let earlier: Tree = r.tree.iter().map(|(p, x)| if leaf(x) && *p != r.root { (p.clone(), format!("earlier_version = c0 1\n{}", x)) } else { (p.clone(), x.clone()) }).collect();
            let tt = TempTree::new(&earlier);
            let _ = duckscript::parser::parse_file(&tt.real(&r.root));
            for (p, x) in &r.tree {
                if leaf(x) && *p != r.root {
                    std::fs::write(tt.real(p), tt.real_text(x)).expect("rewrite leaf");
                }
            }
            tt
        } else {
            TempTree::new(&r.tree)
        };
        let real_root = tt.real(&r.root);
        if r.op == "incrun" {
            // (the real `exit` / `goto` of the SDK are registered next to the scripted commands: a
            // `goto :label` written in an included file jumps by the label table of the WHOLE script)
            if _model.starts_with("fuel") {
                return _model.to_string();
            }
            let out = run_scripted_with("", Some(&real_root), &r.names, &r.queue.join(","), None, &r.vars, &["exit", "goto"]);
            tt.unroot(&out)
        } else {
            let res = duckscript::parser::parse_file(&real_root);
            tt.unroot(&enc_parse(&res))
        }
    }
    fn relation(&self, req: &str, _model: &str, imp: &str) -> Option<bool> {
        if req.starts_with("incsdk ") {
            return Some(imp == "incsdk-same");
        }
        let r = parse_req(req);
        if imp == "PANIC" {
            return Some(false);
        }
        if r.op == "incrun" {
            // (a program the total model does not see end — a loop of real `goto`s — is not started)
            if imp.starts_with("fuel") {
                return None;
            }
            return Some(behaviour_agrees(&r, imp));
        }
        // a backslash argument is "absolute" for the code and a relative name for the OS:
        // outside the property's reading (see the finding in the C14 notes)
        if r.tree.iter().any(|(_, x)| x.lines().any(|l| directive_args(l).map(|a| a.iter().any(|s| s.starts_with('\\'))).unwrap_or(false))) {
            return None;
        }
        Some(expected_parse(&r.tree, &r.root) == imp)
    }
    fn shrink(&self, req: &str) -> Vec<String> {
        if req.starts_with("incsdk ") {
            return vec![];
        }
        let r = parse_req(req);
        let mut out = vec![];
        for i in 0..r.tree.len() {
            let lines: Vec<&str> = r.tree[i].1.split('\n').collect();
            if lines.len() > 1 {
                for k in 0..lines.len() {
                    let mut l = lines.clone();
                    l.remove(k);
                    let mut r2 = Req { op: r.op.clone(), root: r.root.clone(), tree: r.tree.clone(), names: r.names.clone(), queue: r.queue.clone(), vars: r.vars.clone(), fuel: r.fuel };
                    r2.tree[i].1 = l.join("\n");
                    out.push(rebuild(&r2));
                }
            }
        }
        for i in 0..r.queue.len() {
            let mut r2 = Req { op: r.op.clone(), root: r.root.clone(), tree: r.tree.clone(), names: r.names.clone(), queue: r.queue.clone(), vars: r.vars.clone(), fuel: r.fuel };
            r2.queue.remove(i);
            out.push(rebuild(&r2));
        }
        out
    }
    fn outcome_kind(&self, imp: &str) -> String {
        let mut it = imp.split(' ');
        let a = it.next().unwrap_or("");
        if a == "ERR" || a == "PARSEERR" {
            let k = it.next().unwrap_or("");
            format!("ERR-{}", k.split(':').next().unwrap_or(""))
        } else {
            a.to_string()
        }
    }
    fn describe(&self, req: &str) -> String {
        describe_tree(&parse_req(req))
    }
}
