//! C18: the std::fs commands behave like operations on a simple file tree.
//!
//! Every case is a history of file commands that runs through the REAL SDK commands inside a
//! fresh temporary directory; after every step the real directory is walked and printed in the
//! canonical form of lean/DuckModel/Drv/C18.lean.
use crate::rng::Rng;
use crate::sdkenv::*;
use crate::wire::*;
use crate::{Case, Prop, Tier};
use duckscript::types::command::CommandResult;
use duckscript::types::instruction::{Instruction, InstructionMetaInfo, InstructionType, ScriptInstruction};
use duckscript::types::runtime::{Context, StateValue};
use std::cell::Cell;
use std::collections::HashMap;
use std::os::unix::ffi::OsStrExt;
use std::path::{Path, PathBuf};
use std::sync::atomic::{AtomicBool, AtomicUsize, Ordering};
use std::sync::Arc;

pub struct C18Prop;
pub static C18: C18Prop = C18Prop;

// ---------------------------------------------------------------- temp directory per case

static THREAD_SEQ: AtomicUsize = AtomicUsize::new(0);
thread_local! {
    static THREAD_NO: usize = THREAD_SEQ.fetch_add(1, Ordering::SeqCst);
    static CASE_NO: Cell<u64> = Cell::new(0);
}

struct TempRoot(PathBuf);
impl TempRoot {
    fn new() -> TempRoot {
        let t = THREAD_NO.with(|t| *t);
        let n = CASE_NO.with(|c| {
            c.set(c.get() + 1);
            c.get()
        });
        let p = std::env::temp_dir().join(format!("duckverif-c18-{}-{}-{}", std::process::id(), t, n));
        let _ = std::fs::remove_dir_all(&p);
        std::fs::create_dir_all(&p).expect("temp dir");
        TempRoot(p.canonicalize().expect("canonicalize"))
    }
}
impl Drop for TempRoot {
    fn drop(&mut self) {
        let _ = std::fs::remove_dir_all(&self.0);
    }
}

fn hex(b: &[u8]) -> String {
    let mut o = String::with_capacity(b.len() * 2);
    for x in b {
        o.push_str(&format!("{:02x}", x));
    }
    o
}
fn unhex(t: &str) -> Option<Vec<u8>> {
    if t.len() % 2 != 0 {
        return None;
    }
    (0..t.len() / 2).map(|i| u8::from_str_radix(&t[2 * i..2 * i + 2], 16).ok()).collect()
}

/// canonical listing of the real directory: pre-order, children sorted by name bytes
fn walk(root: &Path) -> String {
    fn go(dir: &Path, pre: &[u8], out: &mut Vec<String>) {
        let mut kids: Vec<(Vec<u8>, PathBuf)> = match std::fs::read_dir(dir) {
            Ok(rd) => rd.filter_map(|e| e.ok()).map(|e| (e.file_name().as_bytes().to_vec(), e.path())).collect(),
            Err(_) => {
                out.push("UNREADABLE".into());
                return;
            }
        };
        kids.sort();
        for (name, path) in kids {
            let mut rel = pre.to_vec();
            if !rel.is_empty() {
                rel.push(b'/');
            }
            rel.extend_from_slice(&name);
            let md = std::fs::symlink_metadata(&path);
            match md {
                Ok(m) if m.is_dir() => {
                    out.push(format!("D{}", hex(&rel)));
                    go(&path, &rel, out);
                }
                Ok(m) if m.is_file() => {
                    let content = std::fs::read(&path).unwrap_or_default();
                    out.push(format!("F{}:{}", hex(&rel), hex(&content)));
                }
                _ => out.push(format!("O{}", hex(&rel))),
            }
        }
    }
    let mut out = vec![];
    go(root, &[], &mut out);
    if out.is_empty() { "-".to_string() } else { out.join(",") }
}

// ---------------------------------------------------------------- running the real commands

fn handles(ctx: &mut Context) -> &mut HashMap<String, StateValue> {
    if !matches!(ctx.state.get("handles"), Some(StateValue::SubState(_))) {
        ctx.state.insert("handles".to_string(), StateValue::SubState(HashMap::new()));
    }
    match ctx.state.get_mut("handles") {
        Some(StateValue::SubState(m)) => m,
        _ => unreachable!(),
    }
}

/// like sdkenv::run_one but with a watchdog halt flag (join_path is a script with a `while`)
fn run_guarded(ctx: &mut Context, command: &str, args: Vec<String>, halt: Arc<AtomicBool>) -> CommandResult {
    let mut si = ScriptInstruction::new();
    si.command = Some(command.to_string());
    si.arguments = if args.is_empty() { None } else { Some(args) };
    si.output = Some("out".to_string());
    let ins = Instruction { meta_info: InstructionMetaInfo::new(), instruction_type: InstructionType::Script(si) };
    let instructions = vec![ins.clone()];
    let mut env = quiet_env(Some(halt));
    duckscript::runner::run_instruction(&mut ctx.commands, &mut ctx.variables, &mut ctx.state, &instructions, ins, 0, &mut env).0
}

/// every value argument goes through a variable and is written as `${name}`; flags are written as they are
fn call(ctx: &mut Context, cmd: &str, flags: &[&str], vals: &[&str]) -> CommandResult {
    let mut written: Vec<String> = flags.iter().map(|s| s.to_string()).collect();
    for (i, v) in vals.iter().enumerate() {
        let name = format!("c18arg{}", i);
        ctx.variables.insert(name.clone(), v.to_string());
        written.push(format!("${{{}}}", name));
    }
    run_one(ctx, cmd, written, Some("out".into())).0
}

fn truth(r: CommandResult) -> String {
    // commands that answer true / false / error
    match r {
        CommandResult::Continue(Some(v)) if v == "true" => "ok".into(),
        CommandResult::Continue(Some(v)) if v == "false" => "err".into(),
        CommandResult::Error(_) => "err".into(),
        other => format!("odd({:?})", other).replace(' ', "_"),
    }
}
fn boolean(r: CommandResult) -> String {
    match r {
        CommandResult::Continue(Some(v)) if v == "true" => "t".into(),
        CommandResult::Continue(Some(v)) if v == "false" => "f".into(),
        CommandResult::Error(_) => "err".into(),
        other => format!("odd({:?})", other).replace(' ', "_"),
    }
}

fn abs(root: &str, rel: &str) -> String {
    format!("{}/{}", root, rel)
}

fn run_op(ctx: &mut Context, root: &str, op: &str) -> String {
    let f: Vec<&str> = op.split(':').collect();
    let path = |i: usize| abs(root, &dec_str(f[i]).unwrap_or_default());
    match f[0] {
        "wt" => truth(call(ctx, "writefile", &[], &[&path(1), &dec_str(f[2]).unwrap()])),
        "at" => truth(call(ctx, "appendfile", &[], &[&path(1), &dec_str(f[2]).unwrap()])),
        "rt" => match call(ctx, "readfile", &[], &[&path(1)]) {
            CommandResult::Continue(Some(v)) => format!("s{}", hex(v.as_bytes())),
            CommandResult::Error(_) => "err".into(),
            other => format!("odd({:?})", other).replace(' ', "_"),
        },
        "wb" => {
            let data = unhex(&f[2][1..]).unwrap();
            // the data handle is (re)created only when the bytes differ from what it holds: a
            // failed write followed by a write of the SAME bytes re-uses the handle as it was left
            // (what the handle held last is remembered HERE, not read back from the state: if the
            // implementation lost the handle, the re-use must fail visibly)
            let same = ctx.variables.get("c18lastdata").map_or(false, |h| *h == f[2]);
            if !same {
                handles(ctx).insert("handle:c18data".to_string(), StateValue::ByteArray(data));
                ctx.variables.insert("c18lastdata".to_string(), f[2].to_string());
            }
            truth(call(ctx, "writebinfile", &[], &[&path(1), "handle:c18data"]))
        }
        "rb" => match call(ctx, "readbinfile", &[], &[&path(1)]) {
            CommandResult::Continue(Some(h)) => match handles(ctx).remove(&h) {
                Some(StateValue::ByteArray(b)) => format!("x{}", hex(&b)),
                _ => "nohandle".into(),
            },
            CommandResult::Error(_) => "err".into(),
            other => format!("odd({:?})", other).replace(' ', "_"),
        },
        "touch" => truth(call(ctx, "touch", &[], &[&path(1)])),
        "mkdir" => truth(call(ctx, "mkdir", &[], &[&path(1)])),
        "cp" => truth(call(ctx, "cp", &[], &[&path(1), &path(2)])),
        "mv" => truth(call(ctx, "mv", &[], &[&path(1), &path(2)])),
        "rmm" => {
            // rm [-r] p1 p2 …: several paths in one command
            let ps: Vec<String> = (2..f.len()).map(|i| path(i)).collect();
            let refs: Vec<&str> = ps.iter().map(|s| s.as_str()).collect();
            let flags: &[&str] = if f[1] == "1" { &["-r"] } else { &[] };
            truth(call(ctx, "rm", flags, &refs))
        }
        "rm" => truth(call(ctx, "rm", &[], &[&path(1)])),
        "rmr" => truth(call(ctx, "rm", &["-r"], &[&path(1)])),
        "rmdir" => truth(call(ctx, "rmdir", &[], &[&path(1)])),
        "ex" => boolean(call(ctx, "is_path_exists", &[], &[&path(1)])),
        "isf" => boolean(call(ctx, "is_file", &[], &[&path(1)])),
        "isd" => boolean(call(ctx, "is_dir", &[], &[&path(1)])),
        "size" => match call(ctx, "get_file_size", &[], &[&path(1)]) {
            CommandResult::Continue(Some(v)) => format!("n{}", v),
            CommandResult::Error(_) => "err".into(),
            other => format!("odd({:?})", other).replace(' ', "_"),
        },
        "ls" => {
            let prefix = format!("{}/", path(1));
            let pattern = format!("{}*", prefix);
            match call(ctx, "glob_array", &[], &[&pattern]) {
                CommandResult::Continue(Some(h)) => match handles(ctx).remove(&h) {
                    Some(StateValue::List(items)) => {
                        let names: Vec<String> = items
                            .iter()
                            .map(|v| match v {
                                StateValue::String(s) => s.strip_prefix(&prefix).map(|x| x.to_string()).unwrap_or_else(|| format!("?{}", s)),
                                _ => "?".to_string(),
                            })
                            .collect();
                        format!("l{}", enc_list(&names))
                    }
                    _ => "nohandle".into(),
                },
                CommandResult::Error(_) => "err".into(),
                other => format!("odd({:?})", other).replace(' ', "_"),
            }
        }
        other => format!("unknown-op({})", other),
    }
}

fn run_history(ops: &str, model_out: &str) -> String {
    if model_out == "reject" || model_out == "UNKNOWN-OP" {
        // the model does not speak about this history (a path it cannot parse): nothing is run
        return model_out.to_string();
    }
    let model_steps: Vec<&str> = model_out.split(' ').collect();
    let root = TempRoot::new();
    let root_s = root.0.to_str().expect("utf-8 temp dir").to_string();
    let mut ctx = sdk_context();
    let mut out = vec![];
    let mut prev = "-".to_string();
    for (i, op) in ops.split(';').enumerate() {
        // outside the property's domain (directory source of cp/mv): the model says `skip`, the
        // command is not run
        let skipped = model_steps.get(i).map(|s| s.starts_with("skip|")).unwrap_or(false);
        let res = if skipped { "skip".to_string() } else { run_op(&mut ctx, &root_s, op) };
        let tree = walk(&root.0);
        if std::env::var("C18_STATS").is_ok() {
            eprintln!("C18STAT {} {} {}", op.split(':').next().unwrap_or(""), res.chars().take(3).collect::<String>(), if tree == prev { "same" } else { "changed" });
        }
        out.push(format!("{}|{}", res, if tree == prev { "=".to_string() } else { tree.clone() }));
        prev = tree;
    }
    out.join(" ")
}

fn run_path_fn(kind: &str, arg: &str) -> String {
    let mut ctx = sdk_context();
    let halt = guarded_halt(3000);
    let r = match kind {
        "join" => {
            let items = dec_list(arg).unwrap();
            let mut written = vec![];
            for (i, v) in items.iter().enumerate() {
                ctx.variables.insert(format!("c18arg{}", i), v.clone());
                written.push(format!("${{c18arg{}}}", i));
            }
            run_guarded(&mut ctx, "join_path", written, halt.clone())
        }
        _ => {
            ctx.variables.insert("c18arg0".into(), dec_str(arg).unwrap());
            run_guarded(&mut ctx, if kind == "base" { "basename" } else { "dirname" }, vec!["${c18arg0}".into()], halt.clone())
        }
    };
    if halt.load(Ordering::SeqCst) {
        return "timeout".into();
    }
    match r {
        CommandResult::Continue(v) => enc_opt(&v),
        CommandResult::Error(_) => "err".into(),
        other => format!("odd({:?})", other).replace(' ', "_"),
    }
}

// ---------------------------------------------------------------- generation

/// components: nested directories, names with spaces and non-ASCII characters, with and without
/// an extension (the `mv` heuristic), a hidden name, a name ending in a dot.  No glob
/// metacharacters (`*?[]`): the listing goes through glob_array.
const COMPS: [&str; 12] = ["a", "b", "c d", "é", "f.txt", "g", "x.y", "n", "дир", "日本 語.md", ".hid", "w."];

fn gen_rel(rng: &mut Rng) -> String {
    // shallow paths collide often, deeper ones exercise parent creation
    let depth = match rng.below(10) {
        0..=3 => 1,
        4..=7 => 2,
        8 => 3,
        _ => 4,
    };
    let small = rng.chance(2, 3);
    let mut parts: Vec<String> = vec![];
    for _ in 0..depth {
        let c = if small { COMPS[rng.below(6)] } else { *rng.pick(&COMPS) };
        parts.push(c.to_string());
        if rng.chance(1, 25) {
            parts.push(".".to_string());
        }
    }
    if parts.last().map(|s| s == ".").unwrap_or(false) {
        parts.pop();
    }
    parts.join("/")
}
fn with_trail(rng: &mut Rng, p: String, allowed: bool) -> String {
    if allowed && rng.chance(1, 10) { format!("{}/", p) } else { p }
}

fn gen_text(rng: &mut Rng) -> String {
    if rng.chance(1, 20) {
        // a large content: sizes around the usual buffer sizes (4 KiB, 8 KiB, 64 KiB), last bytes distinctive
        let n = *rng.pick(&[4095usize, 4096, 4097, 8191, 8192, 8193, 20000, 65535, 65536, 65537]);
        let mut s: String = "0123456789abcdef".chars().cycle().take(n.saturating_sub(4)).collect();
        s.push_str("é\n~");
        return s;
    }
    match rng.below(6) {
        0 => String::new(),
        1 | 2 => crate::pools::value(rng),
        3 => crate::pools::text(rng, 24),
        4 => if rng.chance(1, 2) { "line1\nline2\r\n\ttab \u{0}nul é漢😀".to_string() } else { "\u{feff}héllo wörld\u{feff}".to_string() },
        _ => crate::pools::word(rng, 6),
    }
}
fn gen_bytes(rng: &mut Rng) -> Vec<u8> {
    let n = if rng.chance(1, 20) { *rng.pick(&[4096usize, 8191, 8192, 8193, 65536, 65537]) } else { rng.below(9) };
    (0..n).map(|_| if rng.chance(1, 3) { *rng.pick(&[0u8, 0x80, 0xff, 0xc3, 0x28, 0x0a]) } else { rng.below(256) as u8 }).collect()
}

fn enc_x(b: &[u8]) -> String {
    format!("x{}", hex(b))
}

/// `probe`: also generate the two input classes where the code is known to violate the
/// property (trailing separator on a written target; cp of a file onto itself)
/// rough memory of the generator: paths used so far, paths that were (probably) made files, and
/// paths that were (probably) made directories - so that reads, copies, moves and listings hit
/// existing things most of the time
#[derive(Default)]
struct Recent {
    all: Vec<String>,
    files: Vec<String>,
    dirs: Vec<String>,
}
#[derive(Clone, Copy, PartialEq)]
enum Want {
    Any,
    File,
    Dir,
}

fn pick_path(rng: &mut Rng, r: &mut Recent, want: Want, trail: bool) -> String {
    let p = if want == Want::File && !r.files.is_empty() && rng.chance(3, 4) {
        rng.pick(&r.files).clone()
    } else if want == Want::Dir && !r.dirs.is_empty() && rng.chance(3, 4) {
        rng.pick(&r.dirs).clone()
    } else if !r.all.is_empty() && rng.chance(1, 2) {
        rng.pick(&r.all).clone()
    } else {
        let p = gen_rel(rng);
        r.all.push(p.clone());
        p
    };
    with_trail(rng, p, trail)
}
fn note_file(r: &mut Recent, p: &str) {
    let p = p.trim_end_matches('/').to_string();
    if let Some(i) = p.rfind('/') {
        let mut d = p[..i].to_string();
        while d.ends_with("/.") {
            d.truncate(d.len() - 2);
        }
        r.dirs.push(d);
    }
    r.files.push(p);
}

fn gen_op(rng: &mut Rng, probe: bool, r: &mut Recent) -> String {
    let k = rng.below(100);
    let (want, trail) = match k {
        0..=23 | 30..=33 | 38..=42 => (Want::Any, probe),
        24..=29 | 34..=37 | 86..=88 | 92..=94 => (Want::File, true),
        51..=69 => (Want::File, true),
        79..=82 | 89..=91 => (Want::Dir, true),
        95..=99 => (Want::Dir, false),
        _ => (Want::Any, true),
    };
    let raw = pick_path(rng, r, want, trail);
    let p = enc_str(&raw);
    match k {
        0..=15 => {
            note_file(r, &raw);
            format!("wt:{}:{}", p, enc_str(&gen_text(rng)))
        }
        16..=23 => {
            note_file(r, &raw);
            format!("at:{}:{}", p, enc_str(&gen_text(rng)))
        }
        24..=29 => format!("rt:{}", p),
        30..=33 => {
            note_file(r, &raw);
            // one time in three the same bytes as the previous binary write (the data handle is re-used)
            let b = if rng.chance(1, 3) { vec![1u8, 2, 3, 0xff, 0, 0x0a] } else { gen_bytes(rng) };
            format!("wb:{}:{}", p, enc_x(&b))
        }
        34..=37 => format!("rb:{}", p),
        38..=42 => {
            note_file(r, &raw);
            format!("touch:{}", p)
        }
        43..=50 => {
            r.dirs.push(raw.trim_end_matches('/').to_string());
            format!("mkdir:{}", p)
        }
        51..=59 => {
            let mut d = pick_path(rng, r, Want::Any, probe);
            if !probe && same_path(&raw, &d) {
                d = format!("{}-copy", d);
            }
            note_file(r, &d);
            format!("cp:{}:{}", p, enc_str(&d))
        }
        60..=69 => {
            let d = if rng.chance(2, 5) { pick_path(rng, r, Want::Dir, true) } else { pick_path(rng, r, Want::Any, true) };
            let base = raw.trim_end_matches('/').rsplit('/').next().unwrap_or("").to_string();
            note_file(r, &d);
            note_file(r, &format!("{}/{}", d.trim_end_matches('/'), base));
            format!("mv:{}:{}", p, enc_str(&d))
        }
        70..=74 => {
            if rng.chance(1, 3) {
                // several paths in one command (existing and missing ones mixed)
                let more: Vec<String> = (0..1 + rng.below(3)).map(|_| enc_str(&pick_path(rng, r, Want::Any, true))).collect();
                return format!("rmm:{}:{}:{}", if rng.chance(1, 2) { "1" } else { "0" }, p, more.join(":"));
            }
            format!("rm:{}", p)
        }
        75..=78 => format!("rmr:{}", p),
        79..=82 => format!("rmdir:{}", p),
        83..=85 => format!("ex:{}", p),
        86..=88 => format!("isf:{}", p),
        89..=91 => format!("isd:{}", p),
        92..=94 => format!("size:{}", p),
        _ => format!("ls:{}", p),
    }
}

fn norm(p: &str) -> Vec<&str> {
    p.split('/').filter(|s| !s.is_empty() && *s != ".").collect()
}
fn same_path(a: &str, b: &str) -> bool {
    norm(a) == norm(b)
}

fn history(ops: &[String]) -> String {
    format!("fs {}", ops.join(";"))
}

fn case_of(ops: Vec<String>, tags: Vec<&'static str>) -> Case {
    let n = ops.len();
    Case { req: history(&ops), in_domain: true, nontrivial: n >= 3, tags }
}

fn w(p: &str, t: &str) -> String {
    format!("wt:{}:{}", enc_str(p), enc_str(t))
}
fn o1(op: &str, p: &str) -> String {
    format!("{}:{}", op, enc_str(p))
}
fn o2(op: &str, a: &str, b: &str) -> String {
    format!("{}:{}:{}", op, enc_str(a), enc_str(b))
}

const PLAIN: [&str; 14] = ["a", "b", "dir", "f.txt", "x.tar.gz", ".", "..", "", "/", "//", "a/b", "./a", "a/", "_-9"];

/// components that are ordinary NAME characters on unix although they separate elsewhere or mean
/// something to a shell (basename / dirname get the text through a variable)
const ODD: [&str; 12] = ["back\\slash.txt", "a\\b", "\\", "c d", "é", "x:y", "*", "a\\", "\\\\srv\\share", "C:\\tools\\x64", " ", "日本 語.md"];

fn gen_odd_path(rng: &mut Rng) -> String {
    let n = 1 + rng.below(4);
    let mut s = String::new();
    for i in 0..n {
        if i > 0 || rng.chance(1, 4) {
            s.push('/');
        }
        s.push_str(if rng.chance(1, 2) { rng.pick_s(&ODD) } else { rng.pick_s(&PLAIN) });
    }
    s
}

fn gen_plain_path(rng: &mut Rng) -> String {
    let n = 1 + rng.below(5);
    let mut s = String::new();
    for i in 0..n {
        if i > 0 || rng.chance(1, 4) {
            s.push('/');
        }
        s.push_str(rng.pick_s(&PLAIN));
    }
    s
}

/// file commands given RELATIVE names — also names that look like options (`-p`, `--x`, `-r`):
/// the script runs in a child process whose working directory is a fresh private directory (the
/// harness itself never changes its working directory and gives the in-process commands absolute
/// paths only); the script checks its expectations with assert commands
fn run_relative_script(script: &str) -> String {
    static N: std::sync::atomic::AtomicUsize = std::sync::atomic::AtomicUsize::new(0);
    let n = N.fetch_add(1, std::sync::atomic::Ordering::SeqCst);
    let me = match std::env::current_exe() { Ok(p) => p, Err(_) => return "NO-CHILD-BINARY".to_string() };
    let bin = match me.parent() { Some(d) => d.join("c07child"), None => return "NO-CHILD-BINARY".to_string() };
    if !bin.exists() {
        return "NO-CHILD-BINARY".to_string();
    }
    let base = std::env::temp_dir().join(format!("duck-c18rel-{}-{}", std::process::id(), n));
    let work = base.join("work");
    if std::fs::create_dir_all(&work).is_err() {
        return "NO-TEMP-DIR".to_string();
    }
    let file = base.join("script.ds");
    let _ = std::fs::write(&file, script);
    let st = std::process::Command::new(bin)
        .arg("cwdtext").arg(&file).arg("3000").arg(&work)
        .stdin(std::process::Stdio::null()).stdout(std::process::Stdio::null()).stderr(std::process::Stdio::null())
        .status();
    let _ = std::fs::remove_dir_all(&base);
    match st.ok().and_then(|s| s.code()) {
        Some(0) => "ok".to_string(),
        Some(6) => "script-reported-an-error".to_string(),
        Some(3) => "PANIC".to_string(),
        other => format!("child-ended-{:?}", other),
    }
}

const RELATIVE_SCRIPTS: [&str; 4] = [
    "mkdir -p other\na = is_dir -p\nassert ${a}\nb = is_path_exists other\nassert_false ${b}\nmkdir --x\nc = is_dir --x\nassert ${c}",
    "touch -r file2\nd = is_file -r\nassert ${d}\ne = is_path_exists file2\nassert_false ${e}",
    "writefile -n data\ne = readfile -n\nassert_eq ${e} data\nappendfile -n more\ne = readfile -n\nassert_eq ${e} datamore\ncp -n -copy\ne = readfile -copy\nassert_eq ${e} datamore",
    "mkdir sub/dir\nwritefile sub/dir/f.txt x\nmv sub/dir/f.txt sub\na = is_file sub/f.txt\nassert ${a}\nrm sub/f.txt\nb = is_path_exists sub/f.txt\nassert_false ${b}",
];

impl Prop for C18Prop {
    fn id(&self) -> &'static str {
        "C18"
    }
    fn rule(&self) -> &'static str {
        "histories of 1..40 file commands (writefile, appendfile, readfile, writebinfile, readbinfile, touch, mkdir, cp, mv, rm, rm -r, rmdir, is_path_exists, is_file, is_dir, get_file_size, glob_array <dir>/*) run through the real SDK in a fresh temporary directory per case; paths of 1-4 components from a pool of 12 names (spaces, non-ASCII, with/without extension, hidden, trailing dot), half of them re-used from earlier steps, optional trailing separator and './' components; contents: arbitrary Unicode text incl. empty/NUL/newlines and arbitrary bytes incl. invalid UTF-8. After EVERY step the real directory is walked (names, kinds, file bytes) and compared with the model tree. Directory sources of cp/mv are outside the domain (the model answers skip and the command is not run). 3% of the histories also probe the two recorded finding classes (trailing separator on a written target; cp of a file onto itself). Plus basename/dirname/join_path on path strings over [A-Za-z0-9_./-]; basename/dirname also on names with backslashes, blanks, colons, '*', non-ASCII (ordinary name characters on unix). Non-trivial = at least 3 commands; distinct = distinct request."
    }
    fn budget(&self, tier: Tier) -> usize {
        match tier {
            Tier::Quick => 1_200,
            Tier::Thorough => 100_000,
        }
    }
    fn fixed_cases(&self, _tier: Tier) -> Vec<Case> {
        let mut out = vec![];
        // a 3-level tree, read after write, append, copy with new parents, move into a directory,
        // move to a file name, delete
        out.push(case_of(
            vec![
                o1("mkdir", "a/b/c"),
                w("a/b/c/f.txt", "héllo"),
                o1("rt", "a/b/c/f.txt"),
                format!("at:{}:{}", enc_str("a/b/c/f.txt"), enc_str(" wörld")),
                o1("rt", "a/b/c/f.txt"),
                o2("cp", "a/b/c/f.txt", "x/y/z/g.txt"),
                o1("ls", "x/y/z"),
                o2("mv", "x/y/z/g.txt", "a"),
                o1("ls", "a"),
                o2("mv", "a/g.txt", "a/b/h.md"),
                o2("mv", "a/b/h.md", "new dir"),
                o2("mv", "new dir/h.md", "q/r/"),
                o1("rm", "a"),
                o1("rmdir", "a"),
                o1("rmr", "a"),
                o1("rm", "a"),
                o1("ex", "a"),
                o1("size", "q/r/h.md"),
            ],
            vec!["fixed"],
        ));
        for sc in RELATIVE_SCRIPTS {
            out.push(Case { req: format!("fsrel {}", enc_str(sc)), in_domain: true, nontrivial: true, tags: vec!["fixed", "relative-names"] });
        }
        // sizes around the usual buffer sizes (binary and text), read back in full
        for n in [4096usize, 65536, 65537, 70000, 200001] {
            let bytes: Vec<u8> = (0..n).map(|i| (i * 7 + i / 251) as u8).collect();
            let text: String = (0..n).map(|i| (b'a' + (i % 23) as u8) as char).collect();
            out.push(case_of(
                vec![
                    format!("wb:{}:x{}", enc_str("big.bin"), hex(&bytes)),
                    o1("rb", "big.bin"),
                    o1("size", "big.bin"),
                    o2("cp", "big.bin", "copy/of/big.bin"),
                    o1("rb", "copy/of/big.bin"),
                    w("big.txt", &text),
                    o1("rt", "big.txt"),
                    o1("size", "big.txt"),
                ],
                vec!["fixed", "large-content"],
            ));
        }
        // a path longer than 255 characters made of short components
        {
            let deep: String = (0..40).map(|k| format!("dir{:02}", k)).collect::<Vec<_>>().join("/");
            out.push(case_of(
                vec![
                    o1("touch", &format!("{}/t.txt", deep)),
                    o1("ex", &format!("{}/t.txt", deep)),
                    w(&format!("{}/w.txt", deep), "x"),
                    o1("mkdir", &format!("{}/more/and/more", deep)),
                    o1("isd", &format!("{}/more/and", deep)),
                    o2("cp", &format!("{}/w.txt", deep), &format!("{}/more/c.txt", deep)),
                    o1("rmr", "dir00"),
                    o1("ex", "dir00"),
                ],
                vec!["fixed", "long-path"],
            ));
        }
        // wrong kinds: file where a directory is expected and vice versa
        out.push(case_of(
            vec![
                w("f", "x"),
                w("f/g", "y"),
                o1("mkdir", "f"),
                o1("mkdir", "f/sub"),
                o1("touch", "f/g"),
                o1("mkdir", "d"),
                w("d", "text"),
                format!("at:{}:{}", enc_str("d"), enc_str("text")),
                o1("rt", "d"),
                o1("rb", "d"),
                o1("touch", "d"),
                o1("size", "d"),
                o1("rmdir", "f"),
                o2("cp", "f", "d"),
                o2("cp", "f", "f/x"),
                o2("cp", "missing", "z"),
                o2("mv", "missing", "z"),
                o2("mv", "f", "d"),
                o2("mv", "d/f", "d"),
                o1("isf", "d/f/"),
                o1("ex", "d/f/"),
                o1("isd", "d/"),
                o1("rm", "d/f/"),
                o1("rt", "d/f/"),
                o2("mv", "d/f/", "k"),
                o2("mv", "d/f", "d/f"),
            ],
            vec!["fixed"],
        ));
        // bytes that are not UTF-8
        out.push(case_of(
            vec![format!("wb:{}:xfffe00", enc_str("bin")), o1("rb", "bin"), o1("rt", "bin"), o1("size", "bin"), format!("at:{}:{}", enc_str("bin"), enc_str("é")), o1("rb", "bin")],
            vec!["fixed"],
        ));
        // the two finding classes (witnesses)
        out.push(case_of(vec![w("n1/n2/", "hello")], vec!["fixed", "finding-probe"]));
        out.push(case_of(vec![o1("touch", "t1/t2/")], vec!["fixed", "finding-probe"]));
        out.push(case_of(vec![w("h.txt", "content"), o2("cp", "h.txt", "c1/c2/")], vec!["fixed", "finding-probe"]));
        out.push(case_of(vec![w("f.txt", "content"), o2("cp", "f.txt", "f.txt"), o1("rt", "f.txt")], vec!["fixed", "finding-probe"]));
        // path functions
        for p in PLAIN.iter().chain(ODD.iter()) {
            for q in ["", "/", "x/", "/x/", "a/./", "../"] {
                let s = format!("{}{}", q, p);
                out.push(Case { req: format!("fspath base {}", enc_str(&s)), in_domain: true, nontrivial: false, tags: vec!["basename"] });
                out.push(Case { req: format!("fspath dir {}", enc_str(&s)), in_domain: true, nontrivial: false, tags: vec!["dirname"] });
            }
        }
        out
    }
    fn generate(&self, rng: &mut Rng, _tier: Tier) -> Case {
        if rng.chance(1, 12) {
            // path functions on plain path strings
            let k = rng.below(3);
            let req = match k {
                0 => format!("fspath base {}", enc_str(&if rng.chance(1, 2) { gen_odd_path(rng) } else { gen_plain_path(rng) })),
                1 => format!("fspath dir {}", enc_str(&if rng.chance(1, 2) { gen_odd_path(rng) } else { gen_plain_path(rng) })),
                _ => {
                    let n = 1 + rng.below(4);
                    let items: Vec<String> = (0..n)
                        .map(|_| {
                            let s = gen_plain_path(rng);
                            // an empty argument is dropped by the for-in loop, a leading '-' may be read as a flag
                            if s.is_empty() || s.starts_with('-') { "p".to_string() } else { s }
                        })
                        .collect();
                    format!("fspath join {}", enc_list(&items))
                }
            };
            return Case { req, in_domain: true, nontrivial: false, tags: vec![["basename", "dirname", "join_path"][k]] };
        }
        let probe = rng.chance(1, 30);
        let maxn = if rng.chance(1, 3) { 40 } else { 16 };
        let n = 1 + rng.below(maxn);
        let mut recent = Recent::default();
        let ops: Vec<String> = (0..n).map(|_| gen_op(rng, probe, &mut recent)).collect();
        case_of(ops, vec![if probe { "finding-probe" } else { "history" }])
    }
    fn run_impl(&self, req: &str, model_out: &str) -> String {
        let t: Vec<&str> = req.split(' ').collect();
        match t[0] {
            "fs" => run_history(t[1], model_out),
            "fsrel" => run_relative_script(&dec_str(t[1]).unwrap_or_default()),
            _ => run_path_fn(t[1], t[2]),
        }
    }
    fn outcome_kind(&self, imp: &str) -> String {
        if imp.contains('|') {
            let steps: Vec<&str> = imp.split(' ').collect();
            let errs = steps.iter().filter(|s| s.starts_with("err|")).count();
            if errs == 0 { "history-all-ok".into() } else { "history-with-failing-ops".into() }
        } else {
            "path-fn".into()
        }
    }
    fn shrink(&self, req: &str) -> Vec<String> {
        let t: Vec<&str> = req.split(' ').collect();
        if t[0] != "fs" {
            return vec![];
        }
        let ops: Vec<&str> = t[1].split(';').collect();
        let mut out = vec![];
        if ops.len() > 1 {
            out.push(format!("fs {}", ops[..ops.len() - 1].join(";")));
            out.push(format!("fs {}", ops[..(ops.len() + 1) / 2].join(";")));
            for i in 0..ops.len() - 1 {
                let mut n = ops.clone();
                n.remove(i);
                out.push(format!("fs {}", n.join(";")));
            }
        }
        out
    }
    fn known(&self, req: &str, model_out: &str, impl_out: &str) -> Option<String> {
        let t: Vec<&str> = req.split(' ').collect();
        if t[0] != "fs" {
            return None;
        }
        let ops: Vec<&str> = t[1].split(';').collect();
        let m: Vec<&str> = model_out.split(' ').collect();
        let i: Vec<&str> = impl_out.split(' ').collect();
        // the FIRST step at which the implementation leaves the model decides
        let k = (0..ops.len()).find(|&k| m.get(k) != i.get(k))?;
        let f: Vec<&str> = ops[k].split(':').collect();
        let arg = |n: usize| dec_str(f[n]).unwrap_or_default();
        match f[0] {
            "wt" | "at" | "wb" | "touch" if arg(1).ends_with('/') => Some("C18/failed-write-creates-parents".into()),
            "cp" if arg(2).ends_with('/') => Some("C18/failed-write-creates-parents".into()),
            "cp" if same_path(&arg(1), &arg(2)) => Some("C18/cp-onto-itself-truncates".into()),
            _ => None,
        }
    }
    fn describe(&self, req: &str) -> String {
        let t: Vec<&str> = req.split(' ').collect();
        if t[0] != "fs" {
            return req.to_string();
        }
        t[1].split(';')
            .map(|op| {
                let f: Vec<&str> = op.split(':').collect();
                let name = match f[0] {
                    "wt" => "writefile",
                    "at" => "appendfile",
                    "rt" => "readfile",
                    "wb" => "writebinfile",
                    "rb" => "readbinfile",
                    "rmr" => "rm -r",
                    "ex" => "is_path_exists",
                    "isf" => "is_file",
                    "isd" => "is_dir",
                    "size" => "get_file_size",
                    "ls" => "glob_array(dir/*)",
                    o => o,
                };
                let args: Vec<String> = f[1..].iter().map(|a| if a.starts_with('h') { format!("{:?}", dec_str(a).unwrap_or_default()) } else { a.to_string() }).collect();
                format!("{} {}", name, args.join(" "))
            })
            .collect::<Vec<_>>()
            .join(" ; ")
    }
}
