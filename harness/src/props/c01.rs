//! C01: a line written with the documented syntax parses back to the same instruction.
//! The rendering is produced by the Lean specification (`Spec.renderScript`), so the
//! renderer the theorem talks about is the one the implementation is tested with.
use crate::pools;
use crate::rng::Rng;
use crate::wire::*;
use crate::{Case, Prop, Tier};

pub struct C01Prop;
pub static C01: C01Prop = C01Prop;

#[derive(Clone, Debug)]
pub struct Item {
    pub label: Option<String>,
    pub output: Option<String>,
    pub command: Option<String>,
    pub args: Option<Vec<String>>,
    pub lead: String,
    pub trail: String,
    pub after_label: usize,
    pub eq_before: usize,
    pub eq_after: usize,
    pub argch: Vec<(usize, bool)>,
    pub comment: Option<(usize, String)>,
    pub crlf: bool,
}

impl Item {
    pub fn enc(&self) -> String {
        let argch = if self.argch.is_empty() {
            "-".to_string()
        } else {
            self.argch.iter().map(|(k, q)| format!("{}:{}", k, if *q { 1 } else { 0 })).collect::<Vec<_>>().join(",")
        };
        let comment = match &self.comment {
            None => "-".to_string(),
            Some((k, t)) => format!("{}:{}", k, enc_str(t)),
        };
        format!(
            "{}/{}/{}/{}/{}/{}/{}/{}/{}/{}/{}/{}",
            enc_opt(&self.label), enc_opt(&self.output), enc_opt(&self.command), enc_opt_list(&self.args),
            enc_str(&self.lead), enc_str(&self.trail), self.after_label, self.eq_before, self.eq_after,
            argch, comment, if self.crlf { 1 } else { 0 }
        )
    }
    pub fn dec(t: &str) -> Option<Item> {
        let f: Vec<&str> = t.split('/').collect();
        if f.len() != 12 {
            return None;
        }
        let argch = if f[9] == "-" {
            vec![]
        } else {
            f[9].split(',').map(|x| {
                let kv: Vec<&str> = x.split(':').collect();
                (kv[0].parse().unwrap(), kv[1] == "1")
            }).collect()
        };
        let comment = if f[10] == "-" {
            None
        } else {
            let kv: Vec<&str> = f[10].split(':').collect();
            Some((kv[0].parse().unwrap(), dec_str(kv[1])?))
        };
        Some(Item {
            label: dec_opt(f[0])?, output: dec_opt(f[1])?, command: dec_opt(f[2])?, args: dec_opt_list(f[3])?,
            lead: dec_str(f[4])?, trail: dec_str(f[5])?, after_label: f[6].parse().ok()?,
            eq_before: f[7].parse().ok()?, eq_after: f[8].parse().ok()?, argch, comment, crlf: f[11] == "1",
        })
    }
    fn is_empty_instr(&self) -> bool {
        self.label.is_none() && self.output.is_none() && self.command.is_none()
    }
    fn expected(&self, line: usize) -> String {
        if self.is_empty_instr() {
            format!("E:{}:-", line)
        } else {
            format!("S:{}:-:{}:{}:{}:{}", line, enc_opt(&self.label), enc_opt(&self.output), enc_opt(&self.command), enc_opt_list(&self.args))
        }
    }
}

const NAME_CHARS: [char; 16] = ['a', 'b', 'z', '_', '-', '.', '$', '%', '{', '}', '"', ':', '!', 'é', '漢', '1'];

fn name(rng: &mut Rng, allow_eq: bool, first: bool) -> String {
    loop {
        let mut s = String::new();
        if rng.chance(2, 3) {
            s = pools::word(rng, 6);
        } else {
            let n = 1 + rng.below(5);
            for _ in 0..n {
                if allow_eq && rng.chance(1, 8) {
                    s.push('=');
                } else {
                    s.push(*rng.pick(&NAME_CHARS));
                }
            }
        }
        if s.starts_with('"') {
            continue;
        }
        if first && (s.starts_with(':') || s.starts_with('!')) {
            continue;
        }
        return s;
    }
}

fn ws(rng: &mut Rng) -> String {
    let n = if rng.chance(1, 2) { 0 } else { rng.below(4) };
    let mut s = String::new();
    for _ in 0..n {
        let c = *rng.pick(&pools::WS);
        if c != '\n' {
            s.push(c);
        }
    }
    s
}

pub fn gen_item(rng: &mut Rng) -> Item {
    let has_label = rng.chance(1, 3);
    let has_output = rng.chance(2, 5);
    let has_command = rng.chance(5, 6);
    let label = if has_label { Some(format!(":{}", name(rng, true, false))) } else { None };
    let output = if has_output { Some(name(rng, false, !has_label)) } else { None };
    let command = if has_command { Some(name(rng, has_output, !has_label && !has_output)) } else { None };
    let args = if has_command && rng.chance(4, 5) {
        let n = 1 + rng.below(5);
        Some((0..n).map(|_| pools::value(rng)).collect::<Vec<_>>())
    } else {
        None
    };
    let nargs = args.as_ref().map(|a| a.len()).unwrap_or(0);
    let argch = (0..nargs).map(|_| (if rng.chance(2, 3) { 0 } else { rng.below(4) }, rng.chance(1, 3))).collect();
    let comment = if rng.chance(1, 3) {
        let t: String = pools::text(rng, 10).chars().filter(|c| *c != '\n').collect();
        Some((rng.below(3), t))
    } else {
        None
    };
    Item {
        label, output, command, args, lead: ws(rng), trail: ws(rng),
        after_label: rng.below(3), eq_before: rng.below(3), eq_after: rng.below(3), argch, comment,
        crlf: rng.chance(1, 4),
    }
}

fn parse_req(req: &str) -> (bool, Vec<Item>) {
    let toks: Vec<&str> = req.split(' ').collect();
    let items = toks[2].split(';').map(|t| Item::dec(t).unwrap()).collect();
    (toks[1] == "1", items)
}

fn mk_req(open: bool, items: &[Item]) -> String {
    format!("c01 {} {}", if open { 1 } else { 0 }, items.iter().map(|i| i.enc()).collect::<Vec<_>>().join(";"))
}

impl Prop for C01Prop {
    fn id(&self) -> &'static str {
        "C01"
    }
    fn rule(&self) -> &'static str {
        "instructions (label/output/command each present or absent, 0-5 arguments from an adversarial value pool and random Unicode text) with random rendering choices (Unicode white space around the line, 1..k separator spaces, spaces around '=', quote-when-optional, optional comment, LF/CRLF, last line terminated or not), rendered by the Lean specification and parsed by the real parse_text; single lines and scripts of up to 30 lines. Non-trivial = some argument contains a quote, backslash, '#', '=', white space or is empty, or the script has more than one line; distinct = distinct request."
    }
    fn budget(&self, tier: Tier) -> usize {
        match tier {
            Tier::Quick => 30_000,
            Tier::Thorough => 2_000_000,
        }
    }
    fn fixed_cases(&self, tier: Tier) -> Vec<Case> {
        // every argument of length <= k over the interesting characters, in each quote mode
        let alpha = ['a', ' ', '"', '\\', '#', '=', '$', '{', '\n', '\t', 'n'];
        let k = if tier == Tier::Quick { 3 } else { 4 };
        let mut out = vec![];
        let mut cur: Vec<String> = vec![String::new()];
        for len in 0..=k {
            let mut next = vec![];
            for s in &cur {
                for q in [false, true] {
                    let it = Item {
                        label: None, output: None, command: Some("c".to_string()),
                        args: Some(vec![s.clone(), "z".to_string()]), lead: String::new(), trail: String::new(),
                        after_label: 0, eq_before: 0, eq_after: 0, argch: vec![(0, q), (0, false)], comment: None, crlf: false,
                    };
                    out.push(Case { req: mk_req(true, &[it]), in_domain: true, nontrivial: true, tags: vec!["exhaustive-arg"] });
                }
                if len < k {
                    for c in alpha {
                        let mut n = s.clone();
                        n.push(c);
                        next.push(n);
                    }
                }
            }
            cur = next;
        }
        out
    }
    fn generate(&self, rng: &mut Rng, _tier: Tier) -> Case {
        let n = if rng.chance(3, 4) { 1 } else { 2 + rng.below(29) };
        let items: Vec<Item> = (0..n).map(|_| gen_item(rng)).collect();
        let mut open = rng.chance(1, 2);
        if open {
            // an unterminated empty last line is not a line at all
            let last = items.last().unwrap();
            if last.is_empty_instr() && last.comment.is_none() && last.lead.is_empty() && last.trail.is_empty() {
                open = false;
            }
        }
        let nontrivial = n > 1 || items.iter().any(|i| i.args.as_ref().map(|a| a.iter().any(|s| s.is_empty() || s.chars().any(|c| "\"\\#= \t\n\r".contains(c)))).unwrap_or(false));
        let mut tags = vec![if n == 1 { "single-line" } else { "script" }];
        if items.iter().any(|i| i.label.is_some()) { tags.push("label"); }
        if items.iter().any(|i| i.output.is_some()) { tags.push("output"); }
        if items.iter().any(|i| i.comment.is_some()) { tags.push("comment"); }
        if items.iter().any(|i| i.is_empty_instr()) { tags.push("empty-instr"); }
        if items.iter().any(|i| i.argch.iter().any(|(_, q)| *q)) { tags.push("quoted-by-choice"); }
        Case { req: mk_req(open, &items), in_domain: true, nontrivial, tags }
    }
    fn run_impl(&self, _req: &str, model: &str) -> String {
        let toks: Vec<&str> = model.splitn(3, ' ').collect();
        let text = dec_str(toks[0]).unwrap();
        format!("{} {} {}", toks[0], toks[1], enc_parse(&duckscript::parser::parse_text(&text)))
    }
    fn relation(&self, req: &str, model: &str, imp: &str) -> Option<bool> {
        if imp == "PANIC" {
            return Some(false);
        }
        let (_, items) = parse_req(req);
        let dom = model.split(' ').nth(1) == Some("DOM");
        if !dom {
            return None; // outside the theorem's domain (shrinking may leave it): no verdict
        }
        let expected = format!(
            "OK {} {}",
            items.len(),
            items.iter().enumerate().map(|(k, i)| i.expected(k + 1)).collect::<Vec<_>>().join(";")
        );
        let got = imp.splitn(3, ' ').nth(2).unwrap_or("");
        Some(got.trim_end() == expected.trim_end())
    }
    fn outcome_kind(&self, imp: &str) -> String {
        imp.split(' ').nth(2).unwrap_or("PANIC").to_string()
    }
    fn shrink(&self, req: &str) -> Vec<String> {
        let (open, items) = parse_req(req);
        let mut out = vec![];
        if items.len() > 1 {
            for i in 0..items.len() {
                let mut v = items.clone();
                v.remove(i);
                out.push(mk_req(open, &v));
            }
        }
        for (idx, it) in items.iter().enumerate() {
            let mut push = |n: Item| {
                let mut v = items.clone();
                v[idx] = n;
                out.push(mk_req(open, &v));
            };
            if it.label.is_some() { let mut n = it.clone(); n.label = None; push(n); }
            if it.output.is_some() { let mut n = it.clone(); n.output = None; push(n); }
            if it.comment.is_some() { let mut n = it.clone(); n.comment = None; push(n); }
            if !it.lead.is_empty() { let mut n = it.clone(); n.lead.clear(); push(n); }
            if !it.trail.is_empty() { let mut n = it.clone(); n.trail.clear(); push(n); }
            if let Some(a) = &it.args {
                for j in 0..a.len() {
                    if a.len() > 1 {
                        let mut n = it.clone();
                        let mut b = a.clone(); b.remove(j);
                        n.args = Some(b);
                        if j < n.argch.len() { n.argch.remove(j); }
                        push(n);
                    }
                    let cs: Vec<char> = a[j].chars().collect();
                    for c in 0..cs.len() {
                        let mut n = it.clone();
                        let mut b = a.clone();
                        let mut d = cs.clone(); d.remove(c);
                        b[j] = d.into_iter().collect();
                        n.args = Some(b);
                        push(n);
                    }
                }
            }
        }
        out
    }
    fn describe(&self, req: &str) -> String {
        let (open, items) = parse_req(req);
        format!("render+parse open={} {:?}", open, items.iter().map(|i| (i.label.clone(), i.output.clone(), i.command.clone(), i.args.clone(), i.comment.clone())).collect::<Vec<_>>())
    }
}
