//! C16, `less_than` / `greater_than`: generators of `f64` literals (everything
//! `str::parse::<f64>` accepts, and near misses), an exact decimal order that is independent of
//! both the model and the toolchain's parser (digit strings + exponents, no floating point), and
//! the toolchain side of the `f64bits` request.
use crate::rng::Rng;

/// literals every run looks at: each one through `f64bits`, each pair through both commands
pub const F64_FIXED: &[&str] = &[
    // ties / neighbours of 2^53
    "9007199254740992", "9007199254740993", "9007199254740994", "9007199254740995", "9007199254740991",
    "9007199254740993.0000000000000000000000000001", "9007199254740992.9999999999999999999999999999",
    "9.007199254740993e15", "900719925474099.3E1",
    // overflow threshold: max finite, the midpoint to 2^1024 (rounds to infinity) and its neighbours
    "1.7976931348623157e308", "1.7976931348623158e308", "1.797693134862315807e308", "1.797693134862315808e308",
    "179769313486231580793728971405303415079934132710037826936173778980444968292764750946649017977587207096330286416692887910946555547851940402630657488671505820681908902000708383676273854845817711531764475730270069855571366959622842914819860834936475292719074168444365510704342711559699508093042880177904174497792",
    "179769313486231580793728971405303415079934132710037826936173778980444968292764750946649017977587207096330286416692887910946555547851940402630657488671505820681908902000708383676273854845817711531764475730270069855571366959622842914819860834936475292719074168444365510704342711559699508093042880177904174497791",
    "179769313486231580793728971405303415079934132710037826936173778980444968292764750946649017977587207096330286416692887910946555547851940402630657488671505820681908902000708383676273854845817711531764475730270069855571366959622842914819860834936475292719074168444365510704342711559699508093042880177904174497791.99999",
    "-1.7976931348623157e308", "-1.7976931348623159e308", "1e308", "1e309", "0.00001e314", "17976931348623157e292",
    // smallest subnormal 2^-1074, its half 2^-1075 (tie: rounds to even = 0) and neighbours
    "4.9406564584124654e-324", "5e-324", "4e-324", "3e-324", "2.5e-324", "2.4703282292062327e-324", "2.4703282292062328e-324",
    "2.4703282292062327208828439643411068618252990130716238221279284125033775363510437593264991818081799618989828234772285886546332835517796989819938739800539093906315035659515570226392290858392449105184435931802849936536152500319370457678249219365623669863658480757001585769269903706311928279558551332927834338409351978015531246597263579574622766465272827220056374006485499977096599470454020828166226237857393450736339007967761930577506740176324673600968951340535537458516661134223766678604162159680461914467291840300530057530849048765391711386591646239524912623653881879636239373280423891018672348497668235089863388587925628302755995657524455507255189313690836254779186948667994968324049705821028513185451396213837722826145437693412532098591327667236328125e-324",
    "2.4703282292062327208828439643411068618252990130716238221279284125033775363510437593264991818081799618989828234772285886546332835517796989819938739800539093906315035659515570226392290858392449105184435931802849936536152500319370457678249219365623669863658480757001585769269903706311928279558551332927834338409351978015531246597263579574622766465272827220056374006485499977096599470454020828166226237857393450736339007967761930577506740176324673600968951340535537458516661134223766678604162159680461914467291840300530057530849048765391711386591646239524912623653881879636239373280423891018672348497668235089863388587925628302755995657524455507255189313690836254779186948667994968324049705821028513185451396213837722826145437693412532098591327667236328126e-324",
    "2.4703282292062327208828439643411068618252990130716238221279284125033775363510437593264991818081799618989828234772285886546332835517796989819938739800539093906315035659515570226392290858392449105184435931802849936536152500319370457678249219365623669863658480757001585769269903706311928279558551332927834338409351978015531246597263579574622766465272827220056374006485499977096599470454020828166226237857393450736339007967761930577506740176324673600968951340535537458516661134223766678604162159680461914467291840300530057530849048765391711386591646239524912623653881879636239373280423891018672348497668235089863388587925628302755995657524455507255189313690836254779186948667994968324049705821028513185451396213837722826145437693412532098591327667236328124e-324",
    "7.4109846876186981626485318930233205854758970392148714663837852375101326090531312779794975454245398856969484704316857659638998506553390969459816219401617281718945106978546710679176872575177347315553307795408549809608457500958111373034747658096871009590975442271004757307809711118935784838675653998783503015228055934046593739791790738723868299395818481660169122019456499931289798411362062484498678713572180352209017023903285791732520220528974020802906854021606612375549983402671300035812486479041385743401875520901590172592547146296175134159774938718574737870961645638908718119841271673056017045493004705269590165763776884908267986972573366521765567941072508764337560846003984904972149117463085539556354188641513168478436313080237596295773983001708984375e-324",
    // smallest normal and the largest subnormal
    "2.2250738585072014e-308", "2.2250738585072011e-308", "2.2250738585072009e-308", "2.225073858507201136057409796709131975934819546351645648023426109724822222021076945516529523908135087914149158913039621106870086438694594645527657207407820621743379988141063267329253552286881372149012981122451451889849057222307285255133155755015914397476397983411801999323962548289017107081850690630666655994938275772572015763062690663332647565300009245888316433037779791869612049497390377829704905051080609940730262937128958950003583799967207254304360284078895771796150945516748243471030702609144621572289880258182545180325707018860872113128079512233426288368622321503775666622503982534335974568884423900265498198385487948292206894721689831099698365846814022854243330660339850886445804001034933970427567186443383770486037861622771738545623065874679014086723327636718751234567890123456789012345678901e-308",
    // huge / tiny exponents
    "1e400", "1e-400", "-1e400", "-1e-400", "1e99999999999", "1e-99999999999", "0e99999999999", "-0e-99999999999", "0.0e99999999999",
    "1e+400", "1E400", "123456789012345678901234567890e-30", "0.000000000000000000000000000001e30",
    // zeros
    "-0", "0e5", "+0", "-0.0", ".0", "0.", "-.0e9", "00", "0.000",
    // ordinary values, non-terminating binary fractions, 17 digit neighbours
    "0.1", "0.10000000000000000555", "0.1000000000000000055511151231257827021181583404541015625", "0.3", "0.30000000000000004", "0.1e1", "1", "1.0000000000000002", "1.0000000000000001", "1.00000000000000011102230246251565404236316680908203125", "1.00000000000000011102230246251565404236316680908203126",
    "-1", "-1.0000000000000002", "123456789012345678", "1234567890123456789012345678901234567890",
    // infinities and NaN
    "inf", "-inf", "+Infinity", "iNfInItY", "NaN", "-nan", "+NAN",
];

/// spellings `str::parse::<f64>` might be thought to accept (most are rejected)
pub const MALFORMED: &[&str] = &[
    "", " ", "+", "-", ".", "+.", "-.", "e", "e5", ".e1", "1e", "1e+", "1e-", "1E", "1e+-5", "1e1.5", "1e 5", "1 e5", "1..2", "1.2.3",
    "+-1", "--1", "++1", "-+1", "1-", "1+", " 1", "1 ", "\t1", "1\n", "1_0", "1_000.5", "0x10", "0x1p3", "0b1", "1f", "1.0f64", "1d",
    "١", "１", "1e５", "1,5", "1'000", "infinit", "in", "infinityy", "inf ", " inf", "i nf", "nane", "nan(1)", "NaN()", "+-inf", "-+nan",
    "∞", "-∞", "infe5", "nan.0", "1inf", "0inf", ".inf", "١e5", "1e١", "1.٥",
];

// ---------------------------------------------------------------------------------------------
// a tiny unsigned bignum (base 10^9), enough for exact decimal expansions of m * 2^e
// ---------------------------------------------------------------------------------------------
pub struct Big(Vec<u32>);
impl Big {
    pub fn from_u64(v: u64) -> Big {
        let mut b = Big(vec![]);
        let mut v = v;
        while v > 0 {
            b.0.push((v % 1_000_000_000) as u32);
            v /= 1_000_000_000;
        }
        b
    }
    pub fn mul_small(&mut self, k: u32) {
        let mut carry = 0u64;
        for d in self.0.iter_mut() {
            let x = *d as u64 * k as u64 + carry;
            *d = (x % 1_000_000_000) as u32;
            carry = x / 1_000_000_000;
        }
        while carry > 0 {
            self.0.push((carry % 1_000_000_000) as u32);
            carry /= 1_000_000_000;
        }
    }
    pub fn mul_pow(&mut self, base: u32, mut n: u32) {
        // base^k chunks that fit u32
        let (chunk, per) = if base == 2 { (1u32 << 30, 30) } else { (1_220_703_125u32, 13) }; // 5^13
        while n >= per {
            self.mul_small(chunk);
            n -= per;
        }
        for _ in 0..n {
            self.mul_small(base);
        }
    }
    pub fn to_dec(&self) -> String {
        if self.0.is_empty() {
            return "0".into();
        }
        let mut s = format!("{}", self.0[self.0.len() - 1]);
        for d in self.0.iter().rev().skip(1) {
            s.push_str(&format!("{:09}", d));
        }
        s
    }
}

/// exact decimal expansion of `n * 2^e` (n odd or not), plain positional notation
pub fn exact_decimal(n: u64, e: i32) -> String {
    let mut b = Big::from_u64(n);
    if e >= 0 {
        b.mul_pow(2, e as u32);
        b.to_dec()
    } else {
        let k = (-e) as usize;
        b.mul_pow(5, k as u32);
        let s = b.to_dec();
        let s = if s.len() <= k { format!("{}{}", "0".repeat(k + 1 - s.len()), s) } else { s };
        let (ip, fp) = s.split_at(s.len() - k);
        format!("{}.{}", ip, fp)
    }
}

/// (m, e) with value m * 2^e, m < 2^53, e >= -1074, for a finite non-negative double
pub fn decompose(x: f64) -> (u64, i32) {
    let bits = x.to_bits();
    let be = ((bits >> 52) & 0x7ff) as i32;
    let frac = bits & ((1u64 << 52) - 1);
    if be == 0 { (frac, -1074) } else { (frac | (1u64 << 52), be - 1075) }
}

/// the same decimal digits with the point moved and an exponent written out
pub fn respell(plain: &str, rng: &mut Rng) -> String {
    let (neg, body) = match plain.strip_prefix('-') {
        Some(r) => ("-", r),
        None => ("", plain),
    };
    let (ip, fp) = match body.split_once('.') {
        Some((a, b)) => (a, b),
        None => (body, ""),
    };
    let digits: String = format!("{}{}", ip, fp);
    let exp0 = -(fp.len() as i64); // value = digits * 10^exp0
    match rng.below(6) {
        0 => plain.to_string(),
        1 => format!("{}{}e{}", neg, digits, exp0),
        2 => {
            // d.ddd e x
            let t = digits.trim_start_matches('0');
            if t.is_empty() {
                return plain.to_string();
            }
            let (h, r) = t.split_at(1);
            let x = exp0 + r.len() as i64;
            format!("{}{}.{}{}{}", neg, h, r, if rng.chance(1, 2) { "e" } else { "E" }, x)
        }
        3 => {
            // zeros appended, exponent lowered
            let k = rng.below(420) as i64;
            format!("{}{}{}e{}", neg, digits, "0".repeat(k as usize), exp0 - k)
        }
        4 => {
            // 0.000ddd, exponent raised
            let k = rng.below(420) as i64;
            format!("{}0.{}{}e+{}", neg, "0".repeat(k as usize), digits, exp0 + k + digits.len() as i64).replace("e+-", "e-")
        }
        _ => {
            let k = rng.below(digits.len() + 1);
            format!("{}{}.{}e{}", neg, &digits[..k], &digits[k..], exp0 + (digits.len() - k) as i64)
        }
    }
}

/// add (`up`) or subtract one unit in the last written mantissa digit (digits before any `e`)
pub fn unit_last(lit: &str, up: bool) -> String {
    let epos = lit.find(|c| c == 'e' || c == 'E').unwrap_or(lit.len());
    let (mant, tail) = lit.split_at(epos);
    let mut cs: Vec<u8> = mant.bytes().collect();
    let mut i = cs.len();
    loop {
        // previous digit position
        let mut j = i;
        let mut found = None;
        while j > 0 {
            j -= 1;
            if cs[j].is_ascii_digit() {
                found = Some(j);
                break;
            }
        }
        let Some(p) = found else {
            // carry out of the first digit / borrow from nothing
            if up {
                let at = cs.iter().position(|c| c.is_ascii_digit()).unwrap_or(0);
                cs.insert(at, b'1');
                return format!("{}{}", String::from_utf8(cs).unwrap(), tail);
            }
            return lit.to_string();
        };
        if up {
            if cs[p] == b'9' { cs[p] = b'0'; i = p; } else { cs[p] += 1; break; }
        } else if cs[p] == b'0' { cs[p] = b'9'; i = p; } else { cs[p] -= 1; break; }
    }
    format!("{}{}", String::from_utf8(cs).unwrap(), tail)
}

/// more digits after the last mantissa digit (the value moves up by less than one unit)
pub fn append_digits(lit: &str, extra: &str) -> String {
    let epos = lit.find(|c| c == 'e' || c == 'E').unwrap_or(lit.len());
    let (mant, tail) = lit.split_at(epos);
    if mant.contains('.') { format!("{}{}{}", mant, extra, tail) } else { format!("{}.{}{}", mant, extra, tail) }
}

fn random_case(word: &str, rng: &mut Rng) -> String {
    word.chars().map(|c| if rng.chance(1, 2) { c.to_ascii_uppercase() } else { c.to_ascii_lowercase() }).collect()
}

fn random_double(rng: &mut Rng) -> f64 {
    // a finite non-negative double; every exponent field equally likely, subnormals over-weighted
    let frac = match rng.below(6) {
        0 => 0,
        1 => (1u64 << 52) - 1,
        2 => rng.next() & 0xff,
        _ => rng.next() & ((1u64 << 52) - 1),
    };
    let be = match rng.below(10) {
        0 => 0,
        1 => 1,
        2 => 2046,
        3 => 1023 + rng.below(64) as u64,
        4 => 1075 - rng.below(8) as u64,
        _ => rng.below(2047) as u64,
    };
    f64::from_bits((be << 52) | frac)
}

fn digits(rng: &mut Rng, n: usize) -> String {
    (0..n).map(|_| (b'0' + rng.below(10) as u8) as char).collect()
}

fn digits_r(rng: &mut Rng, lo: usize, span: usize) -> String {
    let n = lo + rng.below(span);
    digits(rng, n)
}

fn sign(rng: &mut Rng) -> &'static str {
    ["", "", "", "-", "-", "+"][rng.below(6)]
}

/// the midpoint between `x` and the next double above it, exactly, in plain notation
pub fn midpoint_above(x: f64) -> String {
    let (m, e) = decompose(x);
    exact_decimal(2 * m + 1, e - 1)
}

/// one literal (valid most of the time)
pub fn gen_lit(rng: &mut Rng) -> String {
    match rng.below(16) {
        0 => rng.pick_s(F64_FIXED).to_string(),
        1 => {
            if rng.chance(1, 2) { rng.pick_s(MALFORMED).to_string() } else {
                // a valid literal with one character damaged
                let mut cs: Vec<char> = gen_lit(rng).chars().collect();
                let junk = ['_', ' ', 'x', 'e', '.', '-', '+', 'f', '٣', 'E', 'n', 'i'];
                if cs.is_empty() || rng.chance(1, 2) {
                    let at = rng.below(cs.len() + 1);
                    cs.insert(at, *rng.pick(&junk));
                } else {
                    let at = rng.below(cs.len());
                    cs.remove(at);
                }
                cs.into_iter().collect()
            }
        }
        2 => {
            let w = random_case(*rng.pick(&["inf", "infinity", "nan"]), rng);
            format!("{}{}", sign(rng), w)
        }
        3 | 4 => {
            // a double, printed shortest / with 17 digits / positionally, then respelled
            let x = random_double(rng);
            let s = match rng.below(4) {
                0 => format!("{:e}", x),
                1 => format!("{:.16e}", x),
                2 => format!("{:.20e}", x),
                _ => format!("{}", x),
            };
            let s = if rng.chance(1, 3) && !s.contains('e') { respell(&s, rng) } else { s };
            format!("{}{}", sign(rng), s)
        }
        5 | 6 => {
            // exact midpoint between two adjacent doubles, or one unit in a far digit away from it
            let x = random_double(rng);
            if x.to_bits() >> 52 == 2046 && rng.chance(1, 2) {
                return format!("{}{}", sign(rng), respell(&midpoint_above(f64::MAX), rng));
            }
            let mid = midpoint_above(x);
            let lit = match rng.below(5) {
                0 | 1 => mid,
                2 => unit_last(&mid, false),
                3 => unit_last(&mid, true),
                _ => append_digits(&mid, &format!("{}1", "0".repeat(rng.below(30)))),
            };
            format!("{}{}", sign(rng), respell(&lit, rng))
        }
        7 => {
            // subnormal range and the underflow threshold
            let k = rng.range(0, 4096) as u64;
            let x = f64::from_bits(if rng.chance(1, 2) { k } else { rng.next() & ((1u64 << 52) - 1) });
            let s = match rng.below(3) {
                0 => format!("{:e}", x),
                1 => format!("{:.16e}", x),
                _ => respell(&midpoint_above(x), rng),
            };
            format!("{}{}", sign(rng), s)
        }
        8 => {
            // 16..40 digit literals
            let n = 16 + rng.below(25);
            let d = digits(rng, n);
            let k = rng.below(n + 1);
            let body = match rng.below(4) {
                0 => d,
                1 => format!("{}.{}", &d[..k], &d[k..]),
                2 => format!("{}.{}e{}", &d[..k], &d[k..], rng.range(-340, 320)),
                _ => format!("{}e{}", d, rng.range(-360, 300)),
            };
            format!("{}{}", sign(rng), body)
        }
        9 => {
            // huge / tiny exponents, saturating
            let m = match rng.below(4) {
                0 => "0".to_string(),
                1 => "1".to_string(),
                2 => format!("0.{}", digits_r(rng, 1, 5)),
                _ => digits_r(rng, 1, 20),
            };
            let e = match rng.below(6) {
                0 => rng.range(300, 330).to_string(),
                1 => rng.range(-345, -300).to_string(),
                2 => "400".into(),
                3 => "-400".into(),
                4 => format!("{}{}", ["", "-", "+"][rng.below(3)], digits_r(rng, 3, 25)),
                _ => rng.range(-99999, 99999).to_string(),
            };
            format!("{}{}{}{}", sign(rng), m, if rng.chance(1, 2) { "e" } else { "E" }, e)
        }
        10 => {
            // zeros
            let z = *rng.pick(&["0", "0.0", ".0", "0.", "00", "0.000", "0e5", "0e-5", "0.0e+0", "0E99999", ".0e-99999999999999999999"]);
            format!("{}{}", sign(rng), z)
        }
        11 => {
            // around the overflow threshold
            let s = *rng.pick(&["1.7976931348623157", "1.7976931348623158", "1.797693134862315807", "1.797693134862315808", "1.79769313486231570814527423731704357", "1.79769313486231580793728971405303415"]);
            let t = match rng.below(3) { 0 => s.to_string(), 1 => unit_last(s, rng.chance(1, 2)), _ => append_digits(s, &digits_r(rng, 1, 8)) };
            format!("{}{}", sign(rng), respell(&format!("{}{}", t.replace('.', ""), "0".repeat(309 - t.len() + 1)), rng))
        }
        12 => {
            // integers around 2^53 .. 2^64 (every second / fourth integer is a double)
            let base = 1u64 << (53 + rng.below(11));
            let v = base.wrapping_add(rng.below(9) as u64).wrapping_sub(4);
            format!("{}{}", sign(rng), v)
        }
        13 => {
            // `.5`, `5.`, short decimals with signs and exponents
            let a = digits_r(rng, 0, 4);
            let b = digits_r(rng, 0, 4);
            let e = if rng.chance(1, 2) { format!("{}{}{}", *rng.pick(&["e", "E"]), *rng.pick(&["", "+", "-"]), digits_r(rng, 1, 2)) } else { String::new() };
            format!("{}{}{}{}{}", sign(rng), a, if rng.chance(2, 3) { "." } else { "" }, b, e)
        }
        _ => {
            // plain decimals with up to 15 digits (the exact class of the old model)
            let ip = rng.range(0, 999_999);
            let fd = rng.below(8);
            format!("{}{}.{}", sign(rng), ip, digits(rng, fd))
        }
    }
}

/// a second operand related to the first: equal, one unit away in the last digit, more digits,
/// the neighbouring double, or the midpoint towards it
pub fn gen_related(a: &str, rng: &mut Rng) -> String {
    let Ok(x) = a.parse::<f64>() else { return gen_lit(rng) };
    let body = a.trim_start_matches(|c| c == '+' || c == '-');
    let neg = if a.starts_with('-') { "-" } else { "" };
    let numeric = body.as_bytes().first().map(|c| c.is_ascii_digit() || *c == b'.').unwrap_or(false);
    match rng.below(8) {
        0 => a.to_string(),
        1 | 2 if numeric => format!("{}{}", neg, unit_last(body, rng.chance(1, 2))),
        3 if numeric => format!("{}{}", neg, append_digits(body, &format!("{}{}", "0".repeat(rng.below(25)), 1 + rng.below(9)))),
        4 | 5 if x.is_finite() => {
            // the double k ulps away, 17 digits or shortest
            let k = rng.range(-2, 2);
            let bits = x.abs().to_bits() as i64 + k;
            let y = f64::from_bits(bits.max(0) as u64);
            if !y.is_finite() { return format!("{}1.7976931348623159e308", neg); }
            let s = if rng.chance(1, 2) { format!("{:.16e}", y) } else { format!("{:e}", y) };
            format!("{}{}", neg, s)
        }
        6 if x.is_finite() => {
            let y = x.abs();
            let y = if rng.chance(1, 2) && y > 0.0 { f64::from_bits(y.to_bits() - 1) } else { y };
            if y == f64::MAX && rng.chance(1, 2) { return format!("{}{}", neg, midpoint_above(y)); }
            format!("{}{}", neg, respell(&midpoint_above(y), rng))
        }
        _ => gen_lit(rng),
    }
}

// ---------------------------------------------------------------------------------------------
// exact decimal order, without floating point
// ---------------------------------------------------------------------------------------------

#[derive(Debug, Clone, PartialEq)]
pub enum Exact {
    Nan,
    Inf(bool),
    /// sign, significant digits without leading/trailing zeros (empty = zero), and the power of
    /// ten of the position just before the first digit: value = 0.d1d2… * 10^mag
    Dec(bool, Vec<u8>, i128),
}

/// an independent reader of the literal grammar (None = not a literal)
pub fn read_exact(s: &str) -> Option<Exact> {
    let b = s.as_bytes();
    let (neg, d) = match b.first()? {
        b'-' => (true, &b[1..]),
        b'+' => (false, &b[1..]),
        _ => (false, b),
    };
    let lower: Vec<u8> = d.iter().map(|c| c.to_ascii_lowercase()).collect();
    if lower == b"nan" {
        return Some(Exact::Nan);
    }
    if lower == b"inf" || lower == b"infinity" {
        return Some(Exact::Inf(neg));
    }
    let mut i = 0;
    let mut ds: Vec<u8> = vec![];
    let mut frac = 0i128;
    while i < d.len() && d[i].is_ascii_digit() { ds.push(d[i] - b'0'); i += 1; }
    if i < d.len() && d[i] == b'.' {
        i += 1;
        while i < d.len() && d[i].is_ascii_digit() { ds.push(d[i] - b'0'); frac += 1; i += 1; }
    }
    if ds.is_empty() {
        return None;
    }
    let mut exp: i128 = 0;
    if i < d.len() {
        if d[i] != b'e' && d[i] != b'E' { return None; }
        i += 1;
        let mut eneg = false;
        if i < d.len() && (d[i] == b'-' || d[i] == b'+') { eneg = d[i] == b'-'; i += 1; }
        if i >= d.len() { return None; }
        while i < d.len() {
            if !d[i].is_ascii_digit() { return None; }
            // beyond 10^30 the exact exponent no longer matters for any literal the harness writes
            if exp < 1_000_000_000_000_000_000_000_000_000_000 { exp = exp * 10 + (d[i] - b'0') as i128; }
            i += 1;
        }
        if eneg { exp = -exp; }
    }
    let total = ds.len() as i128;
    let lead = ds.iter().take_while(|x| **x == 0).count();
    let mut sig: Vec<u8> = ds[lead..].to_vec();
    while sig.last() == Some(&0) { sig.pop(); }
    // value = 0.(ds) * 10^(total - frac + exp) = 0.(sig) * 10^(total - frac + exp - lead)
    Some(Exact::Dec(neg, sig, total - frac + exp - lead as i128))
}

/// exact `a < b` on the denoted values (None when a NaN is involved)
pub fn exact_lt(a: &Exact, b: &Exact) -> Option<bool> {
    use std::cmp::Ordering::*;
    fn rank(e: &Exact) -> (i8, Vec<u8>, i128) {
        match e {
            Exact::Nan => (0, vec![], 0),
            Exact::Inf(neg) => (if *neg { -2 } else { 2 }, vec![], 0),
            Exact::Dec(_, sig, _) if sig.is_empty() => (0, vec![], 0),
            Exact::Dec(neg, sig, mag) => (if *neg { -1 } else { 1 }, sig.clone(), *mag),
        }
    }
    if *a == Exact::Nan || *b == Exact::Nan {
        return None;
    }
    let (ra, sa, ma) = rank(a);
    let (rb, sb, mb) = rank(b);
    if ra != rb {
        return Some(ra < rb);
    }
    if ra == 0 || ra.abs() == 2 {
        return Some(false);
    }
    let mag_order = match ma.cmp(&mb) {
        Equal => sa.cmp(&sb), // no trailing zeros: lexicographic order is numeric order
        o => o,
    };
    Some(if ra > 0 { mag_order == Less } else { mag_order == Greater })
}

/// the toolchain's answer to `f64bits <text>`
pub fn bits_of_toolchain(s: &str) -> String {
    match s.parse::<f64>() {
        Err(_) => "ERR".into(),
        Ok(v) if v.is_nan() => "NAN".into(),
        Ok(v) => format!("{:016x}", v.to_bits()),
    }
}
