use crate::Prop;
pub mod c01;
pub mod c02;
pub mod c03;
pub mod c06;
pub mod c08;
pub mod c13;
pub mod c15;

pub fn lookup(id: &str) -> Option<&'static dyn Prop> {
    match id {
        "C01" => Some(&c01::C01),
        "C02" => Some(&c02::C02),
        "C03" => Some(&c03::C03),
        "C06" => Some(&c06::C06),
        "C08" => Some(&c08::C08),
        "C13" => Some(&c13::C13),
        "C15" => Some(&c15::C15),
        _ => None,
    }
}
