use crate::Prop;
pub mod c01;
pub mod c02;
pub mod c03;
pub mod c04;
pub mod c05;
pub mod c06;
pub mod c07;
pub mod c08;
pub mod c09;
pub mod c10;
pub mod c11;
pub mod c12;
pub mod c13;
pub mod c14;
pub mod c15;
pub mod c16;
pub mod c16ext;
pub mod c16f64;
pub mod c17;
pub mod c18;
pub mod c19;
pub mod c20;

pub fn lookup(id: &str) -> Option<&'static dyn Prop> {
    match id {
        "C01" => Some(&c01::C01),
        "C02" => Some(&c02::C02),
        "C03" => Some(&c03::C03),
        "C04" => Some(&c04::C04),
        "C05" => Some(&c05::C05),
        "C06" => Some(&c06::C06),
        "C07" => Some(&c07::C07),
        "C08" => Some(&c08::C08),
        "C09" => Some(&c09::C09),
        "C10" => Some(&c10::C10),
        "C11" => Some(&c11::C11),
        "C12" => Some(&c12::C12),
        "C13" => Some(&c13::C13),
        "C14" => Some(&c14::C14),
        "C15" => Some(&c15::C15),
        "C16" => Some(&c16::C16),
        "C17" => Some(&c17::C17),
        "C18" => Some(&c18::C18),
        "C19" => Some(&c19::C19),
        "C20" => Some(&c20::C20),
        _ => None,
    }
}
