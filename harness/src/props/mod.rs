use crate::Prop;
pub mod c01;
pub mod c03;
pub mod c08;

pub fn lookup(id: &str) -> Option<&'static dyn Prop> {
    match id {
        "C01" => Some(&c01::C01),
        "C03" => Some(&c03::C03),
        "C08" => Some(&c08::C08),
        _ => None,
    }
}
