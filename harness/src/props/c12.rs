//! C12: arrays, maps and sets behind handles behave like their plain counterparts.
//!
//! request  `coll <op> <op> …`, op = `<command>:<arg>,<arg>…`, arg = `h<hex>` literal or `@k`
//! (the content of the output variable of op k).  See lean/DuckModel/Drv/C12.lean.
use crate::rng::Rng;
use crate::sdkenv::*;
use crate::wire::*;
use crate::{Case, Prop, Tier};
use duckscript::types::command::CommandResult;
use duckscript::types::runtime::{Context, StateValue};
use std::collections::HashMap;

pub struct C12Prop;
pub static C12: C12Prop = C12Prop;

#[derive(Clone, Debug, PartialEq)]
enum Arg {
    Lit(String),
    Ref(usize),
}
#[derive(Clone, Debug)]
struct Op {
    cmd: String,
    args: Vec<Arg>,
}

fn enc_ops(ops: &[Op]) -> String {
    enc_ops_as("coll", ops)
}
/// `srun …`: the same history, the model running the script commands of `SOURCE_RUN` from their
/// regenerated script.ds (lean/DuckModel/Drv/C12S.lean) instead of their specified function
fn enc_ops_as(op: &str, ops: &[Op]) -> String {
    let mut s = String::from(op);
    for o in ops {
        s.push(' ');
        s.push_str(&o.cmd);
        s.push(':');
        let a: Vec<String> = o.args.iter().map(|a| match a { Arg::Lit(v) => enc_str(v), Arg::Ref(k) => format!("@{}", k) }).collect();
        s.push_str(&a.join(","));
    }
    s
}
fn dec_ops(req: &str) -> Vec<Op> {
    let mut out = vec![];
    for t in req.split(' ').skip(1) {
        if t.is_empty() {
            continue;
        }
        let (c, a) = t.split_once(':').unwrap();
        let args = if a.is_empty() { vec![] } else { a.split(',').map(|x| if let Some(k) = x.strip_prefix('@') { Arg::Ref(k.parse().unwrap()) } else { Arg::Lit(dec_str(x).unwrap()) }).collect() };
        out.push(Op { cmd: c.to_string(), args });
    }
    out
}

// ---------------------------------------------------------------- running the real SDK

const SCRIPT_CMDS: [&str; 9] = ["array_is_empty", "array_contains", "array_concat", "array_join", "map_contains_key", "map_contains_value", "map_is_empty", "set_from_array", "set_is_empty"];

/// script commands the model runs from source (Sdk/ScriptRun.lean; lean/DuckModel/Drv/C12S.lean
/// `nameOfCmd`): all nine collection scripts (array_contains / array_join with calc, strlen,
/// substring, is_empty inside their bodies)
const SOURCE_RUN: [&str; 9] = ["array_is_empty", "map_is_empty", "set_is_empty", "map_contains_key", "set_from_array", "array_concat", "map_contains_value", "array_contains", "array_join"];

fn handles(ctx: &Context) -> Option<&HashMap<String, StateValue>> {
    match ctx.state.get("handles") {
        Some(StateValue::SubState(m)) => Some(m),
        _ => None,
    }
}
fn handles_mut(ctx: &mut Context) -> Option<&mut HashMap<String, StateValue>> {
    match ctx.state.get_mut("handles") {
        Some(StateValue::SubState(m)) => Some(m),
        _ => None,
    }
}
fn is_handle_shape(s: &str) -> bool {
    s.len() == 27 && s.starts_with("handle:") && s[7..].bytes().all(|b| b.is_ascii_alphanumeric())
}

/// real handles in order of first appearance in a command output
struct Names(Vec<String>, Vec<String>);
impl Names {
    /// register every live table key that occurs in `out`, left to right; a new key gets the
    /// label `handle:<k>` (k = order of first appearance)
    fn see(&mut self, out: &str, ctx: &Context) {
        let live = match handles(ctx) {
            Some(h) => h,
            None => return,
        };
        let b = out.as_bytes();
        let mut i = 0;
        while i + 27 <= b.len() {
            if out.is_char_boundary(i) && out.is_char_boundary(i + 27) && is_handle_shape(&out[i..i + 27]) && live.contains_key(&out[i..i + 27]) {
                let h = out[i..i + 27].to_string();
                if !self.0.contains(&h) {
                    self.0.push(h);
                    self.1.push(format!("handle:{}", self.0.len()));
                }
                i += 27;
            } else {
                i += 1;
            }
        }
    }
    /// `srun`: the model numbers its handles by allocation (the wrapper's temporary argument
    /// arrays take numbers too); a real handle that is the WHOLE output of operation k gets the
    /// name the model gave to the output of operation k
    fn see_as(&mut self, out: &str, ctx: &Context, label: Option<String>) {
        let live = match handles(ctx) {
            Some(h) => h,
            None => return,
        };
        if is_handle_shape(out) && live.contains_key(out) && !self.0.contains(&out.to_string()) {
            self.0.push(out.to_string());
            self.1.push(label.unwrap_or_else(|| format!("UNMAPPED-HANDLE-{}", self.0.len())));
        }
    }
    fn rename(&self, s: &str) -> String {
        let mut r = s.to_string();
        for (k, h) in self.0.iter().enumerate() {
            if r.contains(h.as_str()) {
                r = r.replace(h.as_str(), &self.1[k]);
            }
        }
        r
    }
}

fn enc_cell(v: &StateValue, names: &Names) -> String {
    match v {
        StateValue::String(s) => enc_str(&names.rename(s)),
        StateValue::Number64Bit(n) => format!("n{}", &enc_str(&n.to_string())[1..]),
        other => format!("?{:?}", std::mem::discriminant(other)),
    }
}
fn enc_value(v: &StateValue, names: &Names) -> String {
    match v {
        StateValue::List(l) => format!("L[{}]", l.iter().map(|c| enc_cell(c, names)).collect::<Vec<_>>().join(",")),
        StateValue::SubState(m) => {
            let mut e: Vec<String> = m.iter().map(|(k, c)| format!("{}>{}", enc_str(&names.rename(k)), enc_cell(c, names))).collect();
            e.sort();
            format!("M[{}]", e.join(","))
        }
        StateValue::Set(s) => {
            let mut e: Vec<String> = s.iter().map(|k| enc_str(&names.rename(k))).collect();
            e.sort();
            format!("S[{}]", e.join(","))
        }
        other => match foreign_tag(other) {
            Some((t, true)) => format!("O{}", t),
            Some((t, false)) => format!("O{}!changed", t),
            None => "O".to_string(),
        },
    }
}
/// the embedder-made values of the ten non-collection kinds (`__foreign:<tag>`)
fn foreign_value(tag: usize) -> StateValue {
    match tag {
        0 => StateValue::Boolean(true),
        1 => StateValue::Number(-7),
        2 => StateValue::UnsignedNumber(7),
        3 => StateValue::Number32Bit(-32),
        4 => StateValue::UnsignedNumber32Bit(32),
        5 => StateValue::Number64Bit(-64),
        6 => StateValue::UnsignedNumber64Bit(64),
        7 => StateValue::String("foreign".to_string()),
        8 => StateValue::ByteArray(vec![1, 2, 3]),
        _ => StateValue::Any(std::rc::Rc::new(std::cell::RefCell::new(9u8))),
    }
}
/// (tag, value unchanged?) of a non-collection value
fn foreign_tag(v: &StateValue) -> Option<(usize, bool)> {
    Some(match v {
        StateValue::Boolean(b) => (0, *b),
        StateValue::Number(n) => (1, *n == -7),
        StateValue::UnsignedNumber(n) => (2, *n == 7),
        StateValue::Number32Bit(n) => (3, *n == -32),
        StateValue::UnsignedNumber32Bit(n) => (4, *n == 32),
        StateValue::Number64Bit(n) => (5, *n == -64),
        StateValue::UnsignedNumber64Bit(n) => (6, *n == 64),
        StateValue::String(x) => (7, x == "foreign"),
        StateValue::ByteArray(b) => (8, b == &vec![1u8, 2, 3]),
        StateValue::Any(a) => (9, a.borrow().downcast_ref::<u8>() == Some(&9u8)),
        _ => return None,
    })
}
fn cell_string(v: &StateValue) -> Option<String> {
    match v {
        StateValue::String(s) => Some(s.clone()),
        StateValue::Number64Bit(n) => Some(n.to_string()),
        _ => None,
    }
}

fn call(ctx: &mut Context, cmd: &str, vals: &[&str]) -> CommandResult {
    let mut args = vec![];
    for (i, v) in vals.iter().enumerate() {
        ctx.variables.insert(format!("rb{}", i), v.to_string());
        args.push(format!("${{rb{}}}", i));
    }
    run_one(ctx, cmd, args, None).0
}

fn is_cont(r: &CommandResult, expect: &Option<String>) -> bool {
    match r {
        CommandResult::Continue(v) => v == expect,
        _ => false,
    }
}

/// re-read every live collection through the public commands and compare with the state
fn readback_ok(ctx: &mut Context) -> bool {
    let snapshot: Vec<(String, StateValue)> = match handles(ctx) {
        Some(h) => h.iter().map(|(k, v)| (k.clone(), v.clone())).collect(),
        None => vec![],
    };
    for (h, v) in snapshot {
        match v {
            StateValue::List(l) => {
                if !is_cont(&call(ctx, "array_length", &[&h]), &Some(l.len().to_string())) {
                    return false;
                }
                for (i, c) in l.iter().enumerate() {
                    if !is_cont(&call(ctx, "array_get", &[&h, &i.to_string()]), &cell_string(c)) {
                        return false;
                    }
                }
                if !is_cont(&call(ctx, "array_get", &[&h, &l.len().to_string()]), &None) {
                    return false;
                }
            }
            StateValue::SubState(m) => {
                if !is_cont(&call(ctx, "map_size", &[&h]), &Some(m.len().to_string())) {
                    return false;
                }
                for (k, c) in m.iter() {
                    if !is_cont(&call(ctx, "map_get", &[&h, k]), &cell_string(c)) {
                        return false;
                    }
                }
            }
            StateValue::Set(s) => {
                if !is_cont(&call(ctx, "set_size", &[&h]), &Some(s.len().to_string())) {
                    return false;
                }
                for k in s.iter() {
                    if !is_cont(&call(ctx, "set_contains", &[&h, k]), &Some("true".to_string())) {
                        return false;
                    }
                }
            }
            _ => {}
        }
    }
    true
}

fn run_history(ops: &[Op]) -> String {
    run_history_with(ops, None)
}

/// `model_outs` (srun): the model's per-operation outputs, used to NAME the real handles
fn run_history_with(ops: &[Op], model_outs: Option<Vec<Option<String>>>) -> String {
    let mut ctx = sdk_context();
    let mut names = Names(vec![], vec![]);
    let mut outs: Vec<String> = vec![];
    let mut custom_keys: Vec<String> = vec![];
    let vars_before = ctx.variables.len();
    let mut expected_vars = vars_before;
    for (k, op) in ops.iter().enumerate() {
        if op.cmd == "__foreignlist" {
            // the embedder stores an array in the handle table under a key of its own choosing
            let key = match op.args.get(0) { Some(Arg::Lit(t)) => t.clone(), _ => "inventory".to_string() };
            if handles(&ctx).is_none() {
                ctx.state.insert("handles".to_string(), StateValue::SubState(HashMap::new()));
            }
            let list = ["apple", "pear", "plum"].iter().map(|s| StateValue::String(s.to_string())).collect();
            handles_mut(&mut ctx).unwrap().insert(key.clone(), StateValue::List(list));
            custom_keys.push(key.clone());
            outs.push(enc_str(&key));
            ctx.variables.insert(format!("o{}", k), key);
            expected_vars += 1;
            continue;
        }
        if op.cmd == "__foreign" {
            // the embedder stores a non-collection value under a fresh handle key
            let tag: usize = match op.args.get(0) { Some(Arg::Lit(t)) => t.parse().unwrap_or(0), _ => 0 };
            let key = format!("handle:foreign{:013}", k);
            if handles(&ctx).is_none() {
                ctx.state.insert("handles".to_string(), StateValue::SubState(HashMap::new()));
            }
            handles_mut(&mut ctx).unwrap().insert(key.clone(), foreign_value(tag));
            match &model_outs { Some(m) => names.see_as(&key, &ctx, m.get(k).cloned().flatten()), None => names.see(&key, &ctx) }
            outs.push(enc_str(&names.rename(&key)));
            ctx.variables.insert(format!("o{}", k), key);
            expected_vars += 1;
            continue;
        }
        let mut args = vec![];
        for (j, a) in op.args.iter().enumerate() {
            match a {
                Arg::Lit(v) => {
                    let name = format!("a{}_{}", k, j);
                    if ctx.variables.insert(name.clone(), v.clone()).is_none() {
                        expected_vars += 1;
                    }
                    args.push(format!("${{{}}}", name));
                }
                Arg::Ref(i) => args.push(format!("${{o{}}}", i)),
            }
        }
        let ovar = format!("o{}", k);
        // the output variable may already hold something - in particular the handle of a live
        // collection made earlier (`row = range 0 3 ; … ; row = range 10 12`): what a variable
        // holds before the call is not an input of the command
        if k > 0 && crate::hash_str(&format!("{}:{}", k, op.cmd)) % 3 == 0 {
            let j = (crate::hash_str(&op.cmd) as usize + k) % k;
            if let Some(v) = ctx.variables.get(&format!("o{}", j)).cloned() {
                if ctx.variables.insert(ovar.clone(), v).is_none() {
                    expected_vars += 1;
                }
            }
        }
        let pre = ctx.variables.contains_key(&ovar);
        let (res, _) = run_one(&mut ctx, &op.cmd, args, Some(ovar.clone()));
        match res {
            CommandResult::Continue(Some(v)) => {
                // iteration order of HashMap / HashSet is unspecified: take the ascending representative
                match &model_outs { Some(m) => names.see_as(&v, &ctx, m.get(k).cloned().flatten()), None => names.see(&v, &ctx) }
                if op.cmd == "map_keys" || op.cmd == "set_to_array" {
                    if let Some(h) = handles_mut(&mut ctx) {
                        if let Some(StateValue::List(l)) = h.get_mut(&v) {
                            // (ordered by the renamed text: stored real handles are random strings)
                            l.sort_by_key(|a| cell_string(a).map(|s| names.rename(&s)));
                        }
                    }
                }
                outs.push(enc_str(&names.rename(&v)));
                ctx.variables.insert(ovar, v);
                if !pre { expected_vars += 1; }
            }
            CommandResult::Continue(None) => {
                outs.push("-".to_string());
                ctx.variables.remove(&ovar);
                if pre { expected_vars -= 1; }
            }
            CommandResult::Error(_) => {
                outs.push("E".to_string());
                ctx.variables.insert(ovar, "false".to_string());
                if !pre { expected_vars += 1; }
            }
            CommandResult::Crash(_) => {
                outs.push("X".to_string());
                ctx.variables.insert(ovar, "false".to_string());
                if !pre { expected_vars += 1; }
            }
            other => outs.push(format!("?{:?}", std::mem::discriminant(&other))),
        }
    }
    let leaked_vars = ctx.variables.len() != expected_vars;
    let mut entries: Vec<String> = match handles(&ctx) {
        Some(h) => h
            .iter()
            .map(|(k, v)| {
                let key = if names.0.contains(k) { names.rename(k) } else if custom_keys.contains(k) { k.clone() } else { format!("LEAKED-HANDLE:{}", enc_value(v, &names)) };
                format!("{}={}", enc_str(&key), enc_value(v, &names))
            })
            .collect(),
        None => vec![],
    };
    entries.sort();
    let mut line = format!("{} {}", if outs.is_empty() { "-".to_string() } else { outs.join(",") }, if entries.is_empty() { "-".to_string() } else { entries.join(";") });
    if leaked_vars {
        line.push_str(" LEAKED-VARIABLES");
    }
    if !readback_ok(&mut ctx) {
        line.push_str(" READBACK-MISMATCH");
    }
    line
}

// ---------------------------------------------------------------- generation

/// odd values (all commands)
const ODD_VALUES: [&str; 30] = [
    "", "a", "b", "x y", " ", "  two  ", "ü", "日本語", "🦆", "handle:abcdefghijklmnopqrst", "handle:", "handle:x1", "true", "false", "0", "1", "-1", "$x", "${a0_0}", "%{o0}", "# c", "\"q\"", "a\nb", "\r", "=z", "\\", "\\${x}", "\t", "a,b", "-r",
];
/// word-like values
// (members / keys that differ only in letter case — `a` `A`, `z` `Z`, sigma / final sigma / capital sigma,
// `k` `K` and the Kelvin sign — are DIFFERENT members)
const SAFE_VALUES: [&str; 22] = ["a", "b", "c", "x y", "A_1.-", "ü", "日本語", "handle:abcdefghijklmnopqrst", "7", "0", "key 1", "Z", "é è", "long-value_with.many-parts", "A", "z", "Ü", "σ", "ς", "Σ", "k", "\u{212a}"];
/// separators of the source-run array_join: empty, blank, longer than one char, multi-byte
const JOIN_SEPS: [&str; 12] = [",", ", ", "", "-", "ü", " ", "日本", "--", " | ", "🦆🦆", "ab", "é "];
const INDEXES: [&str; 14] = ["-1", "x", "", "+1", "1.0", " 1", "1 ", "18446744073709551616", "18446744073709551615", "007", "+", "-0", "٣", "0x1"];
const RANGE_ENDS: [&str; 12] = ["0", "1", "3", "-2", "+2", "5", "x", "", "9223372036854775808", "-9223372036854775808", "1.5", "-"];

#[derive(Clone, Copy, PartialEq, Debug)]
enum Kind {
    Arr,
    Map,
    Set,
    /// embedder-made non-collection value (`__foreign`)
    Foreign,
}
struct Track {
    op: usize,
    kind: Kind,
    live: bool,
    /// approximate length (arrays) for index choice
    len: usize,
}

struct Gen<'a> {
    rng: &'a mut Rng,
    ops: Vec<Op>,
    tracks: Vec<Track>,
    safe: bool,
    with_scripts: bool,
    /// `srun` history: of the script commands only those of `SOURCE_RUN`, and more of them
    srun: bool,
    keys_used: Vec<String>,
    tags: Vec<&'static str>,
}

impl<'a> Gen<'a> {
    fn value(&mut self) -> Arg {
        // sometimes a handle (nested collections), otherwise a pool value
        if !self.tracks.is_empty() && self.rng.chance(1, 6) {
            let t = self.rng.below(self.tracks.len());
            return Arg::Ref(self.tracks[t].op);
        }
        let v = if self.safe { self.rng.pick_s(&SAFE_VALUES) } else if self.rng.chance(1, 3) { self.rng.pick_s(&SAFE_VALUES) } else { self.rng.pick_s(&ODD_VALUES) };
        Arg::Lit(v.to_string())
    }
    fn key(&mut self) -> Arg {
        if !self.keys_used.is_empty() && self.rng.chance(1, 2) {
            let i = self.rng.below(self.keys_used.len());
            return Arg::Lit(self.keys_used[i].clone());
        }
        let a = self.value();
        if let Arg::Lit(v) = &a {
            self.keys_used.push(v.clone());
        }
        a
    }
    fn live_count(&self) -> usize {
        self.tracks.iter().filter(|t| t.live).count()
    }
    /// a handle argument: usually a live handle of the wanted kind, sometimes wrong kind /
    /// released / unknown / not a handle at all
    fn handle(&mut self, want: Kind) -> (Arg, Option<usize>) {
        let roll = self.rng.below(20);
        let pick = |g: &mut Gen, f: &dyn Fn(&Track) -> bool| -> Option<usize> {
            let c: Vec<usize> = (0..g.tracks.len()).filter(|i| f(&g.tracks[*i])).collect();
            if c.is_empty() { None } else { Some(c[g.rng.below(c.len())]) }
        };
        let t = if roll < 13 {
            pick(self, &|t| t.live && t.kind == want)
        } else if roll < 16 {
            self.tags.push("kind-confusion");
            pick(self, &|t| t.live && t.kind != want)
        } else if roll < 18 {
            self.tags.push("use-after-release");
            pick(self, &|t| !t.live)
        } else {
            None
        };
        match t {
            Some(i) => (Arg::Ref(self.tracks[i].op), Some(i)),
            None => {
                if roll >= 18 || self.tracks.is_empty() {
                    self.tags.push("unknown-handle");
                    let v = *self.rng.pick(&["handle:abcdefghijklmnopqrst", "nope", "", "handle:0000000000000000000"]);
                    (Arg::Lit(v.to_string()), None)
                } else {
                    let i = self.rng.below(self.tracks.len());
                    (Arg::Ref(self.tracks[i].op), Some(i))
                }
            }
        }
    }
    fn index(&mut self, t: Option<usize>) -> Arg {
        let len = t.map(|i| self.tracks[i].len).unwrap_or(2);
        let r = self.rng.below(10);
        let s = if r < 5 {
            self.rng.below(len.max(1)).to_string()
        } else if r < 7 {
            len.to_string()
        } else if r < 8 {
            (len + 1 + self.rng.below(3)).to_string()
        } else {
            self.tags.push("bad-index");
            self.rng.pick_s(&INDEXES).to_string()
        };
        Arg::Lit(s)
    }
    fn push(&mut self, cmd: &str, args: Vec<Arg>) -> usize {
        self.ops.push(Op { cmd: cmd.to_string(), args });
        self.ops.len() - 1
    }
    fn new_track(&mut self, op: usize, kind: Kind, len: usize) {
        self.tracks.push(Track { op, kind, live: true, len });
    }
    fn step(&mut self) {
        let can_create = self.live_count() < 6;
        let n_native = 27;
        let n = if self.with_scripts { n_native + 9 } else { n_native };
        let mut c = self.rng.below(n + 6);
        if can_create && self.rng.chance(1, 30) {
            let tag = self.rng.below(10);
            let op = self.push("__foreign", vec![lit(&tag.to_string())]);
            self.new_track(op, Kind::Foreign, 0);
            self.tags.push("foreign-kind-handle");
            return;
        }
        // bias towards creation while few handles exist
        if self.live_count() < 2 && self.rng.chance(1, 2) {
            c = [0, 9, 16][self.rng.below(3)];
        } else if self.srun {
            if self.rng.chance(1, 3) {
                // array_contains / array_join (loops + calc / strlen / substring) twice as often
                c = [33, 34, 34, 35, 36, 36, 37, 38, 39, 40, 41][self.rng.below(11)];
            }
        }
        match c {
            0 if can_create => {
                let k = self.rng.below(4);
                let a: Vec<Arg> = (0..k).map(|_| self.value()).collect();
                let o = self.push("array", a);
                self.new_track(o, Kind::Arr, k);
            }
            1 if can_create => {
                let (a, b) = if self.rng.chance(3, 4) {
                    let s = self.rng.range(-3, 3);
                    let e = s + self.rng.range(-1, 4);
                    (s.to_string(), e.to_string())
                } else {
                    let a = self.rng.pick_s(&RANGE_ENDS).to_string();
                    let b = self.rng.pick_s(&RANGE_ENDS).to_string();
                    // a span of 2^63 cells exhausts memory in the real code and in the model alike: not generated
                    match (a.parse::<i64>(), b.parse::<i64>()) {
                        (Ok(x), Ok(y)) if (y as i128) - (x as i128) > 1000 => (a.clone(), a),
                        _ => (a, b),
                    }
                };
                let mut args = vec![Arg::Lit(a), Arg::Lit(b)];
                if self.rng.chance(1, 10) {
                    args.pop();
                }
                let o = self.push("range", args);
                self.new_track(o, Kind::Arr, 3);
            }
            2 | 27 => {
                let (h, t) = self.handle(Kind::Arr);
                let k = 1 + self.rng.below(2);
                let mut a = vec![h];
                for _ in 0..k {
                    let v = self.value();
                    a.push(v);
                }
                self.push("array_push", a);
                if let Some(i) = t {
                    self.tracks[i].len += k;
                }
            }
            3 => {
                let (h, t) = self.handle(Kind::Arr);
                self.push("array_pop", vec![h]);
                if let Some(i) = t {
                    self.tracks[i].len = self.tracks[i].len.saturating_sub(1);
                }
            }
            4 | 28 => {
                let (h, t) = self.handle(Kind::Arr);
                let i = self.index(t);
                self.push("array_get", vec![h, i]);
            }
            5 => {
                let (h, t) = self.handle(Kind::Arr);
                let i = self.index(t);
                let v = self.value();
                self.push("array_set", vec![h, i, v]);
            }
            6 => {
                let (h, t) = self.handle(Kind::Arr);
                let i = self.index(t);
                self.push("array_remove", vec![h, i]);
                if let Some(i) = t {
                    self.tracks[i].len = self.tracks[i].len.saturating_sub(1);
                }
            }
            7 => {
                if self.rng.chance(1, 3) {
                    let (h, t) = self.handle(Kind::Arr);
                    self.push("array_clear", vec![h]);
                    if let Some(i) = t {
                        self.tracks[i].len = 0;
                    }
                } else {
                    let (h, _) = self.handle(Kind::Arr);
                    self.push("array_length", vec![h]);
                }
            }
            8 => {
                let (h, _) = self.handle(Kind::Arr);
                self.push("array_length", vec![h]);
            }
            9 if can_create => {
                let o = self.push("map", vec![]);
                self.new_track(o, Kind::Map, 0);
            }
            10 | 29 | 30 => {
                let (h, _) = self.handle(Kind::Map);
                let k = self.key();
                let v = self.value();
                self.push("map_put", vec![h, k, v]);
            }
            11 | 31 => {
                let (h, _) = self.handle(Kind::Map);
                let k = self.key();
                // (one call in five with a SURPLUS argument: it is ignored — a missing key gives nothing, not that word)
                if self.rng.chance(1, 5) {
                    let extra = self.value();
                    self.push("map_get", vec![h, k, extra]);
                } else {
                    self.push("map_get", vec![h, k]);
                }
            }
            12 => {
                let (h, _) = self.handle(Kind::Map);
                let k = self.key();
                self.push("map_remove", vec![h, k]);
            }
            13 => {
                let (h, _) = self.handle(Kind::Map);
                self.push("map_size", vec![h]);
            }
            14 if can_create => {
                let (h, _) = self.handle(Kind::Map);
                let o = self.push("map_keys", vec![h]);
                self.new_track(o, Kind::Arr, 2);
            }
            15 => {
                if self.rng.chance(1, 3) {
                    let (h, _) = self.handle(Kind::Map);
                    self.push("map_clear", vec![h]);
                } else {
                    let (h, _) = self.handle(Kind::Map);
                    self.push("map_size", vec![h]);
                }
            }
            16 if can_create => {
                let k = self.rng.below(4);
                let a: Vec<Arg> = (0..k).map(|_| self.key()).collect();
                let o = self.push("set_new", a);
                self.new_track(o, Kind::Set, k);
            }
            17 | 32 => {
                let (h, _) = self.handle(Kind::Set);
                let k = 1 + self.rng.below(2);
                let mut a = vec![h];
                for _ in 0..k {
                    let v = self.key();
                    a.push(v);
                }
                self.push("set_put", a);
            }
            18 => {
                let (h, _) = self.handle(Kind::Set);
                let k = self.key();
                self.push("set_remove", vec![h, k]);
            }
            19 => {
                let (h, _) = self.handle(Kind::Set);
                let k = self.key();
                self.push("set_contains", vec![h, k]);
            }
            20 => {
                let (h, _) = self.handle(Kind::Set);
                self.push("set_size", vec![h]);
            }
            21 => {
                if self.rng.chance(1, 3) {
                    let (h, _) = self.handle(Kind::Set);
                    self.push("set_clear", vec![h]);
                } else {
                    let (h, _) = self.handle(Kind::Set);
                    self.push("set_size", vec![h]);
                }
            }
            22 if can_create => {
                let (h, _) = self.handle(Kind::Set);
                let o = self.push("set_to_array", vec![h]);
                self.new_track(o, Kind::Arr, 2);
            }
            23 => {
                let k = *self.rng.pick(&[Kind::Arr, Kind::Map, Kind::Set]);
                let (h, _) = self.handle(k);
                self.push("is_array", vec![h]);
            }
            24 => {
                let k = *self.rng.pick(&[Kind::Arr, Kind::Map, Kind::Set]);
                let (h, _) = self.handle(k);
                self.push("is_map", vec![h]);
            }
            25 => {
                let k = *self.rng.pick(&[Kind::Arr, Kind::Map, Kind::Set]);
                let (h, _) = self.handle(k);
                self.push("is_set", vec![h]);
            }
            26 => {
                // release, sometimes recursive, sometimes with odd argument shapes
                let k = *self.rng.pick(&[Kind::Arr, Kind::Map, Kind::Set]);
                let (h, t) = self.handle(k);
                let r = self.rng.below(10);
                if r < 5 {
                    self.push("release", vec![h]);
                    if let Some(i) = t {
                        self.tracks[i].live = false;
                    }
                } else if r < 9 {
                    self.tags.push("release-recursive");
                    let flag = if self.rng.chance(1, 2) { "-r" } else { "--recursive" };
                    self.push("release", vec![Arg::Lit(flag.to_string()), h]);
                    // nested handles may go too: the tracker only marks the root (others become use-after-release cases)
                    if let Some(i) = t {
                        self.tracks[i].live = false;
                    }
                } else if r == 9 && self.rng.chance(1, 2) {
                    self.push("release", vec![]);
                } else {
                    self.push("release", vec![h, Arg::Lit("-r".to_string())]);
                    if let Some(i) = t {
                        self.tracks[i].live = false;
                    }
                }
            }
            // ---- script-implemented commands (only when with_scripts)
            33 if self.with_scripts => {
                let (h, _) = self.handle(Kind::Arr);
                self.push("array_is_empty", vec![h]);
            }
            34 if self.with_scripts => {
                let (h, t) = self.handle(Kind::Arr);
                // half of the time (when known) a value the array was created with: found at the
                // first / a middle / the last index, repeated cells
                let mut v = self.value();
                if let Some(i) = t {
                    let o = self.tracks[i].op;
                    if self.ops[o].cmd == "array" && !self.ops[o].args.is_empty() && self.rng.chance(1, 2) {
                        let k = self.rng.below(self.ops[o].args.len());
                        v = self.ops[o].args[k].clone();
                        self.tags.push("array-contains-cell-of-creation");
                    }
                }
                if self.srun && self.rng.chance(1, 12) {
                    // too few arguments
                    self.push("array_contains", vec![h]);
                } else {
                    self.push("array_contains", vec![h, v]);
                }
            }
            35 if self.with_scripts && can_create => {
                let k = self.rng.below(3);
                let mut a = vec![];
                for _ in 0..k {
                    let (h, _) = self.handle(Kind::Arr);
                    a.push(h);
                }
                let o = self.push("array_concat", a);
                self.new_track(o, Kind::Arr, 3);
            }
            36 if self.with_scripts => {
                let (h, _) = self.handle(Kind::Arr);
                if self.srun {
                    // the source-run model carries the body's own reading of the separator
                    // (`if not is_empty <separator>` re-parses it as script text): every pool value
                    let sep = if self.rng.chance(1, 2) { self.rng.pick_s(&JOIN_SEPS) } else { self.rng.pick_s(&ODD_VALUES) };
                    if self.rng.chance(1, 12) {
                        self.push("array_join", vec![h]);
                    } else {
                        self.push("array_join", vec![h, Arg::Lit(sep.to_string())]);
                    }
                } else {
                    // mostly plain separators; one in five from the odd pool (a separator outside
                    // the C09-safe class is re-read as script text by the body's `if not is_empty
                    // <separator>`: recorded finding C12-array-join-separator-reread)
                    let sep = if self.rng.chance(1, 5) { self.rng.pick_s(&ODD_VALUES).to_string() } else { self.rng.pick(&[",", ", ", "", "-", "ü", " "]).to_string() };
                    self.push("array_join", vec![h, Arg::Lit(sep)]);
                }
            }
            37 if self.with_scripts => {
                let (h, _) = self.handle(Kind::Map);
                let k = self.key();
                self.push("map_contains_key", vec![h, k]);
            }
            38 if self.with_scripts => {
                let (h, _) = self.handle(Kind::Map);
                let v = self.value();
                self.push("map_contains_value", vec![h, v]);
            }
            39 if self.with_scripts => {
                let (h, _) = self.handle(Kind::Map);
                self.push("map_is_empty", vec![h]);
            }
            40 if self.with_scripts && can_create => {
                let (h, _) = self.handle(Kind::Arr);
                let o = self.push("set_from_array", vec![h]);
                self.new_track(o, Kind::Set, 2);
            }
            41 if self.with_scripts => {
                let (h, _) = self.handle(Kind::Set);
                self.push("set_is_empty", vec![h]);
            }
            _ => {
                // creation was not possible (6 live handles) or a script slot without scripts: release something
                if let Some(i) = (0..self.tracks.len()).find(|i| self.tracks[*i].live) {
                    let o = self.tracks[i].op;
                    self.tracks[i].live = false;
                    self.push("release", vec![Arg::Ref(o)]);
                } else {
                    let o = self.push("array", vec![]);
                    self.new_track(o, Kind::Arr, 0);
                }
            }
        }
    }
}

fn gen_history(rng: &mut Rng, tier: Tier) -> Case {
    // three families: native commands only; all 36 commands (same value pools); `srun` = natives +
    // the script commands the model runs from their script.ds
    let srun = rng.chance(1, 4);
    let with_scripts = srun || rng.chance(1, 2);
    let maxlen = if tier == Tier::Quick { 40 } else { 80 };
    let len = 1 + rng.below(maxlen);
    let mut g = Gen { rng, ops: vec![], tracks: vec![], safe: false, with_scripts, srun, keys_used: vec![], tags: vec![] };
    while g.ops.len() < len {
        g.step();
    }
    let mut tags = g.tags.clone();
    tags.sort();
    tags.dedup();
    tags.push(if srun { "source-run-scripts" } else if with_scripts { "all-36-commands" } else { "native-commands-only" });
    let req = if srun { enc_ops_as("srun", &g.ops) } else { enc_ops(&g.ops) };
    Case { req, in_domain: true, nontrivial: g.ops.len() >= 5, tags }
}

/// every fixed history whose script commands are all source-runnable (and that has one), as `srun`
fn srun_fixed(base: &[Case]) -> Vec<Case> {
    let mut out = vec![];
    for c in base {
        let ops = dec_ops(&c.req);
        let scripts: Vec<&Op> = ops.iter().filter(|o| is_script_cmd(&o.cmd)).collect();
        if scripts.is_empty() || !scripts.iter().all(|o| SOURCE_RUN.contains(&o.cmd.as_str())) {
            continue;
        }
        let mut tags = c.tags.clone();
        tags.push("source-run-scripts");
        out.push(Case { req: enc_ops_as("srun", &ops), in_domain: true, nontrivial: true, tags });
    }
    // every pool value as map key / member through the source-run commands, too few arguments,
    // a key whose value is the empty string, calls in a row (the temporary array must be gone)
    for v in SAFE_VALUES.iter().chain(ODD_VALUES.iter()) {
        let ops = vec![
            Op { cmd: "map".into(), args: vec![] },
            Op { cmd: "map_is_empty".into(), args: vec![Arg::Ref(0)] },
            Op { cmd: "map_put".into(), args: vec![Arg::Ref(0), lit(v), lit("")] },
            Op { cmd: "map_contains_key".into(), args: vec![Arg::Ref(0), lit(v)] },
            Op { cmd: "map_contains_key".into(), args: vec![Arg::Ref(0), lit("absent")] },
            Op { cmd: "map_contains_key".into(), args: vec![Arg::Ref(0)] },
            Op { cmd: "map_contains_key".into(), args: vec![lit(v), lit(v)] },
            Op { cmd: "map_is_empty".into(), args: vec![Arg::Ref(0), lit(v)] },
            Op { cmd: "array".into(), args: vec![lit(v)] },
            Op { cmd: "array_is_empty".into(), args: vec![Arg::Ref(8), lit(v), lit("third")] },
            Op { cmd: "array_is_empty".into(), args: vec![lit(v)] },
            Op { cmd: "array_pop".into(), args: vec![Arg::Ref(8)] },
            Op { cmd: "array_is_empty".into(), args: vec![Arg::Ref(8)] },
            Op { cmd: "set_new".into(), args: vec![lit(v)] },
            Op { cmd: "set_is_empty".into(), args: vec![Arg::Ref(13)] },
            Op { cmd: "set_remove".into(), args: vec![Arg::Ref(13), lit(v)] },
            Op { cmd: "set_is_empty".into(), args: vec![Arg::Ref(13)] },
            Op { cmd: "set_is_empty".into(), args: vec![] },
            Op { cmd: "array".into(), args: vec![lit("after")] },
        ];
        out.push(Case { req: enc_ops_as("srun", &ops), in_domain: true, nontrivial: true, tags: vec!["source-run-scripts", "script-commands"] });
    }
    out.extend(srun_array_scripts());
    out
}

/// array_contains / array_join from source: found at index 0 / middle / last / absent, repeated
/// cells, empty array, empty / blank / multi-byte / long cells and separators (substring cuts at a
/// BYTE offset), every pool value as cell and as separator, handles that are no arrays, missing
/// handles, too few arguments, calls in a row (scope variables of the previous call, the for-in
/// state after `argument::1 = set`)
fn srun_array_scripts() -> Vec<Case> {
    let mut out = vec![];
    let mut add = |ops: Vec<(&str, Vec<Arg>)>, tag: &'static str| {
        let ops: Vec<Op> = ops.into_iter().map(|(c, a)| Op { cmd: c.to_string(), args: a }).collect();
        out.push(Case { req: enc_ops_as("srun", &ops), in_domain: true, nontrivial: true, tags: vec!["source-run-scripts", "script-commands", tag] });
    };
    let r0 = || Arg::Ref(0);
    // positions
    add(
        vec![
            ("array", vec![lit("a"), lit("b"), lit("c"), lit("b"), lit("a"), lit("")]),
            ("array_contains", vec![r0(), lit("a")]),
            ("array_contains", vec![r0(), lit("b")]),
            ("array_contains", vec![r0(), lit("c")]),
            ("array_contains", vec![r0(), lit("")]),
            ("array_contains", vec![r0(), lit("absent")]),
            ("array_contains", vec![r0(), lit("A")]),
            ("array_contains", vec![r0(), lit("a"), lit("extra")]),
            ("array_contains", vec![r0()]),
            ("array_contains", vec![]),
            ("array_contains", vec![r0(), lit("b")]),
            ("array_length", vec![r0()]),
            ("array_join", vec![r0(), lit("+")]),
        ],
        "array-contains-positions",
    );
    // a long array: the counter goes through calc 11 times
    let many: Vec<Arg> = (0..12).map(|i| lit(&format!("v{}", i))).collect();
    add(
        vec![
            ("array", many),
            ("array_contains", vec![r0(), lit("v11")]),
            ("array_contains", vec![r0(), lit("v10")]),
            ("array_contains", vec![r0(), lit("v0")]),
            ("array_contains", vec![r0(), lit("v12")]),
            ("array_join", vec![r0(), lit("")]),
            ("array_join", vec![r0(), lit("日本")]),
        ],
        "array-contains-long",
    );
    // numbers (range cells are 64 bit numbers), handles as cells
    add(
        vec![
            ("range", vec![lit("-2"), lit("3")]),
            ("array_contains", vec![r0(), lit("-2")]),
            ("array_contains", vec![r0(), lit("2")]),
            ("array_contains", vec![r0(), lit("3")]),
            ("array_contains", vec![r0(), lit("+1")]),
            ("array_join", vec![r0(), lit(",")]),
            ("array", vec![r0(), lit("x"), r0()]),
            ("array_contains", vec![Arg::Ref(6), r0()]),
            ("array_contains", vec![Arg::Ref(6), lit("x")]),
            ("array_join", vec![Arg::Ref(6), lit(" ")]),
            ("array_contains", vec![r0(), Arg::Ref(6)]),
        ],
        "array-scripts-numbers-handles",
    );
    // empty array, no array
    add(
        vec![
            ("array", vec![]),
            ("array_contains", vec![r0(), lit("a")]),
            ("array_contains", vec![r0(), lit("")]),
            ("array_join", vec![r0(), lit(",")]),
            ("array_join", vec![r0(), lit("")]),
            ("array_join", vec![r0()]),
            ("array_join", vec![]),
            ("map", vec![]),
            ("map_put", vec![Arg::Ref(7), lit("k"), lit("v")]),
            ("set_new", vec![lit("m")]),
            ("array_contains", vec![Arg::Ref(7), lit("v")]),
            ("array_contains", vec![Arg::Ref(9), lit("m")]),
            ("array_join", vec![Arg::Ref(7), lit(",")]),
            ("array_join", vec![Arg::Ref(9), lit(",")]),
            ("array_contains", vec![lit("nope"), lit("a")]),
            ("array_contains", vec![lit(""), lit("")]),
            ("array_contains", vec![lit("handle:abcdefghijklmnopqrst"), lit("a")]),
            ("array_join", vec![lit("nope"), lit(",")]),
            ("array_join", vec![lit(""), lit(",")]),
            ("array_join", vec![lit("handle:abcdefghijklmnopqrst"), lit(",")]),
            ("release", vec![r0()]),
            ("array_contains", vec![r0(), lit("a")]),
            ("array_join", vec![r0(), lit(",")]),
            ("__foreign", vec![lit("3")]),
            ("array_contains", vec![Arg::Ref(23), lit("a")]),
            ("array_join", vec![Arg::Ref(23), lit(",")]),
            ("array", vec![lit("after")]),
            ("array_join", vec![Arg::Ref(26), lit(",")]),
        ],
        "array-scripts-no-array",
    );
    // array_join twice and more in a row: scope::array_join::string is read before it is set
    add(
        vec![
            ("array", vec![lit("a"), lit("b")]),
            ("array_join", vec![r0(), lit(",")]),
            ("array_join", vec![r0(), lit(",")]),
            ("array", vec![]),
            ("array_join", vec![Arg::Ref(3), lit(",")]),
            ("array_join", vec![r0(), lit("")]),
            ("array_join", vec![Arg::Ref(3), lit("")]),
            ("array_join", vec![lit("nope"), lit(",")]),
            ("array_join", vec![r0(), lit("--")]),
            ("array_contains", vec![r0(), lit("a")]),
            ("array_contains", vec![r0(), lit("a")]),
            ("array_contains", vec![r0(), lit("b")]),
            ("array_contains", vec![r0(), lit("zz")]),
            ("array_contains", vec![r0(), lit("a")]),
            ("array_join", vec![r0(), lit(",")]),
        ],
        "array-scripts-in-a-row",
    );
    // every pool value: as the only cell, among cells, as separator, as searched value
    for v in SAFE_VALUES.iter().chain(ODD_VALUES.iter()).chain(JOIN_SEPS.iter()) {
        add(
            vec![
                ("array", vec![lit(v)]),
                ("array", vec![lit("first"), lit(v), lit(v), lit("last")]),
                ("array_contains", vec![r0(), lit(v)]),
                ("array_contains", vec![Arg::Ref(1), lit(v)]),
                ("array_contains", vec![Arg::Ref(1), lit("last")]),
                ("array_join", vec![r0(), lit(v)]),
                ("array_join", vec![Arg::Ref(1), lit(v)]),
                ("array_join", vec![Arg::Ref(1), lit(", ")]),
                ("array_join", vec![Arg::Ref(1), lit("")]),
                ("array_join", vec![Arg::Ref(1), lit("ü")]),
                ("array", vec![lit(""), lit("")]),
                ("array_join", vec![Arg::Ref(10), lit(v)]),
                ("array_contains", vec![Arg::Ref(10), lit(v)]),
                ("array_contains", vec![lit(v), lit(v)]),
                ("array_join", vec![lit(v), lit(v)]),
                ("array_join", vec![Arg::Ref(1), lit(v)]),
            ],
            "array-scripts-pool-value",
        );
    }
    out
}

fn lit(s: &str) -> Arg {
    Arg::Lit(s.to_string())
}

/// kind confusion, unknown and released handle for every command × kind, each followed by a
/// full read-out of the three collections
fn confusion_cases() -> Vec<Case> {
    let cmds: Vec<(&str, Vec<Arg>)> = vec![
        ("array_push", vec![lit("v")]),
        ("array_pop", vec![]),
        ("array_get", vec![lit("0")]),
        ("array_set", vec![lit("0"), lit("v")]),
        ("array_remove", vec![lit("0")]),
        ("array_clear", vec![]),
        ("array_length", vec![]),
        ("array_is_empty", vec![]),
        ("array_contains", vec![lit("a")]),
        ("array_concat", vec![]),
        ("array_join", vec![lit(",")]),
        ("map_put", vec![lit("k"), lit("v")]),
        ("map_get", vec![lit("k")]),
        ("map_remove", vec![lit("k")]),
        ("map_size", vec![]),
        ("map_keys", vec![]),
        ("map_clear", vec![]),
        ("map_contains_key", vec![lit("k")]),
        ("map_contains_value", vec![lit("a")]),
        ("map_is_empty", vec![]),
        ("set_put", vec![lit("v")]),
        ("set_remove", vec![lit("a")]),
        ("set_contains", vec![lit("a")]),
        ("set_size", vec![]),
        ("set_clear", vec![]),
        ("set_to_array", vec![]),
        ("set_from_array", vec![]),
        ("set_is_empty", vec![]),
        ("is_array", vec![]),
        ("is_map", vec![]),
        ("is_set", vec![]),
        ("release", vec![]),
    ];
    let mut out = vec![];
    for (c, extra) in &cmds {
        // ops 0..3: array [a,b], map {k:a}, set {a,b}, a released array
        for target in 0..6 {
            let mut ops = vec![
                Op { cmd: "array".into(), args: vec![lit("a"), lit("b")] },
                Op { cmd: "map".into(), args: vec![] },
                Op { cmd: "map_put".into(), args: vec![Arg::Ref(1), lit("k"), lit("a")] },
                Op { cmd: "set_new".into(), args: vec![lit("a"), lit("b")] },
                Op { cmd: "array".into(), args: vec![lit("gone")] },
                Op { cmd: "release".into(), args: vec![Arg::Ref(4)] },
            ];
            let h = match target {
                0 => Arg::Ref(0),
                1 => Arg::Ref(1),
                2 => Arg::Ref(3),
                3 => Arg::Ref(4),
                4 => lit("handle:abcdefghijklmnopqrst"),
                _ => lit(""),
            };
            let mut a = vec![h];
            a.extend(extra.iter().cloned());
            ops.push(Op { cmd: c.to_string(), args: a });
            // without any argument as well
            if target == 5 {
                ops.push(Op { cmd: c.to_string(), args: vec![] });
            }
            out.push(Case { req: enc_ops(&ops), in_domain: true, nontrivial: true, tags: vec!["command-x-kind"] });
        }
        // every command on an embedder-made handle of each of the ten non-collection kinds
        // (state.rs: one put-back arm per kind in each of mutate_list / mutate_map / mutate_set)
        for tag in 0..10 {
            let mut ops = vec![
                Op { cmd: "array".into(), args: vec![lit("a"), lit("b")] },
                Op { cmd: "__foreign".into(), args: vec![lit(&tag.to_string())] },
            ];
            let mut a = vec![Arg::Ref(1)];
            a.extend(extra.iter().cloned());
            ops.push(Op { cmd: c.to_string(), args: a.clone() });
            // … and a second time (the first call must have put the value back)
            ops.push(Op { cmd: c.to_string(), args: a });
            out.push(Case { req: enc_ops(&ops), in_domain: true, nontrivial: true, tags: vec!["command-x-foreign-kind"] });
        }
    }
    // every command on an array the embedder stored under a key of its own (no `handle:` prefix)
    for (c, extra) in &cmds {
        for key in ["inventory", "my list"] {
            let mut ops = vec![Op { cmd: "__foreignlist".into(), args: vec![lit(key)] }];
            let mut a = vec![Arg::Ref(0)];
            a.extend(extra.iter().cloned());
            if *c == "array_contains" || *c == "set_contains" || *c == "map_contains_value" {
                a = vec![Arg::Ref(0), lit("pear")];
            }
            ops.push(Op { cmd: c.to_string(), args: a });
            ops.push(Op { cmd: "array_length".into(), args: vec![Arg::Ref(0)] });
            out.push(Case { req: enc_ops(&ops), in_domain: true, nontrivial: true, tags: vec!["command-x-embedder-key"] });
        }
    }
    // recursive release of a foreign-kind handle, directly and below a collection
    for tag in 0..10 {
        let ops = vec![
            Op { cmd: "__foreign".into(), args: vec![lit(&tag.to_string())] },
            Op { cmd: "array".into(), args: vec![Arg::Ref(0), lit("x")] },
            Op { cmd: "release".into(), args: vec![lit("-r"), Arg::Ref(1)] },
            Op { cmd: "is_array".into(), args: vec![Arg::Ref(0)] },
            Op { cmd: "__foreign".into(), args: vec![lit(&tag.to_string())] },
            Op { cmd: "release".into(), args: vec![lit("-r"), Arg::Ref(4)] },
        ];
        out.push(Case { req: enc_ops(&ops), in_domain: true, nontrivial: true, tags: vec!["release-foreign-kind"] });
    }
    out
}

/// containers that hold the HANDLE of a live child collection as a key, a value or a member:
/// no query on the container may touch the child (every query command, hit and miss), and the
/// child is read afterwards
fn nested_query_cases() -> Vec<Case> {
    let mut out = vec![];
    // ops: 0 child array [a,b,c]; 1 map; 2 map_put map child one; 3 map_put map k child; 4 outer array [child, x];
    //      5 set_new; 6 set_put set child
    let base = || vec![
        Op { cmd: "array".into(), args: vec![lit("a"), lit("b"), lit("c")] },
        Op { cmd: "map".into(), args: vec![] },
        Op { cmd: "map_put".into(), args: vec![Arg::Ref(1), Arg::Ref(0), lit("one")] },
        Op { cmd: "map_put".into(), args: vec![Arg::Ref(1), lit("k"), Arg::Ref(0)] },
        Op { cmd: "array".into(), args: vec![Arg::Ref(0), lit("x")] },
        Op { cmd: "set_new".into(), args: vec![lit("m")] },
        Op { cmd: "set_put".into(), args: vec![Arg::Ref(5), Arg::Ref(0)] },
    ];
    let queries: Vec<(&str, usize, Vec<Arg>)> = vec![
        ("map_contains_value", 1, vec![lit("one")]),
        ("map_contains_value", 1, vec![lit("absent")]),
        ("map_contains_value", 1, vec![Arg::Ref(0)]),
        ("map_contains_key", 1, vec![lit("k")]),
        ("map_contains_key", 1, vec![Arg::Ref(0)]),
        ("map_contains_key", 1, vec![lit("absent")]),
        ("map_get", 1, vec![lit("k")]),
        ("map_keys", 1, vec![]),
        ("map_size", 1, vec![]),
        ("map_is_empty", 1, vec![]),
        ("array_contains", 4, vec![lit("x")]),
        ("array_contains", 4, vec![Arg::Ref(0)]),
        ("array_contains", 4, vec![lit("absent")]),
        ("array_join", 4, vec![lit(",")]),
        ("array_length", 4, vec![]),
        ("array_is_empty", 4, vec![]),
        ("array_get", 4, vec![lit("0")]),
        ("array_concat", 4, vec![Arg::Ref(4)]),
        ("set_contains", 5, vec![Arg::Ref(0)]),
        ("set_contains", 5, vec![lit("absent")]),
        ("set_to_array", 5, vec![]),
        ("set_size", 5, vec![]),
        ("set_is_empty", 5, vec![]),
        ("set_from_array", 4, vec![]),
    ];
    for (q, target, extra) in queries {
        let mut ops = base();
        let mut a = vec![Arg::Ref(target)];
        a.extend(extra);
        ops.push(Op { cmd: q.to_string(), args: a });
        // the child is still what it was
        ops.push(Op { cmd: "is_array".into(), args: vec![Arg::Ref(0)] });
        ops.push(Op { cmd: "array_length".into(), args: vec![Arg::Ref(0)] });
        ops.push(Op { cmd: "array_join".into(), args: vec![Arg::Ref(0), lit("-")] });
        out.push(Case { req: enc_ops(&ops), in_domain: true, nontrivial: true, tags: vec!["nested-handle-query"] });
    }
    out
}

fn fixed_histories() -> Vec<Case> {
    let mut out = nested_query_cases();
    let mut add = |ops: Vec<(&str, Vec<Arg>)>, tag: &'static str| {
        let ops: Vec<Op> = ops.into_iter().map(|(c, a)| Op { cmd: c.to_string(), args: a }).collect();
        out.push(Case { req: enc_ops(&ops), in_domain: true, nontrivial: true, tags: vec![tag] });
    };
    // verbatim storage of odd values through native commands
    for v in ODD_VALUES.iter().chain(SAFE_VALUES.iter()) {
        add(
            vec![
                ("array", vec![lit(v)]),
                ("array_push", vec![Arg::Ref(0), lit(v)]),
                ("array_get", vec![Arg::Ref(0), lit("1")]),
                ("array_set", vec![Arg::Ref(0), lit("0"), lit(v)]),
                ("array_pop", vec![Arg::Ref(0)]),
                ("map", vec![]),
                ("map_put", vec![Arg::Ref(5), lit(v), lit(v)]),
                ("map_get", vec![Arg::Ref(5), lit(v)]),
                ("map_put", vec![Arg::Ref(5), lit(v), lit("second")]),
                ("map_get", vec![Arg::Ref(5), lit(v)]),
                ("map_size", vec![Arg::Ref(5)]),
                ("map_keys", vec![Arg::Ref(5)]),
                ("map_remove", vec![Arg::Ref(5), lit(v)]),
                ("set_new", vec![lit(v), lit(v)]),
                ("set_put", vec![Arg::Ref(13), lit(v)]),
                ("set_contains", vec![Arg::Ref(13), lit(v)]),
                ("set_size", vec![Arg::Ref(13)]),
                ("set_to_array", vec![Arg::Ref(13)]),
                ("set_remove", vec![Arg::Ref(13), lit(v)]),
                ("set_remove", vec![Arg::Ref(13), lit(v)]),
            ],
            "verbatim",
        );
    }
    // every pool value through the script-implemented commands
    for v in SAFE_VALUES.iter().chain(ODD_VALUES.iter()) {
        add(
            vec![
                ("array", vec![lit("first"), lit(v), lit("last")]),
                ("array_contains", vec![Arg::Ref(0), lit(v)]),
                ("array_contains", vec![Arg::Ref(0), lit("absent")]),
                ("array_join", vec![Arg::Ref(0), lit(", ")]),
                ("array_join", vec![Arg::Ref(0), lit("")]),
                ("array_concat", vec![Arg::Ref(0), Arg::Ref(0)]),
                ("array_is_empty", vec![Arg::Ref(0)]),
                ("map", vec![]),
                ("map_is_empty", vec![Arg::Ref(7)]),
                ("map_put", vec![Arg::Ref(7), lit(v), lit(v)]),
                ("map_contains_key", vec![Arg::Ref(7), lit(v)]),
                ("map_contains_key", vec![Arg::Ref(7), lit("absent")]),
                ("map_contains_value", vec![Arg::Ref(7), lit(v)]),
                ("map_contains_value", vec![Arg::Ref(7), lit("absent")]),
                ("map_is_empty", vec![Arg::Ref(7)]),
                ("set_from_array", vec![Arg::Ref(5)]),
                ("set_is_empty", vec![Arg::Ref(15)]),
                ("set_size", vec![Arg::Ref(15)]),
            ],
            "script-commands",
        );
    }
    // indexes
    for i in INDEXES.iter().chain(["0", "1", "2", "3"].iter()) {
        add(
            vec![
                ("array", vec![lit("a"), lit("b")]),
                ("array_get", vec![Arg::Ref(0), lit(i)]),
                ("array_set", vec![Arg::Ref(0), lit(i), lit("S")]),
                ("array_remove", vec![Arg::Ref(0), lit(i)]),
                ("array_length", vec![Arg::Ref(0)]),
            ],
            "indexes",
        );
    }
    for a in RANGE_ENDS.iter() {
        for b in RANGE_ENDS.iter() {
            if (*a == "-9223372036854775808" || *b == "9223372036854775808" || *b == "-9223372036854775808") && a != b {
                // would allocate an astronomically long vector in the real code as well as in the model
                if a.parse::<i64>().is_ok() && b.parse::<i64>().is_ok() && a.parse::<i64>().unwrap() < b.parse::<i64>().unwrap() {
                    continue;
                }
            }
            add(vec![("range", vec![lit(a), lit(b)]), ("array_length", vec![Arg::Ref(0)]), ("array_get", vec![Arg::Ref(0), lit("0")]), ("array_pop", vec![Arg::Ref(0)])], "range");
        }
    }
    // recursive release: nesting, sharing, cycles, self reference
    add(
        vec![
            ("array", vec![lit("x")]),
            ("map", vec![]),
            ("set_new", vec![Arg::Ref(0), lit("plain")]),
            ("map_put", vec![Arg::Ref(1), lit("k"), Arg::Ref(2)]),
            ("map_put", vec![Arg::Ref(1), Arg::Ref(0), lit("key-is-not-followed")]),
            ("array", vec![Arg::Ref(1), Arg::Ref(1), lit("handle:abcdefghijklmnopqrst")]),
            ("array", vec![lit("survivor")]),
            ("release", vec![lit("-r"), Arg::Ref(5)]),
            ("array_length", vec![Arg::Ref(0)]),
            ("array_length", vec![Arg::Ref(6)]),
        ],
        "release-recursive",
    );
    add(
        vec![
            ("array", vec![]),
            ("array", vec![Arg::Ref(0)]),
            ("array_push", vec![Arg::Ref(0), Arg::Ref(1), Arg::Ref(0)]),
            ("array", vec![lit("other")]),
            ("release", vec![lit("--recursive"), Arg::Ref(0)]),
            ("release", vec![lit("--recursive"), Arg::Ref(0)]),
            ("is_array", vec![Arg::Ref(1)]),
        ],
        "release-recursive",
    );
    // every chain outer(kind) -> middle(kind) -> inner array, released recursively from the outer one:
    // the recursion must go on below EVERY kind of container
    for outer in ["array", "map", "set_new"] {
        for middle in ["array", "map", "set_new"] {
            let mut ops: Vec<(&'static str, Vec<Arg>)> = vec![("array", vec![lit("leaf1"), lit("leaf2")])]; // op 0 = inner
            let mut wrap = |ops: &mut Vec<(&'static str, Vec<Arg>)>, kind: &'static str, child: usize| -> usize {
                match kind {
                    "map" => {
                        ops.push(("map", vec![]));
                        let m = ops.len() - 1;
                        ops.push(("map_put", vec![Arg::Ref(m), lit("k"), Arg::Ref(child)]));
                        m
                    }
                    k => {
                        ops.push((k, vec![Arg::Ref(child), lit("plain")]));
                        ops.len() - 1
                    }
                }
            };
            let mid = wrap(&mut ops, middle, 0);
            let out_h = wrap(&mut ops, outer, mid);
            ops.push(("array", vec![lit("survivor")]));
            let surv = ops.len() - 1;
            ops.push(("release", vec![lit("-r"), Arg::Ref(out_h)]));
            ops.push(("is_array", vec![Arg::Ref(0)]));
            ops.push(("array_length", vec![Arg::Ref(0)]));
            ops.push(("array_length", vec![Arg::Ref(surv)]));
            add(ops, "release-recursive");
        }
    }
    add(vec![("range", vec![lit("0"), lit("3")]), ("array", vec![Arg::Ref(0)]), ("release", vec![lit("-r"), Arg::Ref(1)]), ("is_array", vec![Arg::Ref(0)])], "release-recursive");
    add(vec![("array", vec![lit("-r")]), ("release", vec![lit("-r")]), ("release", vec![Arg::Ref(0), lit("-r")]), ("release", vec![])], "release");
    out
}

impl Prop for C12Prop {
    fn id(&self) -> &'static str {
        "C12"
    }
    fn rule(&self) -> &'static str {
        "Histories of 1..40 (quick) / 1..80 (thorough) collection commands run from an empty handle table through the real SDK (run_instruction, every value passed in a variable as ${v}), at most 6 live handles of mixed kinds (arrays incl. range / map_keys / set_to_array / array_concat results, maps, sets, nested handles as values). Handle arguments: 65% live right kind, 15% live wrong kind, 10% released, 10% unknown / handle-looking / empty. Indexes inside, at and beyond the end, plus non-numeric / negative / signed / overflowing spellings. Values (cells, keys, set members, separators) from a pool with '', spaces, multi-byte text, handle-looking strings, true/false, numerals, $x ${..} %{..} # quotes CR LF TAB backslash leading '=' and word-like strings; they reach the native AND the nine script-implemented commands alike. Three families: (a) the 27 native commands only, (b) all 36 commands, (c) `srun` requests (1 in 4): natives + all nine script commands (array_is_empty / map_is_empty / set_is_empty / map_contains_key / set_from_array / array_concat / map_contains_value / array_contains / array_join), which the model executes FROM THEIR REGENERATED script.ds (AliasCommand::run over eval_instructions over the parsed text, native callees - incl. calc, strlen, substring, is_empty - and for-in / if / end / not transcribed, flow-control state kept across invocations, the caller's variables a<k>_<j> / o<k> mirrored because a command condition re-reads its arguments as script text) instead of by their specified function - so the recorded array_concat-after-error behaviour is the MODEL's behaviour in this family, and array_join gets every pool value as separator here (in the other two families only separators on which the body's re-read of the separator is harmless); every fixed history with a script command is also sent as srun, plus dedicated array_contains / array_join histories (value at index 0 / middle / last / absent, repeated cells, 12 cells, number cells, empty array, empty / blank / multi-byte / long cells and separators, handles of other kinds, released / missing handles, too few arguments, calls in a row). Fixed cases: every command x {array, map, set, released, unknown, empty handle} followed by a complete read-out; verbatim round trips of every pool value through array/map/set natives; all index spellings; range end points incl. i64 limits; recursive release over nesting, sharing, cycles and self reference. After each history the whole real handle table is read from Context.state (real handles renamed by first appearance, hash-ordered things sorted) and re-read through array_length/array_get, map_size/map_get, set_size/set_contains. The list made by map_keys / set_to_array is sorted in place by the harness (hash iteration order is unspecified). Literal values of the form handle:<decimal> are not generated (that is the model's name for the k-th handle; real handles are renamed to it). Non-trivial = at least 5 commands; distinct = distinct request."
    }
    fn budget(&self, tier: Tier) -> usize {
        match tier {
            Tier::Quick => 4_000,
            Tier::Thorough => 400_000,
        }
    }
    fn fixed_cases(&self, _tier: Tier) -> Vec<Case> {
        let mut v = confusion_cases();
        v.extend(fixed_histories());
        let s = srun_fixed(&v);
        v.extend(s);
        v
    }
    fn generate(&self, rng: &mut Rng, tier: Tier) -> Case {
        gen_history(rng, tier)
    }
    fn run_impl(&self, req: &str, _m: &str) -> String {
        if req.starts_with("srun ") {
            // the model's outputs name the real handles (operation k's whole output <-> the
            // model's output k, when that is a handle name of the model)
            let mo: Vec<Option<String>> = _m.split(' ').next().unwrap_or("").split(',').map(|t| dec_str(t).filter(|s| s.starts_with("handle:"))).collect();
            return run_history_with(&dec_ops(req), Some(mo));
        }
        run_history(&dec_ops(req))
    }
    fn known(&self, req: &str, model: &str, imp: &str) -> Option<String> {
        // finding C12-array-concat-after-error: an array_concat that failed leaves the for-in
        // iteration counter of its validation loop in Context.state; the next array_concat skips
        // validating its first argument(s)
        let ops = dec_ops(req);
        let outs: Vec<&str> = imp.split(' ').next().unwrap_or("").split(',').collect();
        let mouts: Vec<&str> = model.split(' ').next().unwrap_or("").split(',').collect();
        // the FIRST operation whose output leaves the model decides: it must be that array_concat
        let first_diff = (0..ops.len()).find(|&k| outs.get(k) != mouts.get(k));
        // finding C12-array-join-separator-reread: the FIRST operation that leaves the reference is
        // an array_join whose separator is outside the C09-safe class (the source-run model, stream
        // `srun`, predicts the code's answer for every separator: a different failure shows there)
        if req.starts_with("coll ") {
            if let Some(k) = first_diff {
                if ops[k].cmd == "array_join" {
                    if let Some(Arg::Lit(sep)) = ops[k].args.get(1) {
                        if !crate::props::c09::in_domain(&[sep.clone()]) {
                            return Some("C12-array-join-separator-reread".to_string());
                        }
                    }
                }
            }
        }
        let mut failed_before = false;
        for (k, o) in ops.iter().enumerate() {
            if o.cmd == "array_concat" {
                if failed_before && (first_diff == Some(k) || first_diff.is_none()) {
                    return Some("C12-array-concat-after-error".to_string());
                }
                if first_diff.map_or(false, |d| d < k) {
                    return None;
                }
                if outs.get(k) == Some(&"E") {
                    failed_before = true;
                }
            }
        }
        None
    }
    fn shrink(&self, req: &str) -> Vec<String> {
        let ops = dec_ops(req);
        let mut out = vec![];
        for i in (0..ops.len()).rev() {
            let mut n: Vec<Op> = vec![];
            for (j, o) in ops.iter().enumerate() {
                if j == i {
                    continue;
                }
                let args = o
                    .args
                    .iter()
                    .map(|a| match a {
                        Arg::Ref(k) if *k == i => Arg::Lit("removed".to_string()),
                        Arg::Ref(k) if *k > i => Arg::Ref(*k - 1),
                        other => other.clone(),
                    })
                    .collect();
                n.push(Op { cmd: o.cmd.clone(), args });
            }
            if !n.is_empty() {
                out.push(enc_ops(&n));
            }
        }
        out
    }
    fn outcome_kind(&self, imp: &str) -> String {
        let outs = imp.split(' ').next().unwrap_or("");
        let e = outs.split(',').filter(|o| *o == "E").count();
        if imp.contains("LEAKED") || imp.contains("READBACK") || imp.contains("PANIC") {
            "anomaly".to_string()
        } else if e == 0 {
            "no-error".to_string()
        } else {
            "some-errors".to_string()
        }
    }
    fn describe(&self, req: &str) -> String {
        dec_ops(req)
            .iter()
            .enumerate()
            .map(|(k, o)| format!("o{} = {} {}", k, o.cmd, o.args.iter().map(|a| match a { Arg::Lit(v) => format!("{:?}", v), Arg::Ref(i) => format!("${{o{}}}", i) }).collect::<Vec<_>>().join(" ")))
            .collect::<Vec<_>>()
            .join("; ")
    }
}

fn is_script_cmd(c: &str) -> bool {
    SCRIPT_CMDS.contains(&c)
}
