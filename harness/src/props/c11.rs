//! C11: variable commands and the scope stack behave like a map and a stack of maps.
//!
//! request  `vs <mode> <ops>`   ops: `-` | op;op;…   op: `C/<out>/<command>/<args>` | `N/<out>/<token>`
//! response `ok <step>;<step>;…` step: `<result>@<sorted vars>@<stack depth>`
//!
//! mode `D`: every command is invoked directly (`Command::run` of the instance found by
//!           `Commands::get_for_use`) with the given ACTUAL arguments (any text), and the
//!           runner's treatment of the result (runner.rs:163-236: `update_output`, `false` on
//!           error) is replayed by the harness.
//! mode `S`: every operation is a one-line script `out = command args…` run by the real
//!           `run_script` (parser, expansion, runner, on_error); arguments are plain words.
//!           The result class is read from the SDK's on_error state, the value from the
//!           output variable (S histories always have one).
//!
//! get_all_var_names returns a random handle: the harness renames the n-th real handle to the
//! token carried by the operation (values equal to a real handle are renamed when printed) and
//! prints the sorted list stored under the handle.
use crate::pools;
use crate::rng::Rng;
use crate::sdkenv::*;
use crate::wire::*;
use crate::{Case, Prop, Tier};
use duckscript::types::command::{CommandInvocationContext, CommandResult};
use duckscript::types::runtime::{Context, StateValue};

pub struct C11Prop;
pub static C11: C11Prop = C11Prop;

const NAMES_D: [&str; 11] = ["a", "b", "ab", "p::q", "p::r", "x y", "", "é漢", "p::::c", "p::", "::p"];
const NAMES_S: [&str; 8] = ["a", "b", "ab", "p::q", "p::r", "x", "p::::c", "p::q::r"];
/// plain words that survive parsing and expansion unchanged (mode S)
const WORDS_S: [&str; 14] = ["1", "v", "true", "false", "0", "no", "NO", "or", "--copy", "--prefix", "p::", "a", "p", "zz"];
const FALSY: [&str; 6] = ["", "0", "false", "no", "FALSE", "No"];
/// truthy values that a numeric or trimmed reading would take for falsy
const NEAR_FALSY: [&str; 6] = ["0.0", "00", "-0", "+0", "0e0", "0x0"];
const RESERVED: &str = "scope::unset::zz";
const ON_ERROR_STATE: &str = "duckscriptsdk::command::on_error";

#[derive(Clone, Debug)]
enum Op {
    Cmd { out: Option<String>, cmd: String, args: Vec<String> },
    Names { out: Option<String>, token: String },
}

fn enc_op(o: &Op) -> String {
    match o {
        Op::Cmd { out, cmd, args } => format!("C/{}/{}/{}", enc_opt(out), cmd, enc_list(args)),
        Op::Names { out, token } => format!("N/{}/{}", enc_opt(out), enc_str(token)),
    }
}
fn dec_op(t: &str) -> Option<Op> {
    let f: Vec<&str> = t.split('/').collect();
    match f[0] {
        "C" if f.len() == 4 => Some(Op::Cmd { out: dec_opt(f[1])?, cmd: f[2].to_string(), args: dec_list(f[3])? }),
        "N" if f.len() == 3 => Some(Op::Names { out: dec_opt(f[1])?, token: dec_str(f[2])? }),
        _ => None,
    }
}
fn mk(mode: &str, ops: &[Op]) -> String {
    if ops.is_empty() {
        format!("vs {} -", mode)
    } else {
        format!("vs {} {}", mode, ops.iter().map(enc_op).collect::<Vec<_>>().join(";"))
    }
}
fn parse(req: &str) -> (String, Vec<Op>) {
    let t: Vec<&str> = req.split(' ').collect();
    let ops = if t[2] == "-" { vec![] } else { t[2].split(';').map(|o| dec_op(o).expect("op")).collect() };
    (t[1].to_string(), ops)
}

// ---------------------------------------------------------------- observation of the real code

struct Obs {
    /// (real handle, token)
    handles: Vec<(String, String)>,
}
impl Obs {
    fn rename(&self, v: &str) -> String {
        for (real, tok) in &self.handles {
            if real == v {
                return tok.clone();
            }
        }
        v.to_string()
    }
    fn vars(&self, ctx: &Context) -> String {
        let mut items: Vec<String> = ctx.variables.iter().map(|(k, v)| format!("{}={}", enc_str(k), enc_str(&self.rename(v)))).collect();
        items.sort();
        if items.is_empty() { "-".to_string() } else { items.join(",") }
    }
}
fn depth(ctx: &Context) -> String {
    match ctx.state.get("scope_stack") {
        None => "0".to_string(),
        Some(StateValue::List(l)) => l.len().to_string(),
        Some(_) => "not-a-list".to_string(),
    }
}
fn names_under(ctx: &Context, handle: &str) -> String {
    match ctx.state.get("handles") {
        Some(StateValue::SubState(h)) => match h.get(handle) {
            Some(StateValue::List(l)) => {
                let mut items: Vec<String> = l
                    .iter()
                    .map(|v| match v {
                        StateValue::String(s) => enc_str(s),
                        _ => "not-a-string".to_string(),
                    })
                    .collect();
                items.sort();
                format!("N/[{}]", items.join(","))
            }
            _ => "N/no-list".to_string(),
        },
        _ => "N/no-handles".to_string(),
    }
}
fn update_output(ctx: &mut Context, out: &Option<String>, v: Option<String>) {
    if let Some(o) = out {
        match v {
            Some(x) => {
                ctx.variables.insert(o.clone(), x);
            }
            None => {
                ctx.variables.remove(o);
            }
        }
    }
}

/// mode D: direct invocation + replay of the runner's write to the output variable
fn step_direct(ctx: &mut Context, obs: &mut Obs, op: &Op) -> String {
    let (cmd, args, out) = match op {
        Op::Cmd { out, cmd, args } => (cmd.as_str(), args.clone(), out.clone()),
        Op::Names { out, .. } => ("get_all_var_names", vec![], out.clone()),
    };
    let command = match ctx.commands.get_for_use(cmd) {
        Some(c) => c,
        None => return "no-such-command".to_string(),
    };
    let instructions = vec![];
    let mut env = quiet_env(None);
    let r = command.run(CommandInvocationContext {
        arguments: args,
        state: &mut ctx.state,
        variables: &mut ctx.variables,
        output_variable: out.clone(),
        instructions: &instructions,
        commands: &mut ctx.commands,
        line: 0,
        env: &mut env,
    });
    match r {
        CommandResult::Continue(v) => {
            update_output(ctx, &out, v.clone());
            match op {
                Op::Names { token, .. } => match v {
                    Some(h) => {
                        let s = names_under(ctx, &h);
                        obs.handles.push((h, token.clone()));
                        s
                    }
                    None => "N/none".to_string(),
                },
                _ => format!("C/{}", enc_opt(&v.map(|x| obs.rename(&x)))),
            }
        }
        CommandResult::Error(_) => {
            update_output(ctx, &out, Some("false".to_string()));
            "E".to_string()
        }
        CommandResult::Crash(_) => "X".to_string(),
        CommandResult::GoTo(v, _) => {
            update_output(ctx, &out, v);
            "G".to_string()
        }
        CommandResult::Exit(v) => {
            update_output(ctx, &out, v);
            "Q".to_string()
        }
    }
}

fn word(a: &str) -> String {
    if a.is_empty() { "\"\"".to_string() } else { a.to_string() }
}

/// mode S: a one-line script through the real run_script
fn step_script(ctx: Context, obs: &mut Obs, op: &Op) -> Result<(Context, String), String> {
    let (cmd, args, out) = match op {
        Op::Cmd { out, cmd, args } => (cmd.as_str(), args.clone(), out.clone()),
        Op::Names { out, .. } => ("get_all_var_names", vec![], out.clone()),
    };
    let out = out.expect("mode S operations have an output variable");
    let mut line = format!("{} = {}", out, cmd);
    for a in &args {
        line.push(' ');
        line.push_str(&word(a));
    }
    let mut ctx = ctx;
    ctx.state.remove(ON_ERROR_STATE);
    let ctx = run_text(&line, ctx).map_err(|_| "X".to_string())?;
    let failed = match ctx.state.get(ON_ERROR_STATE) {
        Some(StateValue::SubState(s)) => s.contains_key("error"),
        _ => false,
    };
    let v = ctx.variables.get(&out).cloned();
    let s = if failed {
        "E".to_string()
    } else {
        match op {
            Op::Names { token, .. } => match v {
                Some(h) => {
                    let s = names_under(&ctx, &h);
                    obs.handles.push((h, token.clone()));
                    s
                }
                None => "N/none".to_string(),
            },
            _ => format!("C/{}", enc_opt(&v.map(|x| obs.rename(&x)))),
        }
    };
    Ok((ctx, s))
}

fn run_steps(mode: &str, mut ctx: Context, obs: &mut Obs, ops: &[Op], fork_at: Option<usize>) -> (Vec<String>, Option<(Context, Obs)>) {
    let mut steps = vec![];
    let mut twin = None;
    for (k, op) in ops.iter().enumerate() {
        if fork_at == Some(k) {
            // the embedder keeps a copy of the Context (Context: Clone) and goes on with both
            twin = Some((ctx.clone(), Obs { handles: obs.handles.clone() }));
        }
        let r = if mode == "S" {
            match step_script(ctx, obs, op) {
                Ok((c, s)) => {
                    ctx = c;
                    s
                }
                Err(s) => {
                    steps.push(format!("{}@lost@lost", s));
                    return (steps, twin);
                }
            }
        } else {
            step_direct(&mut ctx, obs, op)
        };
        steps.push(format!("{}@{}@{}", r, obs.vars(&ctx), depth(&ctx)));
    }
    (steps, twin)
}

fn run_history(mode: &str, ops: &[Op]) -> String {
    let mut obs = Obs { handles: vec![] };
    // every history is also run with a COPY of the Context taken at some step: the copy then
    // executes the same remaining operations and must answer exactly like the original (values
    // inside Context.state are shared through Rc by `clone`: an operation that mutates a shared
    // value in place through one copy would be seen by the other)
    let fork_at = if ops.len() >= 2 { Some(crate::hash_str(&mk(mode, ops)) as usize % ops.len()) } else { None };
    let (steps, twin) = run_steps(mode, sdk_context(), &mut obs, ops, fork_at);
    let mut line = format!("ok {}", steps.join(";")).trim_end().to_string();
    if let (Some(k), Some((tctx, mut tobs))) = (fork_at, twin) {
        let (tsteps, _) = run_steps(mode, tctx, &mut tobs, &ops[k..], None);
        if tsteps[..] != steps[k..] {
            let at = tsteps.iter().zip(steps[k..].iter()).position(|(a, b)| a != b).unwrap_or(tsteps.len().min(steps.len() - k));
            line.push_str(&format!(" COPY-OF-CONTEXT-DIFFERS-AT-STEP-{}", k + at));
        }
    }
    line
}


// ---------------------------------------------------------------- the property's own reference

fn truthy(v: &str) -> bool {
    let l = v.to_lowercase();
    !(l.is_empty() || l == "0" || l == "false" || l == "no")
}
/// `v1 or v2 or …` : first truthy value, else the last; Err = malformed as far as it was read
fn or_chain(args: &[String]) -> Result<Option<String>, ()> {
    match args.len() {
        0 => return Ok(None),
        1 => return Ok(Some(args[0].clone())),
        _ => {}
    }
    let mut i = 0;
    loop {
        let v = &args[i];
        if truthy(v) {
            return Ok(Some(v.clone()));
        }
        if i + 1 == args.len() {
            return Ok(Some(v.clone()));
        }
        if args[i + 1] != "or" || i + 2 >= args.len() {
            return Err(());
        }
        i += 2;
    }
}
fn copy_of(args: &[String]) -> &[String] {
    if !args.is_empty() && args[0] == "--copy" { &args[1..] } else { &[] }
}
/// a plain map and a stack of saved maps, printing the same canonical line
fn reference(ops: &[Op]) -> String {
    use std::collections::BTreeMap;
    let mut map: BTreeMap<String, String> = BTreeMap::new();
    let mut stack: Vec<BTreeMap<String, String>> = vec![];
    let mut steps = vec![];
    for op in ops {
        let mut names_out = None;
        let (out, res): (&Option<String>, Result<Option<String>, ()>) = match op {
            Op::Names { out, token } => {
                let mut l: Vec<String> = map.keys().map(|k| enc_str(k)).collect();
                l.sort();
                names_out = Some(format!("N/[{}]", l.join(",")));
                (out, Ok(Some(token.clone())))
            }
            Op::Cmd { out, cmd, args } => (
                out,
                match cmd.as_str() {
                    "set" => or_chain(args),
                    "unset" => {
                        for a in args {
                            map.remove(a);
                        }
                        Ok(None)
                    }
                    "set_by_name" => match args.len() {
                        0 => Err(()),
                        1 => {
                            map.remove(&args[0]);
                            Ok(None)
                        }
                        _ => {
                            map.insert(args[0].clone(), args[1].clone());
                            Ok(Some(args[1].clone()))
                        }
                    },
                    "get_by_name" => Ok(args.first().and_then(|k| map.get(k).cloned())),
                    "is_defined" => match args.first() {
                        None => Err(()),
                        Some(k) => Ok(Some(map.contains_key(k).to_string())),
                    },
                    "unset_all_vars" => {
                        if args.len() >= 2 && args[0] == "--prefix" {
                            map.retain(|k, _| !k.starts_with(args[1].as_str()));
                        } else {
                            map.clear();
                        }
                        Ok(None)
                    }
                    "clear_scope" => match args.first() {
                        None => Err(()),
                        Some(n) => {
                            let p = format!("{}::", n);
                            map.retain(|k, _| !k.starts_with(p.as_str()));
                            Ok(None)
                        }
                    },
                    "scope_push_stack" => {
                        let copy = copy_of(args);
                        let kept: BTreeMap<String, String> = map.iter().filter(|(k, _)| copy.contains(k)).map(|(k, v)| (k.clone(), v.clone())).collect();
                        stack.push(std::mem::replace(&mut map, kept));
                        Ok(Some("true".to_string()))
                    }
                    "scope_pop_stack" => match stack.pop() {
                        None => Err(()),
                        Some(mut saved) => {
                            for k in copy_of(args) {
                                if let Some(v) = map.get(k) {
                                    saved.insert(k.clone(), v.clone());
                                }
                            }
                            map = saved;
                            Ok(Some("true".to_string()))
                        }
                    },
                    _ => Err(()),
                },
            ),
        };
        let stored = match &res {
            Ok(v) => v.clone(),
            Err(()) => Some("false".to_string()),
        };
        if let Some(o) = out {
            match stored {
                Some(x) => {
                    map.insert(o.clone(), x);
                }
                None => {
                    map.remove(o);
                }
            }
        }
        let r = match (&res, names_out) {
            (_, Some(n)) => n,
            (Ok(v), None) => format!("C/{}", enc_opt(v)),
            (Err(()), None) => "E".to_string(),
        };
        let mut items: Vec<String> = map.iter().map(|(k, v)| format!("{}={}", enc_str(k), enc_str(v))).collect();
        items.sort();
        steps.push(format!("{}@{}@{}", r, if items.is_empty() { "-".to_string() } else { items.join(",") }, stack.len()));
    }
    format!("ok {}", steps.join(";")).trim_end().to_string()
}

// ---------------------------------------------------------------- generation

struct Gen<'a> {
    rng: &'a mut Rng,
    script: bool,
    reserved: bool,
    depth: usize,
    tokens: usize,
}
impl<'a> Gen<'a> {
    fn name(&mut self) -> String {
        if self.reserved && self.rng.chance(1, 4) {
            return RESERVED.to_string();
        }
        if self.script { self.rng.pick_s(&NAMES_S).to_string() } else { self.rng.pick_s(&NAMES_D).to_string() }
    }
    fn value(&mut self) -> String {
        if self.script {
            self.rng.pick_s(&WORDS_S).to_string()
        } else if self.rng.chance(1, 3) {
            self.rng.pick_s(&WORDS_S).to_string()
        } else {
            pools::value(self.rng)
        }
    }
    fn falsy_or_value(&mut self) -> String {
        if self.rng.chance(3, 5) {
            let f = self.rng.pick_s(&FALSY);
            if self.script && f.is_empty() { "0".to_string() } else { f.to_string() }
        } else if self.rng.chance(1, 4) {
            self.rng.pick_s(&NEAR_FALSY).to_string()
        } else {
            self.value()
        }
    }
    fn out(&mut self) -> Option<String> {
        if self.script || self.rng.chance(1, 2) { Some(self.name()) } else { None }
    }
    fn copy_list(&mut self) -> Vec<String> {
        match self.rng.below(10) {
            0..=2 => vec![],
            3 => (0..self.rng.below(3)).map(|_| self.name()).collect(), // names without --copy
            _ => {
                let mut l = vec!["--copy".to_string()];
                let n = self.rng.below(5);
                for _ in 0..n {
                    if !l.is_empty() && l.len() > 1 && self.rng.chance(1, 4) {
                        let i = 1 + self.rng.below(l.len() - 1);
                        l.push(l[i].clone()); // a repeat
                    } else if self.rng.chance(1, 5) {
                        l.push("undefined".to_string());
                    } else {
                        l.push(self.name());
                    }
                }
                l
            }
        }
    }
    fn op(&mut self) -> Op {
        let k = self.rng.below(100);
        let out = self.out();
        let cmd = |c: &str, args: Vec<String>| Op::Cmd { out: out.clone(), cmd: c.to_string(), args };
        match k {
            0..=21 => {
                // set: nothing, a value, an or-chain (well-formed or not)
                match self.rng.below(8) {
                    0 => cmd("set", vec![]),
                    1..=4 => cmd("set", vec![self.value()]),
                    _ => {
                        let n = 1 + self.rng.below(3);
                        let mut a = vec![];
                        for i in 0..n {
                            if i > 0 {
                                a.push(if self.rng.chance(1, 10) { self.value() } else { "or".to_string() });
                            }
                            a.push(self.falsy_or_value());
                        }
                        if self.rng.chance(1, 8) {
                            a.push("or".to_string());
                        }
                        cmd("set", a)
                    }
                }
            }
            22..=29 => {
                let n = self.rng.below(4);
                cmd("unset", (0..n).map(|_| self.name()).collect())
            }
            30..=39 => {
                let mut a = vec![];
                let n = self.rng.below(10);
                if n >= 1 {
                    a.push(self.name());
                }
                if n >= 4 {
                    a.push(self.value());
                }
                if n >= 9 {
                    a.push(self.value());
                }
                cmd("set_by_name", a)
            }
            40..=47 => {
                let n = if self.rng.chance(1, 8) { 0 } else { 1 + self.rng.below(2) };
                cmd("get_by_name", (0..n).map(|_| self.name()).collect())
            }
            48..=55 => {
                let n = if self.rng.chance(1, 8) { 0 } else { 1 + self.rng.below(2) };
                cmd("is_defined", (0..n).map(|_| self.name()).collect())
            }
            56..=61 => {
                self.tokens += 1;
                Op::Names { out, token: format!("handle:T{}", self.tokens) }
            }
            62..=67 => {
                let prefixes = ["a", "p::", "p", "", "b", "ab", "x", "p::q", "scope::"];
                match self.rng.below(6) {
                    0 => cmd("unset_all_vars", vec![]),
                    1 => cmd("unset_all_vars", vec!["--prefix".to_string()]),
                    2 => cmd("unset_all_vars", vec![self.name()]),
                    _ => {
                        let mut p = self.rng.pick_s(&prefixes).to_string();
                        if self.script && p.is_empty() {
                            p = "p".to_string();
                        }
                        cmd("unset_all_vars", vec!["--prefix".to_string(), p])
                    }
                }
            }
            68..=73 => {
                let scopes = ["p", "a", "p::q", "", "ab", "x", "scope", "p::", "p::::", "::"];
                if self.rng.chance(1, 8) {
                    cmd("clear_scope", vec![])
                } else {
                    let mut s = self.rng.pick_s(&scopes).to_string();
                    if self.script && s.is_empty() {
                        s = "p".to_string();
                    }
                    cmd("clear_scope", vec![s])
                }
            }
            74..=86 => {
                if self.depth >= 8 {
                    cmd("is_defined", vec![self.name()])
                } else {
                    self.depth += 1;
                    let c = self.copy_list();
                    cmd("scope_push_stack", c)
                }
            }
            _ => {
                if self.depth > 0 {
                    self.depth -= 1;
                }
                let c = self.copy_list();
                cmd("scope_pop_stack", c)
            }
        }
    }
}

/// the reduced alphabet of the exhaustive enumeration
fn alphabet() -> Vec<Op> {
    let s = |x: &str| x.to_string();
    let c = |out: Option<&str>, cmd: &str, args: &[&str]| Op::Cmd { out: out.map(|x| x.to_string()), cmd: s(cmd), args: args.iter().map(|x| x.to_string()).collect() };
    vec![
        c(Some("a"), "set", &["1"]),
        c(Some("b"), "set", &["0", "or", "2"]),
        c(None, "unset", &["a"]),
        c(None, "set_by_name", &["ab", "3"]),
        c(Some("b"), "is_defined", &["a"]),
        c(Some("a"), "get_by_name", &["b"]),
        c(None, "unset_all_vars", &["--prefix", "a"]),
        c(None, "scope_push_stack", &[]),
        c(None, "scope_push_stack", &["--copy", "a", "c", "a"]),
        c(None, "scope_pop_stack", &[]),
        c(Some("c"), "scope_pop_stack", &["--copy", "b", "c", "b"]),
        Op::Names { out: None, token: s("handle:T") },
    ]
}

impl Prop for C11Prop {
    fn id(&self) -> &'static str {
        "C11"
    }
    fn rule(&self) -> &'static str {
        "operation histories (1..60 operations) of set (incl. or-chains, well-formed or not), unset, set_by_name, get_by_name, is_defined, get_all_var_names, unset_all_vars [--prefix p], clear_scope, scope_push_stack / scope_pop_stack [--copy names] with an optional output variable on every line, over a pool of 6-8 variable names (scoped names p::q, a name that is a prefix of another, empty / non-ASCII / blank-containing names in mode D) and adversarial values, nesting <= 8, pops on the empty stack, --copy lists with undefined names and repeats. Mode D invokes the real command objects directly with arbitrary argument text; mode S runs one-line scripts through the real run_script with plain-word arguments. Observed after EVERY step: result class and value, the whole variable map (sorted) and the length of the scope_stack list in Context.state. All histories are in the domain except the stream that also writes the reserved name scope::unset::zz (model vs code only). Fixed cases: all histories of length <= 3 (quick) / 4 (thorough) over a 12-operation alphabet. Non-trivial = at least 3 operations including a push or pop; distinct = distinct request."
    }
    fn budget(&self, tier: Tier) -> usize {
        match tier {
            Tier::Quick => 5_000,
            Tier::Thorough => 500_000,
        }
    }
    fn fixed_cases(&self, tier: Tier) -> Vec<Case> {
        let alpha = alphabet();
        let k = if tier == Tier::Quick { 3 } else { 4 };
        let mut out = vec![];
        let mut cur: Vec<Vec<Op>> = vec![vec![]];
        for len in 0..=k {
            let mut next = vec![];
            for h in &cur {
                // give every names operation its own token
                let mut hh = h.clone();
                let mut n = 0;
                for o in hh.iter_mut() {
                    if let Op::Names { token, .. } = o {
                        n += 1;
                        *token = format!("handle:T{}", n);
                    }
                }
                let stacky = hh.iter().any(|o| matches!(o, Op::Cmd { cmd, .. } if cmd.starts_with("scope_")));
                out.push(Case { req: mk("D", &hh), in_domain: true, nontrivial: hh.len() >= 3 && stacky, tags: vec!["exhaustive"] });
                if len < k {
                    for o in &alpha {
                        let mut n = h.clone();
                        n.push(o.clone());
                        next.push(n);
                    }
                }
            }
            cur = next;
        }
        out
    }
    fn generate(&self, rng: &mut Rng, _tier: Tier) -> Case {
        let script = rng.chance(1, 4);
        let reserved = !script && rng.chance(1, 10);
        let n = 1 + if rng.chance(1, 3) { rng.below(60) } else { rng.below(20) };
        let mut g = Gen { rng, script, reserved, depth: 0, tokens: 0 };
        let mut ops: Vec<Op> = (0..n).map(|_| g.op()).collect();
        if !script && g.rng.chance(1, 25) {
            // a DEEP stack: 60-260 pushes (each after a fresh assignment) and as many pops, + 2
            let d = 60 + g.rng.below(200);
            let mut deep = vec![Op::Cmd { out: Some("root".to_string()), cmd: "set".to_string(), args: vec!["outer".to_string()] }];
            for i in 0..d {
                let copy = if i % 7 == 3 { vec!["--copy".to_string(), "root".to_string()] } else { vec![] };
                deep.push(Op::Cmd { out: None, cmd: "scope_push_stack".to_string(), args: copy });
                deep.push(Op::Cmd { out: Some("level".to_string()), cmd: "set".to_string(), args: vec![i.to_string()] });
            }
            for _ in 0..d + 2 {
                deep.push(Op::Cmd { out: Some("popped".to_string()), cmd: "scope_pop_stack".to_string(), args: vec![] });
            }
            deep.extend(ops);
            ops = deep;
        }
        let stacky = ops.iter().any(|o| matches!(o, Op::Cmd { cmd, .. } if cmd.starts_with("scope_")));
        let mode = if script { "S" } else { "D" };
        Case {
            req: mk(mode, &ops),
            in_domain: !reserved,
            nontrivial: ops.len() >= 3 && stacky,
            tags: vec![if script { "script-lines" } else if reserved { "reserved-namespace" } else { "direct" }],
        }
    }
    fn run_impl(&self, req: &str, _m: &str) -> String {
        let (mode, ops) = parse(req);
        run_history(&mode, &ops)
    }
    /// the property's own relation: the real code against a BTreeMap and a Vec of saved maps
    /// (written in Rust, independent of the Lean model); not applicable to histories that
    /// write into unset's reserved name space
    fn relation(&self, req: &str, _m: &str, imp: &str) -> Option<bool> {
        let (_, ops) = parse(req);
        let touches_reserved = ops.iter().any(|o| match o {
            Op::Cmd { out, args, .. } => out.as_deref() == Some(RESERVED) || args.iter().any(|a| a == RESERVED),
            Op::Names { out, .. } => out.as_deref() == Some(RESERVED),
        });
        if touches_reserved { None } else { Some(reference(&ops) == imp) }
    }
    fn shrink(&self, req: &str) -> Vec<String> {
        let (mode, ops) = parse(req);
        let mut out = vec![];
        // drop a suffix first (the first differing step is what matters), then single operations
        if ops.len() > 1 {
            out.push(mk(&mode, &ops[..ops.len() / 2]));
            out.push(mk(&mode, &ops[..ops.len() - 1]));
        }
        for i in 0..ops.len() {
            let mut n = ops.clone();
            n.remove(i);
            out.push(mk(&mode, &n));
        }
        out
    }
    fn describe(&self, req: &str) -> String {
        let (mode, ops) = parse(req);
        let lines: Vec<String> = ops
            .iter()
            .map(|o| match o {
                Op::Cmd { out, cmd, args } => format!("{}{} {:?}", out.as_ref().map(|o| format!("{:?} = ", o)).unwrap_or_default(), cmd, args),
                Op::Names { out, .. } => format!("{}get_all_var_names", out.as_ref().map(|o| format!("{:?} = ", o)).unwrap_or_default()),
            })
            .collect();
        format!("mode {}: {}", mode, lines.join(" | "))
    }
}
