//! C07: no script can panic, abort or hang the embedding process.  SEARCH, not proof: the
//! proved layer is lean/DuckModel/Props/C07.lean; this file is layers 2/3 of DESIGN.md §C07.
//!
//! requests (the model side answers `ok` = "control returned" to all of them):
//!   `c07 text <hex text>`            parser level: run_script with an EMPTY registry + parse_text
//!   `c07 lib <hex script> <varmap>`  library level: run_script with the allow-listed part of the
//!                                    real registry, `varmap` = preset variables
//!   `c07 child <probe>`              a script that can ABORT the process, run in a child process
//! implementation output: `ok` | `PANIC` | `HANG` (no return within 5 s although the halt flag
//! is raised) | `ABORT` (child killed by a signal / abnormal exit).
use crate::pools;
use crate::rng::Rng;
use crate::sdkenv::{guarded_halt, quiet_env, sdk_context};
use crate::wire::*;
use crate::{Case, Prop, Tier};
use duckscript::types::runtime::Context;
use std::cell::RefCell;
use std::collections::BTreeSet;
use std::sync::mpsc::{channel, Receiver, RecvTimeoutError, Sender};
use std::time::Duration;

pub struct C07Prop;
pub static C07: C07Prop = C07Prop;

/// halt flag raised after this many ms: a looping script is stopped at the next instruction
/// boundary (kept short: a doubling loop is bounded by time x memory bandwidth)
const HALT_MS: u64 = 300;
/// a SINGLE command that has not returned after this is a hang
const HANG_MS: u64 = 5000;

// ------------------------------------------------------------------------------------------
// allow-list: (family tag, command names).  Everything else is REMOVED from the registry of
// the in-process runs, so that no value (through eval / alias / not / if) can reach it.
// ------------------------------------------------------------------------------------------
const ALLOW: [(&str, &[&str]); 17] = [
    ("collections", &[
        "array", "array_clear", "array_concat", "array_contains", "array_get", "array_is_empty", "array_join",
        "array_length", "array_pop", "array_push", "array_remove", "array_set", "is_array", "is_map", "is_set", "map",
        "map_clear", "map_contains_key", "map_contains_value", "map_get", "map_is_empty", "map_keys",
        "map_load_properties", "map_put", "map_remove", "map_size", "map_to_properties", "range", "set_new",
        "set_clear", "set_contains", "set_from_array", "set_is_empty", "set_put", "set_remove", "set_size",
        "set_to_array", "release",
    ]),
    ("string", &[
        "base64", "base64_decode", "base64_encode", "bytes_to_string", "camelcase", "concat", "contains", "ends_with",
        "equals", "indexof", "is_empty", "kebabcase", "last_indexof", "length", "lowercase", "replace", "snakecase",
        "split", "starts_with", "string_to_bytes", "substring", "trim", "trim_end", "trim_start", "uppercase",
    ]),
    ("math", &["calc", "greater_than", "hex_decode", "hex_encode", "less_than"]),
    ("json", &["json_encode", "json_parse"]),
    ("semver", &["semver_is_equal", "semver_is_newer", "semver_parse"]),
    ("scope", &["clear_scope", "scope_push_stack", "scope_pop_stack"]),
    ("var", &["get_all_var_names", "get_by_name", "is_defined", "set", "set_by_name", "unset", "unset_all_vars"]),
    ("on_error", &[
        "exit_on_error", "get_last_error", "get_last_error_line", "get_last_error_source", "on_error", "set_error",
        "trigger_error",
    ]),
    ("misc", &["not", "eval", "is_command_defined", "noop", "echo", "print", "println", "exit"]),
    ("debug", &["duckscript_sdk_version", "duckscript_version", "dump_instructions", "dump_state", "dump_variables"]),
    ("lib", &["alias", "unalias", "remove_command"]),
    ("flowcontrol", &[
        "if", "elseif", "elif", "else", "end", "end_if", "for", "end_for", "while", "end_while", "function", "fn",
        "end_fn", "return", "goto",
    ]),
    ("random", &["random_range", "random_text"]),
    ("time", &["current_time"]),
    ("hash", &["digest"]),
    ("env", &[
        "get_env", "os_family", "os_name", "os_release", "os_version", "cpu_count", "is_windows", "get_home_dir",
        "get_user_name", "print_env", "env_to_map", "uname",
    ]),
    ("fs-path", &["basename", "dirname", "join_path"]),
];

/// never on the list, whatever happens to the table above (checked before every first use)
const DENY: [&str; 64] = [
    "rm", "rmdir", "mv", "cp", "cp_glob", "glob_cp", "mkdir", "touch", "writefile", "write_text_file", "writebinfile",
    "write_binary_file", "appendfile", "chmod", "chmod_glob", "glob_chmod", "zip", "unzip", "temp_file", "temp_dir",
    "cd", "set_current_dir", "set_current_directory", "set_env", "unset_env", "exec", "spawn", "watchdog", "read",
    "sleep", "wget", "http_client", "ftp_get", "ftp_get_in_memory", "ftp_list", "ftp_nlst", "ftp_put",
    "ftp_put_in_memory", "hostname", "man", "cat", "readfile", "read_text_file", "readbinfile", "read_binary_file",
    "ls", "write_properties", "read_properties", "test_directory", "test_file", "assert", "assert_eq", "assert_error",
    "assert_fail", "assert_false", "sha256sum", "sha512sum", "glob_array", "globarray", "gitignore_path_array",
    "canonicalize", "which", "pid", "process_id",
];

/// commands whose numeric argument is a SIZE: in-process they only get literals from a fixed
/// safe list (a huge size aborts the process: probes `range-huge`, `random-text-huge`)
const SIZE_DRIVEN: [&str; 2] = ["range", "random_text"];

fn allowed_names() -> Vec<(&'static str, &'static str)> {
    let mut v = vec![];
    for (fam, names) in ALLOW.iter() {
        for n in names.iter() {
            v.push((*fam, *n));
        }
    }
    v
}

fn build_restricted() -> Context {
    let mut ctx = sdk_context();
    let allow = allowed_names();
    for (_, n) in &allow {
        assert!(!DENY.contains(n), "C07 allow-list contains the denied command {}", n);
        assert!(ctx.commands.exists(n), "C07 allow-list names the unknown command {}", n);
    }
    // full names of the allowed commands
    let mut keep: BTreeSet<String> = BTreeSet::new();
    for (_, n) in &allow {
        let full = ctx.commands.aliases.get(*n).cloned().unwrap_or_else(|| n.to_string());
        keep.insert(full);
    }
    for full in ctx.commands.get_all_command_names() {
        if !keep.contains(&full) {
            ctx.commands.remove(&full);
        }
    }
    for d in DENY.iter() {
        assert!(!ctx.commands.exists(d), "C07: denied command {} is still registered", d);
    }
    ctx
}

thread_local! {
    static RESTRICTED: Context = build_restricted();
}

fn restricted_context() -> Context {
    RESTRICTED.with(|c| c.clone())
}

// ------------------------------------------------------------------------------------------
// guarded execution: a helper thread per worker runs the case; the worker waits HANG_MS
// ------------------------------------------------------------------------------------------
/// separates the runs of a multi-run library script (a comment line, harmless inside one run)
const NEXT_RUN: &str = "#---next-run-on-the-returned-context---";
const NEXT_RUN_SEP: &str = "\n#---next-run-on-the-returned-context---\n";

/// a writer that refuses every write (`/dev/full`)
struct FailWrite;
impl std::io::Write for FailWrite {
    fn write(&mut self, _b: &[u8]) -> std::io::Result<usize> {
        Err(std::io::Error::new(std::io::ErrorKind::Other, "No space left on device"))
    }
    fn flush(&mut self) -> std::io::Result<()> {
        Err(std::io::Error::new(std::io::ErrorKind::Other, "No space left on device"))
    }
}

enum Job {
    Text(String),
    Lib(String, Vec<(String, String)>),
    /// `test_file` on a file with this content (the full SDK; the content comes from a pool of
    /// harmless lines: function definitions of every shape, assignments, asserts)
    TestFile(String),
    /// a hand-written harmless script run with the FULL SDK (commands the random stream must not
    /// get: they read the file system) — index into FULL_SCRIPTS
    Full(usize),
}

fn run_job(job: Job) -> String {
    match job {
        Job::Text(text) => {
            let _ = duckscript::parser::parse_text(&text);
            let halt = guarded_halt(HALT_MS);
            let _ = duckscript::runner::run_script(&text, Context::new(), Some(quiet_env(Some(halt))));
            "ok".to_string()
        }
        Job::Full(k) => {
            let dir = std::env::temp_dir().join(format!("duck-c07-full-{}-{:?}", std::process::id(), std::thread::current().id()).replace(['(', ')'], ""));
            let _ = std::fs::create_dir_all(dir.join("sub"));
            let _ = std::fs::write(dir.join("sub").join("a.txt"), "x");
            let _ = std::fs::write(dir.join(".hidden"), "h");
            // link topology: a link to an ancestor (a cycle for whoever follows links), a dangling link
            let _ = std::os::unix::fs::symlink(&dir, dir.join("sub").join("up"));
            let _ = std::os::unix::fs::symlink(dir.join("gone"), dir.join("dangling"));
            let mut ctx = crate::sdkenv::sdk_context();
            ctx.variables.insert("d".to_string(), dir.to_string_lossy().to_string());
            let halt = guarded_halt(HALT_MS);
            let _ = duckscript::runner::run_script(FULL_SCRIPTS[k % FULL_SCRIPTS.len()], ctx, Some(quiet_env(Some(halt))));
            // (the scratch directory is private to this process and job kind; nothing is left behind)
            let _ = std::fs::remove_dir_all(&dir);
            "ok".to_string()
        }
        Job::TestFile(content) => {
            static N: std::sync::atomic::AtomicUsize = std::sync::atomic::AtomicUsize::new(0);
            let n = N.fetch_add(1, std::sync::atomic::Ordering::SeqCst);
            let file = std::env::temp_dir().join(format!("duck-c07-testfile-{}-{}.ds", std::process::id(), n));
            if std::fs::write(&file, &content).is_err() {
                return "NO-TEMP-FILE".to_string();
            }
            let mut ctx = crate::sdkenv::sdk_context();
            ctx.variables.insert("f".to_string(), file.to_string_lossy().to_string());
            let halt = guarded_halt(HALT_MS);
            let _ = duckscript::runner::run_script("r = test_file ${f}\nr2 = test_file ${f} test_simple\n", ctx, Some(quiet_env(Some(halt))));
            let _ = std::fs::remove_file(&file);
            "ok".to_string()
        }
        Job::Lib(script, vars) => {
            // self-test of the detection / shrinking path (never set by bin/check):
            // C07_SELFTEST_PANIC_ON=<marker> makes every script containing the marker panic
            if let Ok(m) = std::env::var("C07_SELFTEST_PANIC_ON") {
                if !m.is_empty() && script.contains(&m) {
                    panic!("selftest");
                }
            }
            let mut ctx = restricted_context();
            for (k, v) in vars {
                ctx.variables.insert(k, v);
            }
            let halt = guarded_halt(HALT_MS);
            // a script may consist of several RUNS on one Context (`NEXT_RUN` comment lines
            // between them): each part runs on the Context the previous run returned - state left
            // behind by an earlier run (scope stack, handles, call stacks, on_error record) is what
            // the next run starts from; a failed run ends the history (its Context is gone)
            let parts: Vec<&str> = script.split(NEXT_RUN_SEP).collect();
            // one script in four runs with writers that FAIL (write refused / flush refused: a closed
            // pipe, a full disk behind the embedder's writer): printing commands must report, not panic
            let env_for = |halt: std::sync::Arc<std::sync::atomic::AtomicBool>| -> duckscript::types::env::Env {
                match crate::hash_str(&script) % 8 {
                    0 => duckscript::types::env::Env::new(Some(Box::new(crate::scripted::FailFlush)), Some(Box::new(crate::scripted::FailFlush)), Some(halt)),
                    1 => duckscript::types::env::Env::new(Some(Box::new(FailWrite)), Some(Box::new(FailWrite)), Some(halt)),
                    _ => quiet_env(Some(halt)),
                }
            };
            let mut r = duckscript::runner::run_script(parts[0], ctx, Some(env_for(halt.clone())));
            for part in &parts[1..] {
                r = match r {
                    Ok(c) => duckscript::runner::run_script(part, c, Some(env_for(halt.clone()))),
                    Err(e) => Err(e),
                };
            }
            if std::env::var("C07_STATS").is_ok() {
                // diagnostic only (stderr): how the runs end
                let halted = halt.load(std::sync::atomic::Ordering::SeqCst);
                match r {
                    Ok(_) => eprintln!("C07STAT {}", if halted { "ok-halted" } else { "ok" }),
                    Err(e) => eprintln!("C07STAT err {}", e.to_string().chars().take(60).collect::<String>().replace('\n', " ")),
                }
            }
            "ok".to_string()
        }
    }
}

struct Helper {
    tx: Sender<Job>,
    rx: Receiver<String>,
}

fn spawn_helper() -> Helper {
    let (tx, jrx) = channel::<Job>();
    let (rtx, rx) = channel::<String>();
    std::thread::Builder::new()
        .stack_size(32 << 20)
        .spawn(move || {
            while let Ok(job) = jrx.recv() {
                let out = crate::run_caught(std::panic::AssertUnwindSafe(move || run_job(job)));
                if rtx.send(out).is_err() {
                    break;
                }
            }
        })
        .expect("helper thread");
    Helper { tx, rx }
}

thread_local! {
    static HELPER: RefCell<Option<Helper>> = RefCell::new(None);
}

extern "C" {
    fn setrlimit(resource: i32, rlim: *const [u64; 2]) -> i32;
}
static LIMIT: std::sync::Once = std::sync::Once::new();

fn run_guarded(job: Job) -> String {
    // backstop: a runaway allocation must fail inside this process, not exhaust the machine
    // (RLIMIT_AS = 9 on Linux; 24 GiB)
    LIMIT.call_once(|| {
        let lim: [u64; 2] = [24 << 30, 24 << 30];
        unsafe {
            setrlimit(9, &lim);
        }
    });
    HELPER.with(|h| {
        let mut h = h.borrow_mut();
        if h.is_none() {
            *h = Some(spawn_helper());
        }
        let hp = h.as_ref().unwrap();
        if hp.tx.send(job).is_err() {
            *h = None;
            return "PANIC".to_string();
        }
        match hp.rx.recv_timeout(Duration::from_millis(HANG_MS)) {
            Ok(s) => s,
            Err(RecvTimeoutError::Timeout) => {
                // the helper is leaked (still inside the command that does not return)
                *h = None;
                "HANG".to_string()
            }
            Err(RecvTimeoutError::Disconnected) => {
                *h = None;
                "PANIC".to_string()
            }
        }
    })
}

// ------------------------------------------------------------------------------------------
// child-process probes (cases that abort the process)
// ------------------------------------------------------------------------------------------
/// read-only file-system commands with every arrangement of their options and positional values
/// (an option left WITHOUT its value, no argument at all, a missing path); `${d}` = a private directory
const FULL_SCRIPTS: [&str; 17] = [
    "x = test_directory ${d}", "x = test_directory ${d} nothing", "x = test_directory ${d}/nope",
    "x = gitignore_path_array --include-hidden", "x = gitignore_path_array", "x = gitignore_path_array --include-hidden ${d}", "x = gitignore_path_array ${d} --include-hidden",
    "x = gitignore_path_array ${d}/nope", "x = glob_array", "x = glob_array ${d}/*", "x = ls", "x = ls -l", "x = ls ${d}/nope", "x = ls -l ${d}",
    "x = is_path_newer", "x = is_path_newer ${d}", "x = get_last_modified_time",
];

/// (probe id, mode, script; `@SELF` = path of the script file itself)
const PROBES: [(&str, &str, &str); 20] = [
    // controls: deeply nested TEXTS handed to a parser must come back (an error value is fine)
    ("control-deep-json-text", "text", "x = json_parse @JSONDEEP\ny = json_parse --collection @JSONDEEP\n"),
    ("control-deep-calc-text-error", "text", "x = calc @HALFPARENS\n"),
    // controls: collections that contain their own handle are released recursively without looping
    ("control-release-self-cycle", "text", "a = array a b\narray_push ${a} ${a}\nx = release -r ${a}\ny = is_array ${a}\nassert_false ${y}\n"),
    ("control-release-two-cycle", "text", "m = map\na = array\narray_push ${a} ${m}\nmap_put ${m} k ${a}\nx = release -r ${a}\n"),
    ("control-release-set-cycle", "text", "s = set_new x\na = array ${s}\nset_put ${s} ${a}\nx = release --recursive ${s}\n"),
    ("include-cycle", "file", "!include_files @SELF\n"),
    ("json-encode-cyclic", "text", "a = array\narray_push ${a} ${a}\nx = json_encode --collection ${a}\n"),
    ("range-huge", "text", "x = range 0 100000000000000\n"),
    ("range-huge-overflow", "text", "x = range -9223372036854775808 9223372036854775807\n"),
    ("random-text-huge", "text", "x = random_text 100000000000000\n"),
    ("random-text-huge-overflow", "text", "x = random_text 18446744073709551615\n"),
    ("join-path-hang", "text", "x = join_path /\\${u}/ a\n"),
    ("alias-self-recursion", "text", "alias x x\nx\n"),
    ("fn-recursion-in-condition", "text", "fn f\n    if f\n    end\nend\nf\n"),
    ("nested-loop-ignores-halt", "text", "fn f\n    while true\n    end\nend\nif f\nend\n"),
    ("json-encode-length-huge", "text", "x.length = set 100000000000000\ny = json_encode x\n"),
    // deep but finite nesting (`@DEEP` / `@PARENS` are expanded by `probe_text`)
    ("deep-release-chain", "text", "@DEEPok = release -r ${a}\n"),
    ("deep-json-encode-chain", "text", "@DEEPj = json_encode --collection ${a}\n"),
    ("deep-calc-parens", "text", "x = calc @PARENS\n"),
    // controls: must return
    ("control-toplevel-loop", "text", "while true\nend\n"),
];

fn child_binary() -> Option<std::path::PathBuf> {
    let me = std::env::current_exe().ok()?;
    let p = me.parent()?.join("c07child");
    if p.exists() { Some(p) } else { None }
}

/// `@DEEP`: builds `a` = an array nested 30 000 deep; `@PARENS`: `1` inside 100 000 parentheses
fn probe_text(script: &str) -> String {
    let deep = "a = array x\nr = range 0 30000\nfor i in ${r}\n    a = array ${a}\nend\n";
    let parens = format!("{}1{}", "(".repeat(100_000), ")".repeat(100_000));
    // `@JSONDEEP`: 200 000 nested JSON arrays; `@HALFPARENS`: 300 opening parentheses, none closed
    let jsondeep = format!("{}1{}", "[".repeat(200_000), "]".repeat(200_000));
    script.replace("@JSONDEEP", &jsondeep).replace("@HALFPARENS", &"(".repeat(300)).replace("@DEEP", deep).replace("@PARENS", &parens)
}

fn run_probe(name: &str) -> String {
    let Some((_, mode, script)) = PROBES.iter().find(|p| p.0 == name).copied() else {
        return "BAD-PROBE".to_string();
    };
    let Some(bin) = child_binary() else {
        return "NO-CHILD-BINARY".to_string();
    };
    // (unique per invocation: the same probe may run on two workers at once — as a fixed case
    // and as a corpus entry)
    static PROBE_NO: std::sync::atomic::AtomicUsize = std::sync::atomic::AtomicUsize::new(0);
    let n = PROBE_NO.fetch_add(1, std::sync::atomic::Ordering::SeqCst);
    let dir = std::env::temp_dir().join(format!("c07-{}-{}-{}", std::process::id(), n, name));
    let _ = std::fs::create_dir_all(&dir);
    let file = dir.join("probe.ds");
    let text = probe_text(script).replace("@SELF", &file.to_string_lossy());
    if std::fs::write(&file, text).is_err() {
        return "NO-TEMP-FILE".to_string();
    }
    let st = std::process::Command::new(bin)
        .arg(mode)
        .arg(&file)
        .arg(HALT_MS.to_string())
        .stdin(std::process::Stdio::null())
        .stdout(std::process::Stdio::null())
        .stderr(std::process::Stdio::null())
        .status();
    let _ = std::fs::remove_file(&file);
    let _ = std::fs::remove_dir(&dir);
    match st {
        Ok(s) => match s.code() {
            Some(0) => "ok".to_string(),
            Some(3) => "PANIC".to_string(),
            Some(4) => "HANG".to_string(),
            _ => "ABORT".to_string(), // killed by a signal (SIGABRT / SIGSEGV) or abnormal exit
        },
        Err(_) => "NO-CHILD-BINARY".to_string(),
    }
}

// ------------------------------------------------------------------------------------------
// generation
// ------------------------------------------------------------------------------------------
const NUMS: [&str; 33] = [
    // (128-bit limits and beyond: commands that parse into i128 / u128 / f64)
    "170141183460469231731687303715884105727", "-170141183460469231731687303715884105728",
    "340282366920938463463374607431768211455", "340282366920938463463374607431768211456", "1e38", "-1e38",
    "99999999999999999999999999999999999999999",
    "0", "1", "2", "3", "5", "7", "-1", "-2", "-0", "+1", "10", "255", "256", "1.5", "-1.5", "1e3", "1e400", "0x10",
    "9223372036854775807", "-9223372036854775808", "9223372036854775808", "18446744073709551615",
    "18446744073709551616", " 3", "3 ", "nan",
];
const TEXTS: [&str; 24] = [
    "", " ", "a", "abc", "aé", "é漢😀", "a b", "  x  ", "a,b,,c", "A_b-C d", "ÀÉ", "ß", "İ", "ǅ", "\u{0301}e", "a\tb",
    "x\ny", "\0", "-", "--", "true", "false", "handle:abc", "%",
];
const FLAGS: [&str; 14] = [
    "-r", "--recursive", "--copy", "-e", "-d", "-encode", "-decode", "--prefix", "-s", "-c", "-bgc", "--algo", "-a",
    "--",
];
const SEMVERS: [&str; 10] = ["1.2.3", "0.0.0", "1.2", "1.2.3-alpha.1", "1.2.3+build", "01.2.3", "v1.2.3", "1.2.3.4", "", "99999999999999999999.0.0"];
const JSONS: [&str; 16] = [
    "{}", "[]", "null", "true", "1", "-0", "1e400", "\"a\"", "{\"a\":1,\"b\":[1,2,{\"c\":null}]}", "[[[[[[[[1]]]]]]]]",
    "{\"a\":", "[1,]", "\"\\ud800\"", "{\"handle:abc\":\"handle:abc\"}", "123456789012345678901234567890", "",
];
const CALC_TOKENS: [&str; 36] = [
    "1", "2", "0", "-1", "1.5", "9223372036854775807", "-9223372036854775808", "1e308", "+", "-", "*", "/", "%", "^",
    "(", ")", "==", "&&", "||", "!", "<", ",", "true", "\"s\"", "x", "=", ";", "math::sqrt(-1)", "floor(1e30)",
    "len(\"é\")", "str::to_uppercase(\"a\")", "max()", "min(1,2)", "if(true,1,2)", "round(1.5)", "0x10",
];
const CMD_NAMES: [&str; 8] = ["set", "array", "nope", "if", "std::string::Concat", "", "my_alias", "f0"];
const ALGOS: [&str; 4] = ["sha256", "sha512", "md5", ""];
const PATHS: [&str; 12] = ["a", "a/b", "/a/b.txt", "a//b", "./a/../b", "/", ".", "..", "a/", "//", "a.b.c", "-"];
const COLORS: [&str; 6] = ["red", "black", "bright_blue", "nocolor", "", "RED"];
const ENVS: [&str; 5] = ["HOME", "PATH", "NO_SUCH_VAR_C07", "", "A=B"];
/// literal argument lists for the size-driven commands (never a variable reference)
const RANGE_ARGS: [&[&str]; 12] = [
    &["0", "3"], &["-2", "2"], &["3", "3"], &["5", "1"], &["0", "20"], &["x", "3"], &["0"], &[],
    &["9223372036854775806", "9223372036854775807"], &["9223372036854775807", "9223372036854775807"],
    &["-9223372036854775808", "-9223372036854775807"], &["1.5", "3"],
];
const RANDOM_TEXT_ARGS: [&[&str]; 9] = [&[], &["0"], &["1"], &["5"], &["64"], &["-1"], &["x"], &["1e3"], &["18446744073709551616"]];

#[derive(Clone, Copy, PartialEq)]
enum K {
    H,      // handle
    T,      // text
    N,      // number
    Flag,   // option flag
    Var,    // variable name
    Sem,    // semver
    Json,
    Cmd,    // command name
    Algo,
    Path,   // [A-Za-z0-9_./-] only (join_path)
    Color,
    Env,
    B64,
    Hex,
    Any,    // untyped pool
}

/// typed signatures: (command, typical arguments; `rest` = the last kind may repeat 0..3 times)
fn signature(cmd: &str) -> (&'static [K], bool) {
    use K::*;
    match cmd {
        "array" | "set_new" => (&[T], true),
        "map" | "noop" | "get_all_var_names" | "current_time" | "duckscript_version" | "duckscript_sdk_version"
        | "dump_instructions" | "dump_state" | "dump_variables" | "os_family" | "os_name" | "os_release" | "os_version"
        | "cpu_count" | "is_windows" | "get_home_dir" | "get_user_name" | "print_env" | "env_to_map"
        | "get_last_error" | "get_last_error_line" | "get_last_error_source" => (&[], false),
        "array_clear" | "array_is_empty" | "array_length" | "array_pop" | "is_array" | "is_map" | "is_set"
        | "map_clear" | "map_is_empty" | "map_keys" | "map_size" | "map_to_properties" | "set_clear"
        | "set_from_array" | "set_is_empty" | "set_size" | "set_to_array" => (&[H], false),
        "array_concat" => (&[H], true),
        "array_contains" | "map_contains_key" | "map_contains_value" | "map_get" | "map_remove" | "set_contains"
        | "set_remove" | "array_join" => (&[H, T], false),
        "array_get" | "array_remove" => (&[H, N], false),
        "array_set" => (&[H, N, T], false),
        "array_push" | "set_put" => (&[H, T], true),
        "map_put" => (&[H, T, T], false),
        "map_load_properties" => (&[Flag, H, T], false),
        "release" => (&[Flag, H], false),
        "base64" => (&[Flag, T], false),
        "base64_decode" => (&[B64], false),
        "base64_encode" | "bytes_to_string" => (&[H], false),
        "string_to_bytes" | "camelcase" | "kebabcase" | "snakecase" | "length" | "lowercase" | "uppercase" | "trim"
        | "trim_end" | "trim_start" | "is_empty" => (&[T], false),
        "concat" => (&[T], true),
        "contains" | "ends_with" | "starts_with" | "equals" | "indexof" | "last_indexof" | "split" => (&[T, T], false),
        "replace" => (&[T, T, T], false),
        "substring" => (&[T, N, N], false),
        "greater_than" | "less_than" | "random_range" => (&[N, N], false),
        "hex_decode" => (&[Hex], false),
        "hex_encode" => (&[N], false),
        "json_encode" => (&[T], false),
        "json_parse" => (&[Json], false),
        "semver_is_equal" | "semver_is_newer" => (&[Sem, Sem], false),
        "semver_parse" => (&[Sem], false),
        "clear_scope" => (&[Var], false),
        "scope_push_stack" | "scope_pop_stack" => (&[Flag, Var], true),
        "get_by_name" | "is_defined" => (&[Var], false),
        "set" => (&[Any], true),
        "set_by_name" => (&[Var, Any], false),
        "unset" => (&[Var], true),
        "unset_all_vars" => (&[Flag, T], false),
        "exit_on_error" => (&[T], false),
        "on_error" | "set_error" | "trigger_error" => (&[T, N, T], false),
        "is_command_defined" | "unalias" | "remove_command" => (&[Cmd], false),
        "echo" | "println" => (&[Any], true),
        "print" => (&[Flag, Color, Any], true),
        "digest" => (&[Flag, Algo, T], false),
        "get_env" => (&[Env], false),
        "uname" => (&[Flag], false),
        "basename" | "dirname" => (&[Path], false),
        "join_path" => (&[Path], true),
        "exit" => (&[N], false),
        _ => (&[Any], true),
    }
}

struct Gen<'a> {
    rng: &'a mut Rng,
    vars: Vec<(String, String)>,
    /// `json_encode --collection` mode: no handle is ever stored in a collection, stored
    /// values are raw literals (a cyclic handle graph aborts the process: probe json-encode-cyclic)
    json_mode: bool,
    /// script with a loop construct: outputs go to fresh variables that are never read
    loopy: bool,
    fresh: usize,
    alias_defined: bool,
    tags: BTreeSet<&'static str>,
}

fn quote(s: &str) -> String {
    let mut o = String::from("\"");
    for c in s.chars() {
        match c {
            '"' => o.push_str("\\\""),
            '\\' => o.push_str("\\\\"),
            '\n' => o.push_str("\\n"),
            '\r' => o.push_str("\\r"),
            '\t' => o.push_str("\\t"),
            _ => o.push(c),
        }
    }
    o.push('"');
    o
}

impl<'a> Gen<'a> {
    fn preset(&mut self, value: String) -> String {
        // reuse or add a preset variable v<k>
        if let Some((k, _)) = self.vars.iter().find(|(_, v)| *v == value) {
            return format!("${{{}}}", k);
        }
        let k = format!("v{}", self.vars.len());
        self.vars.push((k.clone(), value));
        format!("${{{}}}", k)
    }
    /// a value either through a preset variable or written raw (quoted) into the script
    fn emit(&mut self, value: String) -> String {
        if self.rng.chance(1, 2) && self.vars.len() < 12 {
            self.preset(value)
        } else if !value.is_empty() && value.chars().all(|c| c.is_ascii_alphanumeric() || "-_./:+".contains(c)) && self.rng.chance(2, 3) {
            value
        } else {
            quote(&value)
        }
    }
    fn handle_ref(&mut self) -> String {
        match self.rng.below(10) {
            0..=5 => format!("${{h{}}}", self.rng.below(4)), // live handle of SOME kind (often the wrong one)
            6 => "${gone}".to_string(),                      // released handle
            7 => "handle:abc".to_string(),
            8 => "${nope}".to_string(), // undefined variable: empty argument
            _ => {
                let t = self.rng.pick_s(&TEXTS).to_string();
                self.emit(t)
            }
        }
    }
    fn arg(&mut self, k: K, stored: bool) -> String {
        // one time in 8 any kind is replaced by the untyped pool
        let k = if k != K::Path && self.rng.chance(1, 8) { K::Any } else { k };
        match k {
            K::H => self.handle_ref(),
            K::T => {
                if !self.json_mode && !stored && self.rng.chance(1, 6) {
                    return format!("${{o{}}}", self.rng.below(4));
                }
                if !self.json_mode && stored && self.rng.chance(1, 5) {
                    // a handle stored inside a collection (nesting, also self reference)
                    return format!("${{h{}}}", self.rng.below(4));
                }
                let t = self.rng.pick_s(&TEXTS).to_string();
                if self.json_mode && stored { quote(&t) } else { self.emit(t) }
            }
            K::N => {
                // small indices most of the time (two-argument coincidences: `substring aé 0 2`)
                let t = if self.rng.chance(3, 5) { self.rng.pick_s(&["0", "1", "2", "3", "4", "5", "-1"]) } else { self.rng.pick_s(&NUMS) }.to_string();
                self.emit(t)
            }
            K::Flag => {
                if self.rng.chance(1, 3) {
                    let t = self.rng.pick_s(&TEXTS).to_string();
                    return self.emit(t);
                }
                self.rng.pick_s(&FLAGS).to_string()
            }
            K::Var => {
                let names = ["v0", "v1", "h0", "h1", "o0", "o1", "nope", "gone", "", "scope::x", "a b", "é", "o0.a", "h0[0]", "o0b", "o1_x", "o", "h"];
                let t = self.rng.pick_s(&names).to_string();
                self.emit(t)
            }
            K::Sem => {
                let t = self.rng.pick_s(&SEMVERS).to_string();
                self.emit(t)
            }
            K::Json => {
                let t = self.rng.pick_s(&JSONS).to_string();
                self.emit(t)
            }
            K::Cmd => {
                let t = self.rng.pick_s(&CMD_NAMES).to_string();
                self.emit(t)
            }
            K::Algo => {
                let t = self.rng.pick_s(&ALGOS).to_string();
                self.emit(t)
            }
            K::Path => {
                // raw, characters [A-Za-z0-9_./-] only
                self.rng.pick_s(&PATHS).to_string()
            }
            K::Color => {
                let t = self.rng.pick_s(&COLORS).to_string();
                self.emit(t)
            }
            K::Env => {
                let t = self.rng.pick_s(&ENVS).to_string();
                self.emit(t)
            }
            K::B64 => {
                let c = ["", "YQ==", "Zm8=", "Zm8", "****", "w6k=", "/w==", "YQ==YQ=="];
                let t = self.rng.pick_s(&c).to_string();
                self.emit(t)
            }
            K::Hex => {
                let c = ["0xff", "ff", "0x", "", "0xffffffffffffffff", "0x10000000000000000", "-0x1", "0xZZ", "0x0xFf"];
                let t = self.rng.pick_s(&c).to_string();
                self.emit(t)
            }
            K::Any => {
                if self.json_mode && stored {
                    let t = self.rng.pick_s(&TEXTS).to_string();
                    return quote(&t);
                }
                let t = pools::value(self.rng);
                // `${...}` / `%{...}` inside a raw literal would expand: only through a preset
                self.preset(t)
            }
        }
    }

    /// `<command> <args…>` for a non-flow command of the allow-list
    fn call(&mut self, allow_wrappers: bool) -> String {
        let flat = allowed_names();
        loop {
            let (fam, cmd) = *self.rng.pick(&flat);
            if fam == "flowcontrol" || cmd == "exit" && !self.rng.chance(1, 20) {
                continue;
            }
            self.tags.insert(fam);
            if fam == "lib" && !self.json_mode && allow_wrappers && self.rng.chance(1, if self.alias_defined { 2 } else { 12 }) {
                // call the alias (defined or not)
                let n = self.rng.below(3);
                let args: Vec<String> = (0..n).map(|_| self.arg(K::Any, false)).collect();
                return format!("my_alias {}", args.join(" ")).trim_end().to_string();
            }
            if SIZE_DRIVEN.contains(&cmd) {
                let args: &[&str] = if cmd == "range" { *self.rng.pick(&RANGE_ARGS) } else { *self.rng.pick(&RANDOM_TEXT_ARGS) };
                return format!("{} {}", cmd, args.join(" ")).trim_end().to_string();
            }
            match cmd {
                "not" | "eval" => {
                    if !allow_wrappers {
                        continue;
                    }
                    // sometimes the whole wrapped "command line" is ONE value made of characters that
                    // vanish when the line is rebuilt and parsed again (line breaks, blanks, a comment)
                    if self.rng.chance(1, 8) {
                        let t = *self.rng.pick(&["\n", "\r\n", "\t", " ", "\u{3000}", "\n\n", "#c", "", "\u{feff}", "\u{85}"]);
                        return format!("{} {}", cmd, quote(t));
                    }
                    // block commands reached through the nested evaluator see an EMPTY instruction
                    // list and line 0
                    if self.rng.chance(1, 8) {
                        let t = *self.rng.pick(&["if true", "if false", "while true", "while false", "for x in ${h0}", "fn f9", "function g9 a", "end", "else", "elseif true", "return", "return v", "end_fn", "end_for", "end_while", "goto :nolabel", "std::flowcontrol::If true"]);
                        return format!("{} {}", cmd, t);
                    }
                    let inner = if self.rng.chance(1, 6) { self.cond_tokens() } else { self.call(false) };
                    return format!("{} {}", cmd, inner);
                }
                "alias" => {
                    if !allow_wrappers {
                        continue;
                    }
                    // alias of a plain SDK command (never of itself, of a function or of a
                    // size-driven command: probes alias-self-recursion / range-huge)
                    let (_, target) = loop {
                        let c = *self.rng.pick(&flat);
                        if c.0 != "flowcontrol" && c.0 != "lib" && !SIZE_DRIVEN.contains(&c.1) && !["not", "eval", "exit"].contains(&c.1) {
                            break c;
                        }
                    };
                    let pre = if self.rng.chance(1, 2) { format!(" {}", self.arg(K::T, false)) } else { String::new() };
                    self.alias_defined = true;
                    return format!("alias my_alias {}{}", target, pre);
                }
                "calc" => {
                    let n = 1 + self.rng.below(6);
                    let toks: Vec<&str> = (0..n).map(|_| self.rng.pick_s(&CALC_TOKENS)).collect();
                    let e = toks.join(" ");
                    return if self.rng.chance(1, 2) { format!("calc {}", e.replace('"', "\\\"")) } else { format!("calc {}", self.preset(e)) };
                }
                "json_encode" => {
                    if self.json_mode {
                        return format!("json_encode --collection {}", self.handle_ref());
                    }
                    // variable-tree form: the argument is a variable NAME (o*/h* may hold a json_parse tree)
                    return format!("json_encode {}", self.arg(K::Var, false));
                }
                "json_parse" => {
                    let coll = if self.rng.chance(1, 2) { "--collection " } else { "" };
                    return format!("json_parse {}{}", coll, self.arg(K::Json, false));
                }
                _ => {}
            }
            let (sig, rest) = signature(cmd);
            let mut args: Vec<String> = vec![];
            let stored_cmd = ["array", "set_new", "array_push", "set_put", "map_put", "array_set"].contains(&cmd);
            for (i, k) in sig.iter().enumerate() {
                if *k == K::Flag && self.rng.chance(1, 2) {
                    continue; // flags are optional
                }
                let stored = stored_cmd && *k != K::H && (i > 0 || cmd == "array" || cmd == "set_new");
                args.push(self.arg(*k, stored));
            }
            if rest && !sig.is_empty() {
                let last = *sig.last().unwrap();
                for _ in 0..self.rng.below(3) {
                    let stored = stored_cmd;
                    args.push(self.arg(last, stored));
                }
            }
            // wrong arity now and then
            match self.rng.below(12) {
                0 => {
                    args.pop();
                }
                1 => args.clear(),
                2 => {
                    let extra = if cmd == "join_path" { self.arg(K::Path, false) } else if self.json_mode && stored_cmd { quote("x") } else { self.arg(K::Any, false) };
                    args.push(extra);
                }
                _ => {}
            }
            return format!("{} {}", cmd, args.join(" ")).trim_end().to_string();
        }
    }

    /// tokens of a condition (if / while / elseif / not): values, operators, parentheses —
    /// balanced or not — and SDK commands
    fn cond_tokens(&mut self) -> String {
        match self.rng.below(8) {
            0 => "true".to_string(),
            1 => "false".to_string(),
            2 => format!("${{go}}"),
            3 => self.call(false),
            _ => {
                let toks = ["true", "false", "and", "or", "(", ")", "not", "${go}", "${nope}", "0", "\"\"", "x"];
                let n = 1 + self.rng.below(7);
                (0..n).map(|_| self.rng.pick_s(&toks)).collect::<Vec<_>>().join(" ")
            }
        }
    }

    fn out_var(&mut self, cmd_line: &str) -> String {
        if self.rng.chance(1, 4) {
            return String::new();
        }
        if self.loopy {
            self.fresh += 1;
            return format!("r{} = ", self.fresh);
        }
        let first = cmd_line.split(' ').next().unwrap_or("");
        let makes_handle = ["array", "map", "set_new", "range", "split", "json_parse", "array_concat", "set_from_array", "set_to_array", "map_keys", "get_all_var_names", "string_to_bytes", "env_to_map", "semver_parse"].contains(&first);
        if makes_handle && !self.json_mode {
            format!("h{} = ", self.rng.below(4))
        } else if makes_handle {
            // json mode: keep the four handles acyclic AND of known provenance
            format!("h{} = ", self.rng.below(4))
        } else {
            format!("o{} = ", self.rng.below(4))
        }
    }

    fn plain_line(&mut self) -> String {
        let c = self.call(true);
        let o = self.out_var(&c);
        format!("{}{}", o, c)
    }

    /// a block of lines with (mostly well nested) flow control
    fn block(&mut self, budget: &mut usize, depth: usize, in_fn: bool, out: &mut Vec<String>) {
        while *budget > 0 {
            *budget -= 1;
            let mut k = self.rng.below(if depth < 2 { 14 } else { 8 });
            if !self.loopy && [10, 11, 13].contains(&k) {
                k = 0; // while / for / goto only in loop mode (outputs are then never read back)
            }
            match k {
                0..=7 => out.push(self.plain_line()),
                8 | 9 => {
                    self.tags.insert("flowcontrol");
                    out.push(format!("if {}", self.cond_tokens()));
                    let mut b = (*budget).min(1 + self.rng.below(3));
                    *budget -= b;
                    self.block(&mut b, depth + 1, in_fn, out);
                    if self.rng.chance(1, 3) {
                        out.push(if self.rng.chance(1, 2) { format!("elseif {}", self.cond_tokens()) } else { "else".to_string() });
                        out.push(self.plain_line());
                    }
                    out.push(self.rng.pick_s(&["end", "end", "end_if"]).to_string());
                }
                10 => {
                    self.tags.insert("flowcontrol");
                    // a loop that ends by itself (the flag is cleared in the body) …
                    out.push("go = set true".to_string());
                    out.push(format!("while {}", if self.rng.chance(5, 6) { "${go}".to_string() } else { self.cond_tokens() }));
                    out.push(self.plain_line());
                    if self.rng.chance(19, 20) {
                        out.push("go = set false".to_string());
                    }
                    out.push(self.rng.pick_s(&["end", "end", "end_while"]).to_string());
                }
                11 => {
                    self.tags.insert("flowcontrol");
                    out.push(format!("for item in {}", self.handle_ref()));
                    let mut b = (*budget).min(1 + self.rng.below(2));
                    *budget -= b;
                    self.block(&mut b, depth + 1, in_fn, out);
                    out.push(self.rng.pick_s(&["end", "end", "end_for"]).to_string());
                }
                12 => {
                    self.tags.insert("flowcontrol");
                    if in_fn {
                        out.push(if self.rng.chance(1, 2) { "return".to_string() } else { format!("return {}", self.arg(K::T, false)) });
                    } else {
                        // a function without loops and without calls of functions; called at top level
                        let scoped = if self.rng.chance(1, 3) { "<scope> " } else { "" };
                        out.push(format!("fn {}f0 a b", scoped));
                        let mut b = (*budget).min(1 + self.rng.below(2));
                        *budget -= b;
                        let was = self.loopy;
                        self.block(&mut b, 2, true, out);
                        self.loopy = was;
                        out.push(self.rng.pick_s(&["end", "end", "end_fn"]).to_string());
                        let o = if self.rng.chance(1, 2) { self.fresh += 1; format!("r{} = ", self.fresh) } else { String::new() };
                        out.push(format!("{}f0 {}", o, self.arg(K::T, false)));
                    }
                }
                _ => {
                    self.tags.insert("flowcontrol");
                    // labels and gotos (forward mostly; a backward goto is a loop the watchdog stops)
                    match self.rng.below(6) {
                        0 => out.push(format!(":l{} noop", self.rng.below(3))),
                        1 => out.push(format!("goto :l{}", self.rng.below(3))), // defined or not, forward or backward
                        _ => {
                            // forward jump over one line
                            self.fresh += 1;
                            let l = self.fresh;
                            out.push(format!("goto :skip{}", l));
                            out.push(self.plain_line());
                            out.push(format!(":skip{} noop", l));
                        }
                    }
                }
            }
        }
    }
}

fn gen_script(rng: &mut Rng) -> (String, Vec<(String, String)>, Vec<&'static str>) {
    let json_mode = rng.chance(1, 8);
    let loopy = !json_mode && rng.chance(1, 3);
    let mut g = Gen { rng, vars: vec![], json_mode, loopy, fresh: 0, alias_defined: false, tags: BTreeSet::new() };
    let mut lines: Vec<String> = vec![];
    // prelude: live handles of the three kinds (+ one released)
    let lit = |g: &mut Gen| -> String {
        let t = g.rng.pick_s(&TEXTS).to_string();
        quote(&t)
    };
    let n_pre = g.rng.below(5);
    for i in 0..n_pre {
        let l = match g.rng.below(6) {
            0 => format!("h{} = array {} {}", i % 4, lit(&mut g), lit(&mut g)),
            1 => format!("h{} = map", i % 4),
            2 => format!("h{} = set_new {}", i % 4, lit(&mut g)),
            3 => format!("h{} = range 0 3", i % 4),
            4 => format!("h{} = json_parse --collection {}", i % 4, quote(g.rng.pick_s(&JSONS))),
            _ => "gone = array x\nrelease ${gone}".to_string(),
        };
        g.tags.insert("collections");
        lines.extend(l.split('\n').map(|s| s.to_string()));
    }
    let mut budget = 1 + g.rng.below(12usize.saturating_sub(lines.len()).max(1));
    g.block(&mut budget, 0, false, &mut lines);
    // ill-nested arrangements: drop / duplicate / swap a line
    if g.rng.chance(1, 4) && lines.len() > 1 {
        let i = g.rng.below(lines.len());
        match g.rng.below(3) {
            0 => {
                lines.remove(i);
            }
            1 => {
                // stray flow keyword
                let kw = g.rng.pick_s(&["end", "else", "elseif true", "return", "end_if", "end_fn", "end_for", "end_while", "fn", "fn <scope>", "for x in", "for", "while", "if"]);
                lines.insert(i, kw.to_string());
                g.tags.insert("ill-nested");
            }
            _ => {
                let j = g.rng.below(lines.len());
                lines.swap(i, j);
                g.tags.insert("ill-nested");
            }
        }
    }
    lines.truncate(14);
    if g.json_mode {
        g.tags.insert("json-collection-mode");
    }
    if g.loopy {
        g.tags.insert("loop-mode");
    }
    let tags: Vec<&'static str> = g.tags.iter().copied().collect();
    (lines.join("\n"), g.vars, tags)
}

fn enc_vars(vars: &[(String, String)]) -> String {
    if vars.is_empty() {
        return "-".to_string();
    }
    let mut v: Vec<String> = vars.iter().map(|(k, x)| format!("{}={}", enc_str(k), enc_str(x))).collect();
    v.sort();
    v.join(",")
}

fn dec_vars(t: &str) -> Vec<(String, String)> {
    if t == "-" {
        return vec![];
    }
    t.split(',')
        .filter_map(|kv| {
            let (k, v) = kv.split_once('=')?;
            Some((dec_str(k)?, dec_str(v)?))
        })
        .collect()
}

fn lib_case(script: &str, vars: &[(String, String)], tags: Vec<&'static str>) -> Case {
    Case { req: format!("c07 lib {} {}", enc_str(script), enc_vars(vars)), in_domain: true, nontrivial: script.lines().count() >= 2, tags }
}

impl Prop for C07Prop {
    fn id(&self) -> &'static str {
        "C07"
    }
    fn rule(&self) -> &'static str {
        "SEARCH (layers 2/3), not proof. (a) parser level: arbitrary texts (C08's generator) through parse_text and through run_script with an EMPTY registry. (b) library level: scripts of <= 14 lines `[out =] command args` over an allow-list of ~190 real SDK commands (collections, string, math, json, semver, scope, var, on_error, debug, lib, flowcontrol, random, time, text digest, read-only env, pure path functions); every command NOT on the list is removed from the registry, the list is checked against a hard-coded deny-list. Arguments per command signature from typed pools (numbers incl. negative / i64 and u64 limits / non-numeric, multi-byte text, empty, live handles of any kind, released and undefined handles, option flags) and, one in eight, from the untyped pool; half of the values go through preset variables, half are written raw. Flow control (if/elseif/else/while/for/fn/return/goto/labels) mostly well nested, one script in eight ill nested. Restrictions that keep the harness alive: range / random_text only get literals from a fixed list; json_encode --collection only in scripts that never store a handle in a collection; join_path only [A-Za-z0-9_./-]; aliases never target themselves; functions are loop-free and called at top level. Each run: catch_unwind, halt flag raised after 300 ms, second guard 5 s (HANG). (c) fifteen probes that can abort the process run once each in a child process (c07child) with a 4 GiB address-space cap. Non-trivial = at least two script lines / non-blank text; distinct = distinct request."
    }
    fn budget(&self, tier: Tier) -> usize {
        match tier {
            Tier::Quick => 35_000,
            Tier::Thorough => 2_000_000,
        }
    }
    fn fixed_cases(&self, _tier: Tier) -> Vec<Case> {
        let mut out = vec![];
        for k in 0..FULL_SCRIPTS.len() {
            out.push(Case { req: format!("c07 full {}", k), in_domain: true, nontrivial: true, tags: vec!["full-sdk-read-only"] });
        }
        for (name, _, _) in PROBES.iter() {
            out.push(Case { req: format!("c07 child {}", name), in_domain: true, nontrivial: true, tags: vec!["child-probe"] });
        }
        // the recorded shift finding (and its in-range neighbours, which must simply work)
        for sc in ["x = calc shl(1, 70)", "x = calc shr(1, 64)", "calc shl(1, -1)", "x = calc shl(1, 63)", "x = calc shr(-8, 2)", "x = calc shl(1, 0)"] {
            out.push(lib_case(sc, &[], vec!["library-level", "calc-shift"]));
        }
        // regression corpus: the five repaired panics must stay repaired
        let regress = [
            "scope_push_stack --copy nope",
            "scope_push_stack --copy a a",
            "scope_push_stack\nscope_pop_stack --copy nope",
            "fn <scope> f\n    return\nend\nx = f",
            "x = substring abc -1 2",
            "x = substring aé 0 2",
            "x = substring aé 1",
            "x = substring aé -1",
            "x = random_range 1 1",
            "x = random_range 5 1",
            "x = random_range -170141183460469231731687303715884105728 170141183460469231731687303715884105727",
            "x = random_range -1e38 1e38",
            // json_encode (variable mode) with sibling variables that share the object's name as a prefix
            "a = set [OBJECT]\na.k = set 1\nab = set 2\nx = json_encode a",
            "config_path = set ./config.json\nconfig = json_parse \"{\\\"k\\\": {\\\"n\\\": [1, 2]}}\"\nconfig2 = set x\nx = json_encode config",
            "o = json_parse [1,2]\no.lengthy = set 1\nox = set 1\nx = json_encode o",
        ];
        for s in regress {
            out.push(lib_case(s, &[], vec!["regression-fixed-panics"]));
        }
        // state left behind by an earlier run on the same Context (the runner clones the state at
        // the start of every run: values held through Rc are then shared)
        let carry = [
            "scope_push_stack\n#NEXT\nscope_pop_stack",
            "a = set 1\nscope_push_stack --copy a\n#NEXT\nscope_pop_stack --copy a\nscope_pop_stack",
            "fn <scope> f\n    exit\nend\nf\n#NEXT\nscope_pop_stack\nx = set 1",
            "fn <scope> f\n    exit\nend\nf\n#NEXT\nf\n#NEXT\nscope_pop_stack\nscope_pop_stack",
            "h = array a b\nfor i in ${h}\n    exit\nend\n#NEXT\nfor i in ${h}\n    x = set ${i}\nend\nrelease ${h}",
            "h = map\nmap_put ${h} k v\n#NEXT\nx = map_get ${h} k\nrelease -r ${h}\n#NEXT\nx = map_get ${h} k",
            "if true\n    while true\n        exit\n    end\nend\n#NEXT\nend\nelse\nend_while",
            "exit_on_error true\n#NEXT\nx = array_length nope\ny = get_last_error",
            "on_error_probe = set 1\ntrigger_error boom\n#NEXT\nx = get_last_error\ny = get_last_error_line",
        ];
        let nested_blocks = [
            "out = eval if true", "alias check if\ncheck true", "alias loop while\nloop false", "alias each for\nh = array a\neach x in ${h}", "alias def fn\ndef f9",
            "eval end", "eval else", "x = eval return v", "not if true", "not while false", "not fn f9", "eval std::flowcontrol::ForIn x in nohandle",
        ];
        for s in nested_blocks {
            out.push(lib_case(s, &[], vec!["block-command-through-nested-evaluator"]));
        }
        for s in carry {
            out.push(lib_case(&s.replace("#NEXT", NEXT_RUN), &[], vec!["several-runs-on-one-context"]));
        }
        // systematic sweep: every allow-listed non-flow command with a few argument vectors
        let vectors: [&[&str]; 18] = [
            &["255", "65534"], &["255", "70000"], &["7", "-1", "18446744073709551615"],
            &["\"\\n\""], &["\"\\t\""], &["\"\u{3000}\""],
            &[], &["\"\""], &["é漢😀"], &["-1"], &["0", "1", "2"], &["${h0}"], &["${h1}", "${h0}"], &["${h2}", "0", "é"],
            &["${gone}"], &["handle:abc", "x"], &["--copy", "nope", "nope"], &["9223372036854775808", "-9223372036854775809"],
        ];
        let pre = "h0 = array a é\nh1 = map\nh2 = set_new x\ngone = array\nrelease ${gone}\n";
        for (fam, cmd) in allowed_names() {
            if fam == "flowcontrol" || cmd == "alias" || cmd == "join_path" {
                continue;
            }
            for (i, v) in vectors.iter().enumerate() {
                if SIZE_DRIVEN.contains(&cmd) && i >= 9 && i != 11 {
                    continue;
                }
                if cmd == "json_encode" && v.first() == Some(&"--collection") {
                    continue;
                }
                let script = format!("{}o0 = {} {}", pre, cmd, v.join(" "));
                out.push(lib_case(script.trim_end(), &[], vec!["sweep"]));
            }
        }
        out
    }
    fn generate(&self, rng: &mut Rng, _tier: Tier) -> Case {
        if rng.chance(1, 40) {
            // a test file for `test_file`: function definitions of every shape (names, annotation
            // only, annotation + name, no argument, two arguments), bodies from harmless lines
            const HEADS: [&str; 14] = ["fn test_simple", "fn <scope> test_scoped", "fn <scope>", "function <helper>", "fn", "fn test_a b", "fn helper", "function test_long_name_1", "fn <scope> <again>", "fn test_", "fn <>", "fn <scope> helper2", "fn \"\"", "fn ${x}"];
            const BODY: [&str; 9] = ["value = set 1", "assert_eq ${value} 1", "assert true", "assert false", "return", "return ok", "x = not false", "# comment", "test_simple"];
            let mut lines: Vec<String> = vec![];
            for _ in 0..1 + rng.below(4) {
                lines.push(rng.pick_s(&HEADS).to_string());
                for _ in 0..rng.below(3) {
                    lines.push(format!("    {}", rng.pick_s(&BODY)));
                }
                if !rng.chance(1, 10) {
                    lines.push(rng.pick_s(&["end", "end", "end_fn", "end_function"]).to_string());
                }
            }
            let text = lines.join("\n");
            return Case { req: format!("c07 testfile {}", enc_str(&text)), in_domain: true, nontrivial: true, tags: vec!["test-file"] };
        }
        if rng.chance(4, 7) {
            let (s, mut tags) = crate::props::c08::gen_text(rng);
            tags.clear();
            tags.push("parser-level");
            Case { req: format!("c07 text {}", enc_str(&s)), in_domain: true, nontrivial: !s.trim().is_empty(), tags }
        } else {
            let (mut script, mut vars, mut tags) = gen_script(rng);
            tags.push("library-level");
            // one script in four is followed by one or two more runs on the returned Context;
            // the earlier runs often stop half-way (exit) so that stacks stay filled
            if rng.chance(1, 4) {
                for _ in 0..1 + rng.below(2) {
                    if rng.chance(1, 3) {
                        let lines: Vec<&str> = script.lines().collect();
                        let at = rng.below(lines.len() + 1);
                        let mut l: Vec<String> = lines.iter().map(|x| x.to_string()).collect();
                        l.insert(at, "exit".to_string());
                        script = l.join("\n");
                    }
                    let (s2, v2, _) = gen_script(rng);
                    script = format!("{}\n{}\n{}", script, NEXT_RUN, s2);
                    for kv in v2 {
                        if !vars.iter().any(|(k, _)| *k == kv.0) {
                            vars.push(kv);
                        }
                    }
                }
                tags.push("several-runs-on-one-context");
            }
            lib_case(&script, &vars, tags)
        }
    }
    fn run_impl(&self, req: &str, _model: &str) -> String {
        let toks: Vec<&str> = req.split(' ').collect();
        match toks.as_slice() {
            ["c07", "text", t] => match dec_str(t) {
                Some(text) => run_guarded(Job::Text(text)),
                None => "BAD-REQUEST".to_string(),
            },
            ["c07", "lib", s, v] => match dec_str(s) {
                Some(script) => run_guarded(Job::Lib(script, dec_vars(v))),
                None => "BAD-REQUEST".to_string(),
            },
            ["c07", "child", name] => run_probe(name),
            ["c07", "full", k] => run_guarded(Job::Full(k.parse().unwrap_or(0))),
            ["c07", "testfile", t] => match dec_str(t) {
                Some(content) => {
                    // (every HANG leaves its helper thread behind: after a few the stream stops
                    // running, the answer stays a failure)
                    static HANGS: std::sync::atomic::AtomicUsize = std::sync::atomic::AtomicUsize::new(0);
                    if HANGS.load(std::sync::atomic::Ordering::SeqCst) >= 4 {
                        return "HANG (test_file hung four times in this run; not repeated)".to_string();
                    }
                    let r = run_guarded(Job::TestFile(content));
                    if r == "HANG" {
                        HANGS.fetch_add(1, std::sync::atomic::Ordering::SeqCst);
                    }
                    r
                }
                None => "BAD-REQUEST".to_string(),
            },
            _ => "BAD-REQUEST".to_string(),
        }
    }
    fn relation(&self, _req: &str, _model: &str, imp: &str) -> Option<bool> {
        // the property itself: control returned
        Some(imp == "ok")
    }
    fn shrink(&self, req: &str) -> Vec<String> {
        let toks: Vec<&str> = req.split(' ').collect();
        let mut out = vec![];
        match toks.as_slice() {
            ["c07", "text", t] => {
                if let Some(text) = dec_str(t) {
                    let cs: Vec<char> = text.chars().collect();
                    for i in 0..cs.len() {
                        let s: String = cs.iter().enumerate().filter(|(j, _)| *j != i).map(|(_, c)| *c).collect();
                        out.push(format!("c07 text {}", enc_str(&s)));
                    }
                }
            }
            ["c07", "lib", s, v] => {
                if let Some(script) = dec_str(s) {
                    let vars = dec_vars(v);
                    let lines: Vec<&str> = script.split('\n').collect();
                    // drop a line
                    for i in 0..lines.len() {
                        let l: Vec<&str> = lines.iter().enumerate().filter(|(j, _)| *j != i).map(|(_, x)| *x).collect();
                        out.push(format!("c07 lib {} {}", enc_str(&l.join("\n")), enc_vars(&vars)));
                    }
                    // drop the last token of a line (only unquoted tails: the line stays well formed)
                    for i in 0..lines.len() {
                        if let Some(p) = lines[i].rfind(' ') {
                            let tail = &lines[i][p + 1..];
                            if !tail.contains('"') && !lines[i][..p].ends_with('=') && lines[i][..p].matches('"').count() % 2 == 0 {
                                let mut l: Vec<String> = lines.iter().map(|x| x.to_string()).collect();
                                l[i] = lines[i][..p].to_string();
                                out.push(format!("c07 lib {} {}", enc_str(&l.join("\n")), enc_vars(&vars)));
                            }
                        }
                    }
                    // drop an unused preset, shorten a preset value
                    for i in 0..vars.len() {
                        let name = format!("${{{}}}", vars[i].0);
                        if !script.contains(&name) {
                            let mut w = vars.clone();
                            w.remove(i);
                            out.push(format!("c07 lib {} {}", s, enc_vars(&w)));
                        }
                        let cs: Vec<char> = vars[i].1.chars().collect();
                        if !cs.is_empty() {
                            for cut in [cs.len() / 2, cs.len() - 1] {
                                let mut w = vars.clone();
                                w[i].1 = cs[..cut].iter().collect();
                                out.push(format!("c07 lib {} {}", s, enc_vars(&w)));
                            }
                        }
                    }
                }
            }
            _ => {}
        }
        out
    }
    fn known(&self, req: &str, _model: &str, imp: &str) -> Option<String> {
        let toks: Vec<&str> = req.split(' ').collect();
        if let ["c07", "lib", sc, _] = toks.as_slice() {
            // `calc shl(a, n)` / `shr(a, n)` with n outside 0..=63: the evalexpr crate shifts without a
            // range check, which panics in builds with overflow checks (this harness has them on)
            if imp == "PANIC" {
                if let Some(script) = dec_str(sc) {
                    let t = script.trim();
                    let one_line = !t.contains('\n');
                    let expr = t.splitn(2, "calc ").nth(1).unwrap_or("");
                    let head_ok = t.starts_with("calc ") || (t.contains(" = calc ") && !t[..t.find(" = calc ").unwrap()].contains(' '));
                    let amount_bad = ["shl(", "shr("].iter().any(|f| expr.find(f).map(|i| {
                        let inner = &expr[i + 4..];
                        match (inner.find(','), inner.find(')')) {
                            (Some(c), Some(e)) if c < e => inner[c + 1..e].trim().parse::<i64>().map(|n| !(0..=63).contains(&n)).unwrap_or(false),
                            _ => false,
                        }
                    }).unwrap_or(false));
                    if one_line && head_ok && amount_bad {
                        return Some("C07/calc-shift-overflow-in-checked-builds".to_string());
                    }
                }
            }
        }
        if let ["c07", "child", name] = toks.as_slice() {
            // the recorded classes, each with the observation it is recorded with
            let expect = match *name {
                "include-cycle" | "json-encode-cyclic" | "alias-self-recursion" | "fn-recursion-in-condition" => "ABORT",
                "range-huge" | "random-text-huge" => "ABORT",
                "deep-release-chain" | "deep-json-encode-chain" | "deep-calc-parens" => "ABORT",
                "range-huge-overflow" | "random-text-huge-overflow" => "PANIC",
                "join-path-hang" | "nested-loop-ignores-halt" | "json-encode-length-huge" => "HANG",
                _ => return None,
            };
            if imp == expect {
                let id = match *name {
                    "range-huge-overflow" => "range-huge",
                    "random-text-huge-overflow" => "random-text-huge",
                    "deep-release-chain" | "deep-json-encode-chain" | "deep-calc-parens" => "deep-nesting-stack-overflow",
                    n => n,
                };
                return Some(format!("C07/{}", id));
            }
        }
        None
    }
    fn outcome_kind(&self, imp: &str) -> String {
        imp.to_string()
    }
    fn describe(&self, req: &str) -> String {
        let toks: Vec<&str> = req.split(' ').collect();
        match toks.as_slice() {
            ["c07", "text", t] => format!("text {:?} (empty registry)", dec_str(t).unwrap_or_default()),
            ["c07", "lib", s, v] => {
                let vars = dec_vars(v);
                let vs: Vec<String> = vars.iter().map(|(k, x)| format!("{}={:?}", k, x)).collect();
                format!("script {:?} with variables [{}]", dec_str(s).unwrap_or_default(), vs.join(", "))
            }
            ["c07", "child", name] => {
                let script = PROBES.iter().find(|p| p.0 == *name).map(|p| p.2).unwrap_or("?"); // unexpanded form
                format!("child-process probe {}: {:?}", name, script)
            }
            _ => req.to_string(),
        }
    }
}
