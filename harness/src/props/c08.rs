//! C08: parsing is total, one instruction per line, malformed lines rejected in place.
use crate::pools;
use crate::rng::Rng;
use crate::wire::*;
use crate::{Case, Prop, Tier};

pub struct C08Prop;
pub static C08: C08Prop = C08Prop;

const GOOD_LINES: [&str; 14] = [
    "", "   ", "# comment", "cmd", "cmd a b", "x = cmd a", "x=cmd \"a b\" c", ":lbl",
    ":lbl x = cmd \"q\\\"r\" # c", "!print hello", "out = set \"\"", "cmd \"\\n\\t\\r\\\\\"",
    "a = b c=d", "\tcmd  x\u{a0}",
];
const BAD_LINES: [&str; 10] = [
    "cmd \"abc", "cmd a\\qb", "\"cmd\" a", "c\\md a", "!", "!unknown a", "x = \"cmd\"", ":\"l\"",
    "cmd \"a\\", "cmd \\$x",
];

/// the lexical pieces an argument is made of (escape sequences, variable references, plain
/// characters): sequences of them exercise the parser's escape state across one argument
// (the last three: a backslash before a non-ASCII character whose LOW BYTE is that of `n`, `\` or `"`)
pub const PIECES: [&str; 19] = ["\\${", "\\$", "\\\"", "\\\\", "\\n", "\\t", "\\r", "${", "%{", "}", "a", "\"", " ", "#", "$", "\\", "\\\u{16e}", "\\\u{15c}", "\\\u{122}"];

pub fn gen_text(rng: &mut Rng) -> (String, Vec<&'static str>) {
    let mode = rng.below(6);
    let mut tags = vec![];
    let mut s = String::new();
    match mode {
        0 => {
            tags.push("random-text");
            s = pools::text(rng, 40);
        }
        1 | 2 => {
            tags.push(if mode == 1 { "good-lines" } else { "one-bad-line" });
            let n = 1 + rng.below(8);
            let bad_at = if mode == 2 { rng.below(n) } else { usize::MAX };
            for i in 0..n {
                if i == bad_at {
                    s.push_str(*rng.pick(&BAD_LINES));
                } else {
                    s.push_str(*rng.pick(&GOOD_LINES));
                }
                if i + 1 < n || rng.chance(1, 2) {
                    s.push_str(if rng.chance(1, 3) { "\r\n" } else { "\n" });
                }
            }
        }
        5 => {
            tags.push("escape-mix");
            // 1-3 lines `[x = ]cmd <arg>*`, every argument a sequence of lexical pieces, bare or quoted
            for _ in 0..(1 + rng.below(3)) {
                if rng.chance(1, 4) {
                    s.push_str("x = ");
                }
                s.push_str("cmd");
                for _ in 0..(1 + rng.below(3)) {
                    s.push(' ');
                    let quoted = rng.chance(1, 3);
                    if quoted {
                        s.push('"');
                    }
                    for _ in 0..(1 + rng.below(5)) {
                        s.push_str(*rng.pick(&PIECES));
                    }
                    if quoted && rng.chance(5, 6) {
                        s.push('"');
                    }
                }
                s.push('\n');
            }
        }
        3 => {
            tags.push("syntax-mix");
            let n = rng.below(30);
            for _ in 0..n {
                s.push(*rng.pick(&pools::SYNTAX));
            }
        }
        _ => {
            tags.push("mutated-line");
            let base = if rng.chance(1, 2) { *rng.pick(&GOOD_LINES) } else { *rng.pick(&BAD_LINES) };
            let mut cs: Vec<char> = base.chars().collect();
            for _ in 0..(1 + rng.below(3)) {
                let pos = rng.below(cs.len() + 1);
                let c = *rng.pick(&pools::SYNTAX);
                if rng.chance(1, 2) || cs.is_empty() {
                    cs.insert(pos, c);
                } else {
                    let p = pos.min(cs.len() - 1);
                    cs[p] = c;
                }
            }
            s = cs.into_iter().collect();
        }
    }
    (s, tags)
}

/// `parse_file` on a path that a moment ago held a DIFFERENT text of the same byte length (parsed
/// once, so anything remembered per path / size / time stamp is stale); every instruction (or
/// the error) must carry the path as its source, which is then stripped so that the answer is
/// comparable with `parse_text`'s
fn run_file_route(text: &str) -> String {
    use std::sync::atomic::{AtomicUsize, Ordering};
    static N: AtomicUsize = AtomicUsize::new(0);
    thread_local! { static ID: usize = N.fetch_add(1, Ordering::SeqCst); }
    let path = std::env::temp_dir().join(format!("duck-c08-{}-{}.ds", std::process::id(), ID.with(|i| *i)));
    let p = path.to_string_lossy().to_string();
    // decoy: same length, every ASCII letter / digit replaced by its neighbour
    let decoy: String = text.chars().map(|c| match c { 'a'..='y' | 'A'..='Y' | '0'..='8' => ((c as u8) + 1) as char, 'z' => 'a', 'Z' => 'A', '9' => '0', _ => c }).collect();
    if decoy != text {
        let _ = std::fs::write(&path, &decoy);
        let _ = duckscript::parser::parse_file(&p);
    }
    if std::fs::write(&path, text).is_err() {
        return "TEMP-FILE-ERROR".to_string();
    }
    let r = duckscript::parser::parse_file(&p);
    let _ = std::fs::remove_file(&path);
    let line = enc_parse(&r);
    let tag = format!(":{}", enc_str(&p));
    let expected = match &r { Ok(is) => is.len(), Err(_) => 1 };
    if line.matches(&tag).count() != expected {
        return format!("SOURCE-TAG-WRONG {}", line.replace(&tag, ":<path>"));
    }
    line.replace(&tag, ":-")
}

impl Prop for C08Prop {
    fn id(&self) -> &'static str {
        "C08"
    }
    fn rule(&self) -> &'static str {
        "texts: random Unicode / syntax-character mixes / scripts of well-formed lines with one malformed line planted at a random position / mutated lines; LF and CRLF; one text in four (and every fixed text) is also run through the index-faithful parser model (op iparse: no panic there, equal to the suffix model, no panic in the real code). Every text is inside the property's domain (the property is about all texts). Non-trivial = the text has at least one non-blank line; distinct = distinct text."
    }
    fn budget(&self, tier: Tier) -> usize {
        match tier {
            Tier::Quick => 40_000,
            Tier::Thorough => 3_000_000,
        }
    }
    fn fixed_cases(&self, tier: Tier) -> Vec<Case> {
        // all texts of length <= k over a 9-symbol alphabet
        let alpha = ['a', ' ', '"', '\\', '#', '=', ':', '!', '\n', '$', '{'];
        let k = if tier == Tier::Quick { 4 } else { 5 };
        let mut out = vec![];
        // file route: a byte-order mark and blank lines at the start; files longer than the usual
        // read-block sizes with a multi-byte character across offsets 4096 / 8192 / 16384 / 65536
        for t in ["\u{feff}\n\n   \nvalue = set 1\n", "\u{feff}x", "\n\n\u{feff}", "\u{feff}", "\u{feff}echo \"abc\n"] {
            out.push(Case { req: format!("fparse {}", enc_str(t)), in_domain: true, nontrivial: true, tags: vec!["file-route", "bom"] });
            out.push(Case { req: format!("parse {}", enc_str(t)), in_domain: true, nontrivial: true, tags: vec!["bom"] });
        }
        for block in [4096usize, 8192, 16384, 65536] {
            for (ch, w) in [("é", 2usize), ("€", 3), ("😀", 4)] {
                for shift in 1..w {
                    // `c <pad>` then the character repeated: one occurrence straddles `block`
                    let head = "c ";
                    let pad = (block - shift - head.len()) % w;
                    let n = (block - shift - head.len() - pad) / w;
                    let t = format!("{}{}{}\nd {}\n", head, "x".repeat(pad), ch.repeat(n + 3), ch);
                    out.push(Case { req: format!("fparse {}", enc_str(&t)), in_domain: true, nontrivial: true, tags: vec!["file-route", "block-boundary"] });
                }
            }
        }
        let mut cur: Vec<Vec<char>> = vec![vec![]];
        for _ in 0..=k {
            let mut next = vec![];
            for t in &cur {
                let s: String = t.iter().collect();
                out.push(Case { req: format!("parse {}", enc_str(&s)), in_domain: true, nontrivial: !s.trim().is_empty(), tags: vec!["exhaustive-small"] });
                // index-faithful model (ParserIndexed.lean) on the same text
                out.push(Case { req: format!("iparse {}", enc_str(&s)), in_domain: true, nontrivial: !s.trim().is_empty(), tags: vec!["exhaustive-small", "indexed"] });
                if t.len() < k {
                    for c in alpha {
                        let mut n = t.clone();
                        n.push(c);
                        next.push(n);
                    }
                }
            }
            cur = next;
        }
        // every argument made of <= 3 lexical pieces, bare and quoted (escape state carried from
        // one escape sequence to the next inside one argument)
        let mut seqs: Vec<String> = vec![String::new()];
        let mut all: Vec<String> = vec![];
        for _ in 0..3 {
            let mut next = vec![];
            for t in &seqs {
                for p in PIECES {
                    let n = format!("{}{}", t, p);
                    all.push(n.clone());
                    next.push(n);
                }
            }
            seqs = next;
        }
        for a in &all {
            for l in [format!("cmd {}", a), format!("cmd \"{}\"", a)] {
                out.push(Case { req: format!("parse {}", enc_str(&l)), in_domain: true, nontrivial: true, tags: vec!["exhaustive-pieces"] });
            }
        }
        // very long lines (the Lean model is not built for megabyte inputs: these five are judged
        // by construction, request `parsehuge <k>`, see `run_huge`)
        for k in 0..8 {
            out.push(Case { req: format!("parsehuge {}", k), in_domain: true, nontrivial: true, tags: vec!["huge-line"] });
        }
        for l in GOOD_LINES.iter().chain(BAD_LINES.iter()) {
            out.push(Case { req: format!("parse {}", enc_str(l)), in_domain: true, nontrivial: true, tags: vec!["seed-line"] });
            out.push(Case { req: format!("iparse {}", enc_str(l)), in_domain: true, nontrivial: true, tags: vec!["seed-line", "indexed"] });
        }
        // line ends that stress the hand-moved index: trailing spaces, `#`, `=`, `:`, `!`, `"`, `\` last
        for l in ["cmd a  ", "cmd #", "cmd a#", "x =", "x=", "x = ", ":", ": ", ":a", "!", "! ", "!a ", "a \"", "a \\", "a \"\\", " = ", "=", "a= b", "a =b #"] {
            out.push(Case { req: format!("iparse {}", enc_str(l)), in_domain: true, nontrivial: true, tags: vec!["line-end", "indexed"] });
        }
        out
    }
    fn generate(&self, rng: &mut Rng, _tier: Tier) -> Case {
        let (s, mut tags) = gen_text(rng);
        // one text in four goes to the index-faithful model (op `iparse`, expected answer `same`)
        let op = if rng.chance(1, 4) {
            tags.push("indexed");
            "iparse"
        } else if !s.contains('!') && rng.chance(1, 6) {
            // the same text through `parse_file` (written to a path that held another text of the
            // same length a moment ago)
            tags.push("file-route");
            "fparse"
        } else {
            "parse"
        };
        Case { req: format!("{} {}", op, enc_str(&s)), in_domain: true, nontrivial: !s.trim().is_empty(), tags }
    }
    fn run_impl(&self, req: &str, _model: &str) -> String {
        let toks: Vec<&str> = req.split(' ').collect();
        if toks[0] == "parsehuge" {
            return run_huge(toks[1].parse().unwrap());
        }
        let text = dec_str(toks[1]).unwrap();
        if toks[0] == "fparse" {
            return run_file_route(&text);
        }
        if toks[0] == "iparse" {
            // the real index arithmetic on the same text; a panic unwinds to the framework's
            // catch_unwind and is reported as PANIC
            let _ = duckscript::parser::parse_text(&text);
            return "same".to_string();
        }
        enc_parse(&duckscript::parser::parse_text(&text))
    }
    fn relation(&self, req: &str, _model: &str, imp: &str) -> Option<bool> {
        // model-independent part of C08: no panic; without directives one instruction per
        // line, numbered 1..n
        if imp == "PANIC" {
            return Some(false);
        }
        let toks: Vec<&str> = req.split(' ').collect();
        if toks[0] == "parsehuge" {
            return Some(imp == "huge-ok");
        }
        let text = dec_str(toks[1]).unwrap();
        if imp.starts_with("OK ") {
            let has_directive = text.lines().any(|l| l.trim().starts_with('!'));
            if has_directive {
                return Some(true);
            }
            let parts: Vec<&str> = imp.splitn(3, ' ').collect();
            let n: usize = parts[1].parse().unwrap();
            if n != text.lines().count() {
                return Some(false);
            }
            if n > 0 {
                for (k, ins) in parts[2].split(';').enumerate() {
                    let f: Vec<&str> = ins.split(':').collect();
                    if f[1] != (k + 1).to_string() {
                        return Some(false);
                    }
                }
            }
        }
        Some(true)
    }
    fn shrink(&self, req: &str) -> Vec<String> {
        let toks: Vec<&str> = req.split(' ').collect();
        if toks[0] == "parsehuge" {
            return vec![];
        }
        let text = dec_str(toks[1]).unwrap();
        let cs: Vec<char> = text.chars().collect();
        let mut out = vec![];
        // drop whole lines, then single characters
        let lines: Vec<&str> = text.split('\n').collect();
        if lines.len() > 1 {
            for i in 0..lines.len() {
                let mut l = lines.clone();
                l.remove(i);
                out.push(format!("{} {}", toks[0], enc_str(&l.join("\n"))));
            }
        }
        for i in 0..cs.len() {
            let mut c = cs.clone();
            c.remove(i);
            out.push(format!("{} {}", toks[0], enc_str(&c.into_iter().collect::<String>())));
        }
        out
    }
    fn describe(&self, req: &str) -> String {
        let toks: Vec<&str> = req.split(' ').collect();
        if toks[0] == "parsehuge" {
            return format!("very long input number {} (200 000 arguments / > 2^20 characters, see run_huge in harness/src/props/c08.rs)", toks[1]);
        }
        format!("parse_text({:?}){}", dec_str(toks[1]).unwrap_or_default(), if toks[0] == "iparse" { " vs index-faithful model" } else { "" })
    }
}

/// Five very long inputs whose correct parse is known by construction: 200 000 one-character
/// arguments on one line (recursion depth / allocation per argument), the same followed by an
/// unterminated quote, a line of more than 2^20 characters whose LAST token is malformed (the
/// whole line must be scanned: unterminated quote / undocumented escape), and a well-formed
/// quoted argument of that size.  Answer `huge-ok` or a description of what came out instead.
fn run_huge(k: usize) -> String {
    use duckscript::types::error::ScriptError;
    use duckscript::types::instruction::InstructionType;
    let many: String = (0..200_000).map(|i| if i % 2 == 0 { 'a' } else { ' ' }).collect();
    let long_word = "abcdefghij ".repeat(96_000);
    let text = match k {
        0 => format!("echo first\nout = echo {}\necho last\n", many),
        1 => format!("echo first\nout = echo {} \"unterminated\necho last\n", many),
        2 => format!("echo first\nout = echo {}\"unterminated\necho last\n", long_word),
        3 => format!("echo first\n\nout = echo {}a\\qb\n", long_word),
        4 => format!("out = echo \"{}\"\n", long_word),
        // very many LINES (5 = 5 000, 6 = 70 001, 7 = 4 096 exactly): one instruction per line,
        // numbered 1..n, whatever block size an implementation may split the text into
        _ => (0..[5_000usize, 70_001, 4_096][k - 5]).map(|i| if i % 7 == 3 { String::new() } else { format!("v{} = set {}", i % 13, i) }).collect::<Vec<_>>().join("\n"),
    };
    let r = duckscript::parser::parse_text(&text);
    let line_of = |m: &duckscript::types::instruction::InstructionMetaInfo| m.line.unwrap_or(0);
    let ok = match (k, &r) {
        (0, Ok(is)) => {
            is.len() == 3
                && is.iter().enumerate().all(|(i, ins)| ins.meta_info.line == Some(i + 1))
                && match &is[1].instruction_type {
                    InstructionType::Script(s) => s.output.as_deref() == Some("out") && s.command.as_deref() == Some("echo") && s.arguments.as_ref().map_or(false, |a| a.len() == 100_000 && a.iter().all(|x| x == "a")),
                    _ => false,
                }
        }
        (1, Err(ScriptError::MissingEndQuotes(m))) | (2, Err(ScriptError::MissingEndQuotes(m))) => line_of(m) == 2,
        (3, Err(ScriptError::ControlWithoutValidValue(m))) => line_of(m) == 3,
        (5..=7, Ok(is)) => {
            let n = [5_000usize, 70_001, 4_096][k - 5];
            is.len() == n
                && is.iter().enumerate().all(|(i, ins)| {
                    ins.meta_info.line == Some(i + 1)
                        && match &ins.instruction_type {
                            InstructionType::Empty => i % 7 == 3,
                            InstructionType::Script(s) => i % 7 != 3 && s.arguments.as_ref().map_or(false, |a| a.len() == 1 && a[0] == i.to_string()),
                            _ => false,
                        }
                })
        }
        (4, Ok(is)) => {
            is.len() == 1
                && match &is[0].instruction_type {
                    InstructionType::Script(s) => s.arguments.as_ref().map_or(false, |a| a.len() == 1 && a[0] == long_word),
                    _ => false,
                }
        }
        _ => false,
    };
    if ok {
        "huge-ok".to_string()
    } else {
        let what = match &r {
            Ok(is) => format!("Ok-with-{}-instructions", is.len()),
            Err(e) => format!("{:?}", e).chars().take(60).collect::<String>().replace(' ', "_"),
        };
        format!("huge-BAD-{}-{}", k, what)
    }
}
