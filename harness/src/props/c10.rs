//! C10: command errors are reported, positioned and survivable (or fatal when asked).
//!
//! Two streams of cases:
//!  * stream A, op `err`: programs over the scripted commands c0..c3 (results chosen by the
//!    generator), the harness command `probe` and the REAL on_error family of the SDK
//!    (on_error, exit_on_error, get_last_error*, set_error, trigger_error, assert_error).
//!    Compared with the Lean model (`Drv/C10.lean`, `withOnError`) AND judged by `relation`.
//!  * stream B, op `errb`: programs that additionally use the real `fn` / `if` / `for` / `while`
//!    of the SDK around the failing commands and real failing SDK commands.  The Lean model
//!    has no such commands: the model answers `REL` and the case is judged by `relation` only
//!    (`run_impl` prints `REL` when the relation holds, the observation otherwise).
//!
//! `probe <tag> …` is a harness command that logs its bound arguments (into the same log as the
//! scripted commands) and continues.  Tags:
//!   S  ${e} ${l} ${s}        the three queries taken right after a scripted command line
//!   So ${e} ${l} ${s} ${x}   the same plus the output variable of that line
//!   M  <msg> ${e} ${l} ${s}  right after a real command known to report <msg>
//!   A  ${e} ${l} ${s}        right after a real failing command whose message is not predicted
//!   F  <value>               the next line is `exit_on_error <value>`
//!   N  …                     no expectation (model comparison only)
use crate::pools;
use crate::rng::Rng;
use crate::scripted::*;
use crate::sdkenv::{guarded_halt, quiet_env, run_one, sdk_context};
use crate::wire::*;
use crate::{Case, Prop, Tier};
use duckscript::types::command::{Command, CommandInvocationContext, CommandResult};
use duckscript::types::error::ScriptError;
use std::cell::RefCell;
use std::collections::VecDeque;
use std::path::PathBuf;
use std::rc::Rc;
use std::sync::atomic::AtomicBool;
use std::sync::Arc;

pub struct C10Prop;
pub static C10: C10Prop = C10Prop;

const CMDS: [&str; 4] = ["c0", "c1", "c2", "c3"];
const LABELS: [&str; 3] = [":a", ":b", ":dup"];
const GETTERS: [&str; 3] = ["e = get_last_error", "l = get_last_error_line", "s = get_last_error_source"];
/// real SDK invocations that report an error (array_is_empty, base64, array_join are script-implemented commands)
const REAL_FAIL: [&str; 20] = [
    // script-implemented commands whose FAILING inner instruction comes after instructions that produced values
    // (not array_concat: called twice in one run it runs into the recorded finding C12-array-concat-after-error)
    "x = map_contains_value nothandle v", "x = map_contains_key nothandle k", "x = map_is_empty nothandle",
    "x = set_is_empty nothandle", "x = set_from_array nothandle", "map_contains_value nothandle v",
    "x = sha256sum /no/such/file/verif", "x = array_join nothandle",
    "array_push nothandle 1", "substring abc 9", "array_pop nothandle", "x = calc 1 +", "map_put nomap k v", "x = array_is_empty nothandle", "x = substring abc 9", "read_properties", "x = set_contains nothandle v", "x = base64", "x = array_join nothandle ,", "array_is_empty nothandle"];
// (a backslash and a blank are legal in a unix file name: the reported source is this very text)
const MAIN: &str = "ma\\in job.ds";
const INC: &str = "inc.ds";

#[derive(Clone)]
struct Probe {
    shared: Rc<RefCell<Shared>>,
}
impl Command for Probe {
    fn name(&self) -> String {
        "probe".to_string()
    }
    fn clone_and_box(&self) -> Box<dyn Command> {
        Box::new(self.clone())
    }
    fn run(&self, ctx: CommandInvocationContext) -> CommandResult {
        let mut sh = self.shared.borrow_mut();
        if sh.log.len() > 5000 {
            // runaway loop (only reachable through a shrink candidate): stop the script
            return CommandResult::Exit(None);
        }
        sh.log.push(("probe".to_string(), ctx.arguments.clone(), ctx.line));
        CommandResult::Continue(None)
    }
}

thread_local! {
    /// canonical per-thread scratch directory (with trailing separator)
    static DIR: PathBuf = {
        let d = std::env::temp_dir().join(format!("verif-c10-{}-{:?}", std::process::id(), std::thread::current().id()).replace(['(', ')'], ""));
        std::fs::create_dir_all(&d).expect("scratch dir");
        d.canonicalize().expect("canonical scratch dir")
    };
}

fn dir_prefix() -> String {
    DIR.with(|d| format!("{}/", d.to_string_lossy()))
}

// ---------------------------------------------------------------- requests

struct Req {
    op: String,
    text: String,
    queue: Vec<String>,
    vars: Vec<(String, String)>,
    fuel: usize,
    src: Option<String>,
    inc: Option<(String, String)>,
}

fn mk_req(op: &str, text: &str, queue: &[String], vars: &[(String, String)], fuel: usize, src: &Option<String>, inc: &Option<(String, String)>) -> String {
    let vs = if vars.is_empty() { "-".to_string() } else { vars.iter().map(|(k, v)| format!("{}={}", enc_str(k), enc_str(v))).collect::<Vec<_>>().join(",") };
    format!(
        "{} {} {} {} {} {} {}",
        op,
        enc_str(text),
        if queue.is_empty() { "-".to_string() } else { queue.join(",") },
        vs,
        fuel,
        enc_opt(src),
        match inc { Some((n, t)) => format!("{}={}", enc_str(n), enc_str(t)), None => "-".to_string() }
    )
}

fn parse_req(req: &str) -> Req {
    let t: Vec<&str> = req.split(' ').collect();
    Req {
        op: t[0].to_string(),
        text: dec_str(t[1]).unwrap(),
        queue: if t[2] == "-" { vec![] } else { t[2].split(',').map(|s| s.to_string()).collect() },
        vars: dec_vars(t[3]),
        fuel: t[4].parse().unwrap(),
        src: dec_opt(t[5]).unwrap(),
        inc: if t[6] == "-" { None } else { let p: Vec<&str> = t[6].split('=').collect(); Some((dec_str(p[0]).unwrap(), dec_str(p[1]).unwrap())) },
    }
}

// ---------------------------------------------------------------- running the real code

#[derive(Debug, Clone, PartialEq)]
enum End {
    Ok { vars: Vec<(String, String)>, rec: (Option<String>, Option<String>, Option<String>, String) },
    Fail { msg: String, line: Option<usize>, source: Option<String> },
    Other(String),
}

struct Obs {
    end: End,
    log: Vec<(String, Vec<String>, usize)>,
}

fn run_real(r: &Req) -> Obs {
    let prefix = dir_prefix();
    let strip = |s: &str| s.replace(&prefix, "");
    let q: VecDeque<CommandResult> = r.queue.iter().map(|t| dec_result(t).unwrap()).collect();
    let halt = Arc::new(AtomicBool::new(false));
    let shared = Rc::new(RefCell::new(Shared { queue: q, log: vec![], invocations: 0, halt_at: None, halt: Some(halt.clone()), replace_flag: false }));
    let mut context = sdk_context();
    for n in CMDS.iter() {
        context.commands.set(Box::new(Scripted { name: n.to_string(), shared: shared.clone() })).unwrap();
    }
    context.commands.set(Box::new(Probe { shared: shared.clone() })).unwrap();
    for (k, v) in &r.vars {
        context.variables.insert(k.clone(), v.clone());
    }
    let watchdog = guarded_halt(3000);
    let env = quiet_env(Some(watchdog.clone()));
    let res = match &r.src {
        Some(name) => {
            let main = format!("{}{}", prefix, name);
            std::fs::write(&main, &r.text).expect("write main");
            if let Some((n, t)) = &r.inc {
                std::fs::write(format!("{}{}", prefix, n), t).expect("write include");
            }
            duckscript::runner::run_script_file(&main, context, Some(env))
        }
        None => duckscript::runner::run_script(&r.text, context, Some(env)),
    };
    let log = shared.borrow().log.iter().map(|(n, a, l)| (n.clone(), a.iter().map(|x| strip(x)).collect(), *l)).collect();
    if watchdog.load(std::sync::atomic::Ordering::SeqCst) {
        return Obs { end: End::Other("timeout".to_string()), log };
    }
    let end = match res {
        Ok(mut ctx) => {
            let mut vars: Vec<(String, String)> = ctx.variables.iter().map(|(k, v)| (k.clone(), strip(v))).collect();
            vars.sort();
            let get = |ctx: &mut duckscript::types::runtime::Context, c: &str| match run_one(ctx, c, vec![], None).0 {
                CommandResult::Continue(v) => v,
                _ => Some("<unexpected result>".to_string()),
            };
            let e = get(&mut ctx, "get_last_error").map(|v| strip(&v));
            let l = get(&mut ctx, "get_last_error_line").map(|v| strip(&v));
            let s = get(&mut ctx, "get_last_error_source").map(|v| strip(&v));
            let f = get(&mut ctx, "exit_on_error").unwrap_or_default();
            End::Ok { vars, rec: (e, l, s, f) }
        }
        Err(ScriptError::Runtime(msg, meta)) => {
            // what an embedder PRINTS: `Source: <file|Unknown> Line: <n|Unknown> - <message>`, whatever the
            // message looks like (a message may itself be a formatted error of a nested evaluation)
            let shown = ScriptError::Runtime(msg.clone(), meta.clone()).to_string();
            let m = meta.unwrap_or_default();
            let want = format!("Source: {} Line: {} - {}", m.source.clone().unwrap_or("Unknown".to_string()), m.line.map(|l| l.to_string()).unwrap_or("Unknown".to_string()), msg);
            if shown != want {
                return Obs { end: End::Other(format!("printed-error-differs:{}", enc_str(&shown))), log };
            }
            End::Fail { msg: strip(&msg), line: m.line, source: m.source.map(|s| strip(&s)) }
        }
        Err(e) => End::Other(format!("PARSEERR {}", enc_script_error(&e))),
    };
    Obs { end, log }
}

fn enc_log(log: &[(String, Vec<String>, usize)]) -> String {
    log.iter().map(|(n, a, l)| format!("{}@{}{}", enc_str(n), l, enc_list(a))).collect::<Vec<_>>().join(";")
}

fn enc_obs(o: &Obs) -> String {
    let logs = format!(" | LOG {}", enc_log(&o.log));
    match &o.end {
        End::Ok { vars, rec } => {
            let mut items: Vec<String> = vars.iter().map(|(k, v)| format!("{}={}", enc_str(k), enc_str(v))).collect();
            items.sort();
            let vs = if items.is_empty() { "-".to_string() } else { items.join(",") };
            format!("ok | VARS {} | REC {}/{}/{}/{}{}", vs, enc_opt(&rec.0), enc_opt(&rec.1), enc_opt(&rec.2), rec.3, logs)
        }
        End::Fail { msg, line, source } => format!("fail {} {}:{}{}", enc_str(msg), enc_opt_num(line), enc_opt(source), logs),
        End::Other(s) => s.clone(),
    }
}

fn dec_obs(imp: &str) -> Option<Obs> {
    let parts: Vec<&str> = imp.split(" | ").collect();
    let log_part = parts.iter().find(|p| p.starts_with("LOG"))?;
    let lt = log_part[3..].trim();
    let mut log = vec![];
    if !lt.is_empty() {
        for e in lt.split(';') {
            let at = e.find('@')?;
            let br = e.find('[')?;
            log.push((dec_str(&e[..at])?, dec_list(&e[br..])?, e[at + 1..br].parse().ok()?));
        }
    }
    let head: Vec<&str> = parts[0].split(' ').collect();
    let end = match head[0] {
        "ok" => {
            let vs = parts.iter().find(|p| p.starts_with("VARS "))?;
            let rc = parts.iter().find(|p| p.starts_with("REC "))?;
            let f: Vec<&str> = rc[4..].split('/').collect();
            End::Ok { vars: dec_vars(&vs[5..]), rec: (dec_opt(f[0])?, dec_opt(f[1])?, dec_opt(f[2])?, f[3].to_string()) }
        }
        "fail" => {
            let m: Vec<&str> = head[2].split(':').collect();
            End::Fail { msg: dec_str(head[1])?, line: m[0].parse().ok(), source: dec_opt(m[1])? }
        }
        _ => End::Other(parts[0].to_string()),
    };
    Some(Obs { end, log })
}

// ---------------------------------------------------------------- the relation (independent of the model)

fn is_true(v: &str) -> bool {
    let l = v.to_lowercase();
    !(l.is_empty() || l == "0" || l == "false" || l == "no")
}

/// instruction index ↦ (text of the line, 1-based line number, source) — one instruction per
/// line; the instructions of an included file follow their `!include_files` line
fn layout(r: &Req) -> Vec<(String, usize, Option<String>)> {
    let mut out = vec![];
    for (k, line) in r.text.lines().enumerate() {
        out.push((line.to_string(), k + 1, r.src.clone()));
        let t = line.trim();
        if let (Some(rest), Some((n, inc_text))) = (t.strip_prefix("!include_files "), &r.inc) {
            if r.src.is_some() && rest.trim() == n {
                for (j, il) in inc_text.lines().enumerate() {
                    out.push((il.to_string(), j + 1, Some(n.clone())));
                }
            }
        }
    }
    out
}

fn is_group(lay: &[(String, usize, Option<String>)], at: usize, tags: &[&str]) -> bool {
    if at + 4 >= lay.len() {
        return false;
    }
    for k in 0..3 {
        if lay[at + 1 + k].0.trim() != GETTERS[k] {
            return false;
        }
        if lay[at + 1 + k].2 != lay[at].2 {
            return false;
        }
    }
    let p = lay[at + 4].0.trim();
    tags.iter().any(|t| p.starts_with(&format!("probe {} ", t)))
}

/// every `exit_on_error <value>` line is announced by a `probe F <value>` line right before it
fn announcements_ok(lay: &[(String, usize, Option<String>)]) -> bool {
    for (i, (text, _, _)) in lay.iter().enumerate() {
        let t = text.trim();
        let t = match t.find(" = ") { Some(p) if !t[..p].contains(' ') => t[p + 3..].trim(), _ => t };
        let rest = match t.strip_prefix("set_exit_on_error").or_else(|| t.strip_prefix("exit_on_error")) { Some(r) => r, None => continue };
        if rest.trim().is_empty() {
            continue;
        }
        if !rest.starts_with(' ') {
            return false;
        }
        let prev = if i > 0 { lay[i - 1].0.trim() } else { "" };
        if prev.strip_prefix("probe F").map(|p| p.trim()) != Some(rest.trim()) {
            return false;
        }
    }
    true
}

fn check(r: &Req, o: &Obs) -> Result<(), String> {
    let lay = layout(r);
    // the mode can only be tracked from the log when no scripted result jumps to a line
    // number (which could skip an announcement) and all switches are announced
    let has_gn = r.queue.iter().any(|q| q.starts_with("GN")) || !announcements_ok(&lay);
    let pos = |idx: usize| -> (String, String, Option<usize>, Option<String>) {
        match lay.get(idx) {
            Some((_, n, s)) => (n.to_string(), s.clone().unwrap_or_default(), Some(*n), s.clone()),
            None => ("?".to_string(), "?".to_string(), None, None),
        }
    };
    let mut fatal = false;
    let mut k = 0usize;
    let n = o.log.len();
    for idx in 0..n {
        let (name, args, line) = &o.log[idx];
        if CMDS.contains(&name.as_str()) {
            let res = r.queue.get(k).cloned();
            k += 1;
            let res = match res { Some(x) => x, None => continue };
            let (lt, st, ln, so) = pos(*line);
            if let Some(m) = res.strip_prefix("E/").and_then(dec_str) {
                if fatal && !has_gn {
                    // errors are fatal: this must be the last thing that happened
                    let want = End::Fail { msg: m.clone(), line: ln, source: so.clone() };
                    if idx + 1 != n || o.end != want {
                        return Err(format!("fatal error {:?} at instruction {}: expected {:?} as the end, got {:?} (log continues: {})", m, line, want, o.end, idx + 1 != n));
                    }
                } else if is_group(&lay, *line, &["S", "So"]) {
                    match o.log.get(idx + 1) {
                        Some((pn, pa, pl)) if pn == "probe" && *pl == line + 4 && pa.len() >= 4 => {
                            let got = (pa[1].clone(), pa[2].clone(), pa[3].clone());
                            if got != (m.clone(), lt.clone(), st.clone()) {
                                return Err(format!("after error {:?} at instruction {} (line {}, source {:?}) the queries returned {:?}", m, line, lt, st, got));
                            }
                            // (only when the head line really assigns `x`: the demand is about THAT line's output variable)
                            let head_assigns_x = lay.get(*line).map(|(t, _, _)| { let t = t.trim(); let t = if t.starts_with(':') { t.splitn(2, ' ').nth(1).unwrap_or("").trim_start() } else { t }; t.starts_with("x = ") }).unwrap_or(false);
                            if pa[0] == "So" && head_assigns_x && pa.get(4).map(|s| s.as_str()) != Some("false") {
                                return Err(format!("output variable after error at instruction {} is {:?}", line, pa.get(4)));
                            }
                        }
                        _ => {
                            // the run did not reach the probe: only legitimate when errors are fatal
                            let want = End::Fail { msg: m.clone(), line: ln, source: so.clone() };
                            if !(idx + 1 == n && o.end == want) {
                                return Err(format!("after error {:?} at instruction {} neither the probe ran nor the run failed with it: {:?}", m, line, o.end));
                            }
                            if !has_gn && !fatal {
                                return Err(format!("error {:?} at instruction {} was fatal although exit_on_error is off", m, line));
                            }
                        }
                    }
                }
            } else if let Some(m) = res.strip_prefix("X/").and_then(dec_str) {
                let want = End::Fail { msg: m.clone(), line: ln, source: so.clone() };
                if idx + 1 != n || o.end != want {
                    return Err(format!("crash {:?} at instruction {}: expected {:?}, got {:?}", m, line, want, o.end));
                }
            }
        } else if name == "probe" && !args.is_empty() && !has_gn {
            match args[0].as_str() {
                "F" => {
                    // the announcement must be followed by the announced switch
                    let p = lay.get(*line).map(|x| x.0.trim().strip_prefix("probe F").unwrap_or("?").trim().to_string());
                    let nx = lay.get(*line + 1).map(|x| {
                        let t = x.0.trim();
                        let t = t.strip_prefix("w = ").unwrap_or(t);
                        t.strip_prefix("set_exit_on_error").or_else(|| t.strip_prefix("exit_on_error")).unwrap_or("??").trim().to_string()
                    });
                    if p.is_none() || p != nx {
                        return Ok(());
                    }
                    if args.len() >= 2 {
                        fatal = is_true(&args[1]);
                    }
                }
                "M" | "A" => {
                    if *line < 4 || !is_group(&lay, *line - 4, &[args[0].as_str()]) {
                        continue;
                    }
                    {
                        let first = lay[*line - 4].0.trim();
                        let bare = first.strip_prefix("x = ").unwrap_or(first);
                        let ok = if args[0] == "M" {
                            bare.starts_with("trigger_error") || bare.starts_with("assert_error") || bare == "set_error"
                        } else {
                            REAL_FAIL.contains(&first)
                        };
                        if !ok {
                            continue;
                        }
                    }
                    let (lt, st, _, _) = pos(*line - 4);
                    if fatal {
                        return Err(format!("probe at instruction {} reached although the command before it failed in fatal mode", line));
                    }
                    if args[0] == "M" {
                        if args.len() < 5 { return Err(format!("probe M with {:?}", args)); }
                        let got = (args[2].clone(), args[3].clone(), args[4].clone());
                        if got != (args[1].clone(), lt.clone(), st.clone()) {
                            return Err(format!("after error {:?} at instruction {} (line {}, source {:?}) the queries returned {:?}", args[1], line - 4, lt, st, got));
                        }
                    } else {
                        if args.len() < 4 { return Err(format!("probe A with {:?}", args)); }
                        if args[1].is_empty() || (args[2].clone(), args[3].clone()) != (lt.clone(), st.clone()) {
                            return Err(format!("after a failing command at instruction {} (line {}, source {:?}) the queries returned {:?}", line - 4, lt, st, &args[1..]));
                        }
                    }
                }
                _ => {}
            }
        }
    }
    // a fatal failure of a real command (no log entry): the failing line must be a line whose
    // command can fail, checked through the final meta for M/A groups
    if let End::Fail { line: Some(fl), source, .. } = &o.end {
        if !has_gn {
            if let Some((ix, _)) = lay.iter().enumerate().find(|(_, (_, n, s))| n == fl && s == source) {
                if is_group(&lay, ix, &["M", "A"]) && !fatal {
                    return Err(format!("run failed at line {} ({:?}) although exit_on_error is off", fl, source));
                }
            }
        }
    }
    Ok(())
}

// ---------------------------------------------------------------- generators

fn adversarial_msg(rng: &mut Rng, k: usize) -> String {
    match rng.below(6) {
        0 => {
            // sometimes a very long report (longer than any plausible internal buffer)
            if rng.chance(1, 12) { format!("err{} {}", k, "long report line ".repeat(300 + rng.below(400))) } else { format!("err{}", k) }
        }
        1 => rng.pick_s(&["${x}", "%{x}", "\\${x}", "a \"b\" c", "# not a comment", "x = y", "cr\rlf\nnl", "  lead and trail  ", "é漢😀", "", "${", "%{y} %{z}", "\"", "true", "false",
            // messages that are themselves formatted errors (what a nested evaluation reports)
            "Source: Unknown Line: 1 - missing end quotes", "Source: lib.ds Line: 7 - boom", "Error: x", "Line: 3"]).to_string(),
        _ => pools::value(rng),
    }
}

fn gen_queue(rng: &mut Rng, qn: usize, nlines: usize, jumps: bool, gn: bool) -> Vec<String> {
    let v = |rng: &mut Rng| -> String {
        match rng.below(4) {
            0 => "-".to_string(),
            1 => enc_str(&pools::value(rng)),
            2 => enc_str(&format!("{}", rng.range(-2, 2))),
            _ => enc_str(&pools::word(rng, 3)),
        }
    };
    (0..qn)
        .map(|k| match rng.below(16) {
            0..=4 => format!("C/{}", v(rng)),
            5 | 6 if jumps => format!("GL/{}/{}", v(rng), enc_str(if rng.chance(1, 8) { ":undefined" } else { rng.pick_s(&LABELS) })),
            7 if jumps && gn => format!("GN/{}/{}", v(rng), rng.below(nlines + 2)),
            14 => format!("X/{}", enc_str(&format!("crash#{} {}", k, pools::value(rng)))),
            15 if rng.chance(1, 2) => format!("Q/{}", v(rng)),
            _ => format!("E/{}", enc_str(&adversarial_msg(rng, k))),
        })
        .collect()
}

fn written_arg(rng: &mut Rng) -> String {
    match rng.below(7) {
        0 => "${y}".to_string(),
        1 => format!("\"{} {}\"", pools::word(rng, 3), pools::word(rng, 3)),
        2 => "pre${z}post".to_string(),
        3 => "\"\"".to_string(),
        4 => "\"a # b\"".to_string(),
        _ => pools::word(rng, 5),
    }
}

fn flag_value(rng: &mut Rng) -> String {
    // (`00`, `+0`, `-0`, `0.0`, `000`: numerically zero, but only the exact text `0` is falsy)
    rng.pick_s(&["true", "false", "true", "false", "yes", "no", "0", "1", "TRUE", "False", "NO", "\"\"", "${y}", "%{w}", "on", "off", "00", "+0", "-0", "0.0", "000", "falſe", "nO", "İ"]).to_string()
}

fn push_group(out: &mut Vec<String>, ind: &str, first: String, probe: String) {
    out.push(format!("{}{}", ind, first));
    for g in GETTERS.iter() {
        out.push(format!("{}{}", ind, g));
    }
    out.push(format!("{}{}", ind, probe));
}

/// one element (one or more lines) over scripted commands and the family
fn gen_element(rng: &mut Rng, out: &mut Vec<String>, ind: &str, allow_labels: bool, gn: bool, full_sdk: bool) {
    match rng.below(20) {
        0 => out.push(String::new()),
        1 => out.push(format!("{}# comment", ind)),
        2 if allow_labels => out.push(rng.pick_s(&LABELS).to_string()),
        3..=9 => {
            let with_out = rng.chance(1, 2);
            let mut s = String::new();
            if allow_labels && rng.chance(1, 6) {
                s.push_str(rng.pick_s(&LABELS));
                s.push(' ');
            }
            if with_out {
                s.push_str("x = ");
            }
            s.push_str(rng.pick_s(&CMDS));
            for _ in 0..rng.below(3) {
                s.push(' ');
                s.push_str(&written_arg(rng));
            }
            if rng.chance(1, 5) {
                out.push(format!("{}{}", ind, s));
            } else if with_out {
                push_group(out, ind, s, "probe So ${e} ${l} ${s} ${x}".to_string());
            } else {
                push_group(out, ind, s, "probe S ${e} ${l} ${s}".to_string());
            }
        }
        10 | 11 => {
            let v = flag_value(rng);
            out.push(format!("{}probe F {}", ind, v));
            out.push(format!("{}{}{} {}", ind, if rng.chance(1, 3) { "w = " } else { "" }, if rng.chance(1, 4) { "set_exit_on_error" } else { "exit_on_error" }, v));
        }
        12 | 13 => {
            let cmd = if rng.chance(1, 2) { "trigger_error" } else { "assert_error" };
            let outv = if rng.chance(1, 2) { "x = " } else { "" };
            if rng.chance(1, 5) {
                let msg = if cmd == "trigger_error" { "Error" } else { "\"Assert failed.\"" };
                if gn { out.push(format!("{}{}{}", ind, outv, cmd)); } else { push_group(out, ind, format!("{}{}", outv, cmd), format!("probe M {} ${{e}} ${{l}} ${{s}}", msg)); }
            } else {
                let w = written_arg(rng);
                let extra = if rng.chance(1, 4) { " more" } else { "" };
                if gn { out.push(format!("{}{}{} {}{}", ind, outv, cmd, w, extra)); } else { push_group(out, ind, format!("{}{} {}{}", outv, cmd, w, extra), format!("probe M {} ${{e}} ${{l}} ${{s}}", w)); }
            }
        }
        14 => {
            if rng.chance(1, 4) {
                if gn { out.push(format!("{}set_error", ind)); } else { push_group(out, ind, "set_error".to_string(), "probe M \"Invalid input provided.\" ${e} ${l} ${s}".to_string()); }
            } else {
                push_group(out, ind, format!("set_error {}", written_arg(rng)), "probe N ${e} ${l} ${s}".to_string());
            }
        }
        15 => {
            let n = rng.below(5);
            let mut s = "on_error".to_string();
            for _ in 0..n {
                s.push(' ');
                s.push_str(&written_arg(rng));
            }
            push_group(out, ind, s, "probe N ${e} ${l} ${s}".to_string());
        }
        16 => out.push(format!("{}{} = {}", ind, rng.pick_s(&["y", "z"]), rng.pick_s(&["get_last_error", "get_last_error_line", "get_last_error_source", "exit_on_error"]))),
        17 if full_sdk => {
            let c = rng.pick_s(&REAL_FAIL);
            push_group(out, ind, c.to_string(), "probe A ${e} ${l} ${s}".to_string());
        }
        18 if !full_sdk && rng.chance(1, 4) => out.push(format!("{}nope arg", ind)),
        _ => {
            let s = format!("{} {}", rng.pick_s(&CMDS), written_arg(rng));
            push_group(out, ind, s, "probe S ${e} ${l} ${s}".to_string());
        }
    }
}

fn gen_vars(rng: &mut Rng) -> Vec<(String, String)> {
    let mut vars = vec![];
    for k in ["x", "y", "z", "w"].iter() {
        if rng.chance(1, 2) {
            vars.push((k.to_string(), if *k == "w" && rng.chance(1, 2) { rng.pick_s(&["true", "false", "yes no", "", "0"]).to_string() } else { pools::value(rng) }));
        }
    }
    vars
}

fn gen_a(rng: &mut Rng) -> Case {
    let gn = rng.chance(1, 4);
    let mut lines = vec![];
    let n_el = 1 + rng.below(7);
    for _ in 0..n_el {
        gen_element(rng, &mut lines, "", true, gn, false);
    }
    // optional included file (file runs only)
    let from_file = rng.chance(1, 4);
    let src = if from_file { Some(MAIN.to_string()) } else { None };
    let mut inc = None;
    if from_file && rng.chance(1, 2) {
        let mut il = vec![];
        for _ in 0..1 + rng.below(2) {
            gen_element(rng, &mut il, "", false, gn, false);
        }
        let at = rng.below(lines.len() + 1);
        // never inside a group: insert only at element boundaries = before a line that is not a getter / probe
        let at = (at..=lines.len()).find(|&i| i == lines.len() || !(lines[i].contains("get_last_error") && lines[i].starts_with(['e', 'l', 's'])) && !lines[i].starts_with("probe S") && !lines[i].starts_with("probe M") && !lines[i].starts_with("probe N") && !(i > 0 && lines[i - 1].starts_with("probe F"))).unwrap_or(lines.len());
        lines.insert(at, format!("!include_files {}", INC));
        inc = Some((INC.to_string(), il.join("\n")));
    }
    let text = lines.join("\n");
    let total_lines = lines.len() + inc.as_ref().map(|(_, t)| t.lines().count()).unwrap_or(0);
    let qn = rng.below(14);
    let queue = gen_queue(rng, qn, total_lines, true, gn);
    let vars = gen_vars(rng);
    let fuel = (qn + 3) * (total_lines + 3) + 10;
    let n_err = queue.iter().filter(|q| q.starts_with("E/")).count();
    let mut tags = vec!["stream-A"];
    if from_file { tags.push("from-file"); }
    if inc.is_some() { tags.push("include"); }
    if gn { tags.push("goto-line"); }
    if n_err >= 2 { tags.push("several-errors"); }
    if text.contains("exit_on_error") { tags.push("exit_on_error"); }
    if text.contains("trigger_error") || text.contains("assert_error") { tags.push("trigger/assert"); }
    Case { req: mk_req("err", &text, &queue, &vars, fuel, &src, &inc), in_domain: true, nontrivial: n_err >= 1 && text.contains("probe S"), tags }
}

fn gen_block(rng: &mut Rng, out: &mut Vec<String>, ind: &str, depth: usize, fn_names: &[String]) {
    let n = 1 + rng.below(3);
    for _ in 0..n {
        match rng.below(10) {
            0 | 1 if depth < 2 => {
                let c = rng.pick_s(&["true", "false", "true and true", "not false"]);
                out.push(format!("{}if {}", ind, c));
                gen_block(rng, out, &format!("{}    ", ind), depth + 1, fn_names);
                if rng.chance(1, 2) {
                    out.push(format!("{}else", ind));
                    gen_block(rng, out, &format!("{}    ", ind), depth + 1, fn_names);
                }
                out.push(format!("{}end", ind));
            }
            2 if depth < 2 => {
                let rv = format!("r{}", depth);
                out.push(format!("{}{} = range 0 {}", ind, rv, 1 + rng.below(2)));
                out.push(format!("{}for i{} in ${{{}}}", ind, depth, rv));
                gen_block(rng, out, &format!("{}    ", ind), depth + 1, fn_names);
                out.push(format!("{}end", ind));
                out.push(format!("{}release ${{{}}}", ind, rv));
            }
            3 if depth < 2 => {
                let cv = format!("n{}", depth);
                out.push(format!("{}{} = set 0", ind, cv));
                out.push(format!("{}while less_than ${{{}}} {}", ind, cv, 1 + rng.below(2)));
                gen_block(rng, out, &format!("{}    ", ind), depth + 1, fn_names);
                out.push(format!("{}    {} = calc ${{{}}} + 1", ind, cv, cv));
                out.push(format!("{}end", ind));
            }
            4 if !fn_names.is_empty() => {
                let f = &fn_names[rng.below(fn_names.len())];
                out.push(format!("{}{}{}", ind, if rng.chance(1, 2) { "q = " } else { "" }, f));
            }
            _ => gen_element(rng, out, ind, false, false, true),
        }
    }
}

fn gen_b(rng: &mut Rng) -> Case {
    let mut lines = vec![];
    // executable script files start with an interpreter line: an ordinary comment for the parser,
    // it counts as line 1 (whether the text is then run from a file or not)
    let shebang = rng.chance(1, 4);
    if shebang {
        lines.push("#!/usr/bin/env duck".to_string());
    }
    let nf = rng.below(3);
    let mut fn_names = vec![];
    for k in 0..nf {
        let name = format!("fun{}", k);
        // (one function in three is `<scope>`d: the error mode and the error record are not
        // variables — what a scoped body switches stays switched after it returns)
        lines.push(if rng.chance(1, 3) { format!("fn <scope> {}", name) } else { format!("fn {}", name) });
        let callable = fn_names.clone();
        gen_block(rng, &mut lines, "    ", 1, &callable);
        if rng.chance(1, 3) {
            lines.push("    return done".to_string());
        }
        lines.push("end".to_string());
        fn_names.push(name);
    }
    let from_file = rng.chance(1, 3);
    let src = if from_file { Some(MAIN.to_string()) } else { None };
    let mut inc = None;
    let inc_at_top = from_file && rng.chance(1, 2);
    if inc_at_top {
        let mut il = vec![];
        match rng.below(3) {
            0 => {
                il.push("# included file".to_string());
                il.push(String::new());
            }
            1 => il.push("#!/usr/bin/env duck".to_string()),
            _ => {}
        }
        gen_block(rng, &mut il, "", 1, &[]);
        lines.push(format!("!include_files {}", INC));
        inc = Some((INC.to_string(), il.join("\n")));
    }
    gen_block(rng, &mut lines, "", 0, &fn_names);
    gen_block(rng, &mut lines, "", 0, &fn_names);
    let text = lines.join("\n");
    let total_lines = lines.len() + inc.as_ref().map(|(_, t)| t.lines().count()).unwrap_or(0);
    let qn = if rng.chance(1, 8) { rng.below(4) } else { 6 + rng.below(26) };
    let queue = gen_queue(rng, qn, total_lines, false, false);
    let vars = gen_vars(rng);
    let n_err = queue.iter().filter(|q| q.starts_with("E/")).count();
    let mut tags = vec!["stream-B"];
    if from_file { tags.push("from-file"); }
    if inc.is_some() { tags.push("include"); }
    if nf > 0 { tags.push("fn"); }
    if text.contains("for i") || text.contains("while ") { tags.push("loop"); }
    if text.contains("if ") { tags.push("branch"); }
    if n_err >= 2 { tags.push("several-errors"); }
    if text.contains("exit_on_error") { tags.push("exit_on_error"); }
    if text.contains("probe A") { tags.push("real-failing-command"); }
    Case { req: mk_req("errb", &text, &queue, &vars, 0, &src, &inc), in_domain: true, nontrivial: (n_err >= 1 || text.contains("probe M") || text.contains("probe A")) && (nf > 0 || text.contains("if ") || text.contains("for i") || text.contains("while ")), tags }
}

fn fixed() -> Vec<Case> {
    let e = |m: &str| format!("E/{}", enc_str(m));
    let grp = |first: &str, probe: &str| -> String { format!("{}\n{}\n{}\n{}\n{}", first, GETTERS[0], GETTERS[1], GETTERS[2], probe) };
    let s = "probe S ${e} ${l} ${s}";
    let so = "probe So ${e} ${l} ${s} ${x}";
    let mut v = vec![];
    let mut add = |op: &str, text: String, queue: Vec<String>, vars: Vec<(&str, &str)>, src: Option<&str>, inc: Option<(&str, String)>| {
        let vars: Vec<(String, String)> = vars.iter().map(|(a, b)| (a.to_string(), b.to_string())).collect();
        let n = text.lines().count() + 10;
        v.push(Case { req: mk_req(op, &text, &queue, &vars, 20 * n, &src.map(|x| x.to_string()), &inc.map(|(a, b)| (a.to_string(), b))), in_domain: true, nontrivial: true, tags: vec!["fixed"] });
    };
    // the former F7 witnesses: messages that look like script text
    for m in ["%{x}", "${x}", "\\${x}", "a \"b c\" d", "# c", "", " ", "cr\rlf\nnl", "é漢😀", "x = y"] {
        add("err", format!("\n# line 2\n{}", grp("x = c0", so)), vec![e(m)], vec![("x", "X V")], None, None);
    }
    // latest wins, then fatal after toggling on, off, on
    add("err", format!("{}\n{}\nprobe F true\nexit_on_error true\nprobe F false\nexit_on_error false\n{}\nprobe F yes\nexit_on_error yes\n{}", grp("c0", s), grp("c1", s), grp("c2", s), grp("c3", s)), vec![e("first"), e("second"), e("third"), e("fourth")], vec![], None, None);
    // after a goto
    add("err", format!("c0\n{}\n:a\n{}", grp("c1", s), grp("c2", s)), vec![format!("GL/-/{}", enc_str(":a")), e("after goto")], vec![], None, None);
    // a FATAL error whose message is itself a formatted error (as a nested evaluation reports it): the
    // printed form names THIS line in front of the message, from text and from a file
    for m in ["Source: Unknown Line: 1 - missing end quotes", "Source: lib.ds Line: 7 - boom"] {
        add("err", format!("# one\n\nprobe F true\nexit_on_error true\n{}", grp("c0", s)), vec![e(m)], vec![], None, None);
        add("err", format!("probe F true\nexit_on_error true\n{}", grp("x = c1", so)), vec![e(m)], vec![], Some(MAIN), None);
    }
    // from a file, with an included file whose instruction fails
    add("err", format!("{}\n!include_files inc.ds\n{}", grp("c0", s), grp("c1", s)), vec![e("main 1"), e("included"), e("main 2")], vec![], Some(MAIN), Some((INC, format!("# first line of the included file\n\n{}", grp("c2", s)))));
    // trigger_error / assert_error / set_error
    add("err", format!("{}\n{}\n{}\n{}", grp("x = trigger_error \"a b\" c", "probe M \"a b\" ${e} ${l} ${s}"), grp("assert_error", "probe M \"Assert failed.\" ${e} ${l} ${s}"), grp("trigger_error", "probe M Error ${e} ${l} ${s}"), grp("set_error boom", "probe N ${e} ${l} ${s}")), vec![], vec![], None, None);
    // full SDK: inside a function body, a loop body and a branch
    add("errb", format!("fn f\n    {}\nend\nf\nif true\n    {}\nend\nr = range 0 2\nfor i in ${{r}}\n    {}\nend", grp("c0", s).replace('\n', "\n    "), grp("x = c1", so).replace('\n', "\n    "), grp("c2", s).replace('\n', "\n    ")), vec![e("in fn"), e("in if"), e("loop 1"), e("loop 2")], vec![], None, None);
    add("errb", format!("{}\n{}\n{}", grp("array_push nothandle 1", "probe A ${e} ${l} ${s}"), grp("x = substring abc 9", "probe A ${e} ${l} ${s}"), grp("x = array_is_empty nothandle", "probe A ${e} ${l} ${s}")), vec![], vec![], Some(MAIN), None);
    add("errb", format!("fn f\n    probe F true\n    exit_on_error true\nend\n{}\nf\n{}", grp("c0", s), grp("c1", s)), vec![e("survivable"), e("fatal")], vec![], Some(MAIN), None);
    // the same switch made inside a `<scope>` function; and switched OFF inside one after it was on
    add("errb", format!("fn <scope> f\n    probe F true\n    exit_on_error true\nend\n{}\nf\n{}", grp("c0", s), grp("c1", s)), vec![e("survivable"), e("fatal")], vec![], Some(MAIN), None);
    add("errb", format!("fn <scope> f\n    probe F false\n    exit_on_error false\n    return done\nend\nprobe F true\nexit_on_error true\nf\n{}\n{}", grp("c0", s), grp("c1", s)), vec![e("survivable 1"), e("survivable 2")], vec![], None, None);
    v
}

impl Prop for C10Prop {
    fn id(&self) -> &'static str {
        "C10"
    }
    fn rule(&self) -> &'static str {
        "Two streams. Stream A (op err, 60% of the cases, compared with the Lean model withOnError AND judged by the relation): programs of 1-7 elements over scripted commands c0..c3 (results chosen by the generator: continue / goto label / goto line (a quarter of the programs) / error / crash / exit; error messages from an adversarial pool: ${x}, %{x}, \\${x}, quotes, #, CR/LF, spaces, multi-byte, empty) and the REAL on_error family of the SDK (exit_on_error / set_exit_on_error with truthy, falsy, expanded and spread values; trigger_error, assert_error, set_error with and without arguments; on_error called by the script with 0-4 arguments; the three queries), labels incl. duplicates, unknown commands, run from text or from a temp file (a quarter), with one included file (an eighth); after each failing-capable line the three queries are taken and handed to the logging command `probe`. Stream B (op errb, 40%, relation only - the model answers REL): the same elements placed inside real fn bodies, if/else branches, for and while loops of the SDK (nesting <= 2), plus real failing SDK commands (array_push/array_pop/map_put/set_contains/array_is_empty on a non-handle, substring out of range, calc syntax error, read_properties without arguments), from text / file / with an included block. Relation (independent of the model): for every error result handed out by a scripted command at instruction i while errors are not fatal, the probe right after it shows (that message, the 1-based source line of instruction i, the source file or empty) and output variable 'false'; while errors are fatal (mode tracked from the `probe F v` announcements with an independent is_true) it is the last event and the run fails with exactly (message, line, source); a crash result fails with its message and position; trigger_error/assert_error/set_error-without-arguments groups show their documented message; real failing commands show a non-empty message and their own line and source. Observed: call log with bound arguments and instruction index, final variables, the stored record after the run, Ok / Err(Runtime(message, meta)). Non-trivial = at least one error result consumed next to a probe (A) / at least one error inside a fn, loop or branch (B); distinct = distinct request."
    }
    fn budget(&self, tier: Tier) -> usize {
        match tier {
            Tier::Quick => 3_000,
            Tier::Thorough => 300_000,
        }
    }
    fn fixed_cases(&self, _tier: Tier) -> Vec<Case> {
        fixed()
    }
    fn generate(&self, rng: &mut Rng, _tier: Tier) -> Case {
        if rng.below(10) < 6 { gen_a(rng) } else { gen_b(rng) }
    }
    fn run_impl(&self, req: &str, _model: &str) -> String {
        let r = parse_req(req);
        let o = run_real(&r);
        if o.end == End::Other("timeout".to_string()) {
            return "timeout".to_string();
        }
        if r.op == "errb" {
            match check(&r, &o) {
                Ok(()) => if std::env::var("C10_SHOW").is_ok() { format!("REL :: {}", enc_obs(&o)) } else { "REL".to_string() },
                Err(why) => format!("REL-VIOLATED {} :: {}", why.replace(' ', "_"), enc_obs(&o)),
            }
        } else {
            enc_obs(&o)
        }
    }
    fn relation(&self, req: &str, _model: &str, imp: &str) -> Option<bool> {
        let r = parse_req(req);
        if r.op == "errb" {
            return Some(imp == "REL");
        }
        match dec_obs(imp) {
            Some(o) => Some(check(&r, &o).is_ok()),
            None => if imp.starts_with("PARSEERR") || imp == "fuel" || imp == "timeout" { None } else { Some(false) },
        }
    }
    fn shrink(&self, req: &str) -> Vec<String> {
        let r = parse_req(req);
        let mut out = vec![];
        let lines: Vec<&str> = r.text.split('\n').collect();
        // drop whole groups (5 lines) first, then single lines
        for i in 0..lines.len() {
            if i + 5 <= lines.len() && lines[i + 4].trim().starts_with("probe") {
                let mut l = lines.clone();
                l.drain(i..i + 5);
                out.push(mk_req(&r.op, &l.join("\n"), &r.queue, &r.vars, r.fuel, &r.src, &r.inc));
            }
        }
        let structural = |l: &str| {
            let t = l.trim();
            ["while ", "for ", "if ", "else", "end", "fn ", "n0 =", "n1 =", "n2 =", "r0 =", "r1 =", "r2 =", "release "].iter().any(|p| t.starts_with(p))
        };
        if lines.len() > 1 {
            for i in 0..lines.len() {
                if structural(lines[i]) {
                    continue;
                }
                // the head of a probe group stays with its group (dropping it would make the line
                // before it the head of a group it was not generated for)
                if i + 1 < lines.len() && lines[i + 1].trim() == GETTERS[0] {
                    continue;
                }
                let mut l = lines.clone();
                l.remove(i);
                out.push(mk_req(&r.op, &l.join("\n"), &r.queue, &r.vars, r.fuel, &r.src, &r.inc));
            }
        }
        for i in 0..r.queue.len() {
            let mut q = r.queue.clone();
            q.remove(i);
            out.push(mk_req(&r.op, &r.text, &q, &r.vars, r.fuel, &r.src, &r.inc));
        }
        for i in 0..r.queue.len() {
            if r.queue[i] != "C/-" {
                let mut q = r.queue.clone();
                q[i] = "C/-".to_string();
                out.push(mk_req(&r.op, &r.text, &q, &r.vars, r.fuel, &r.src, &r.inc));
            }
        }
        for i in 0..r.vars.len() {
            let mut v = r.vars.clone();
            v.remove(i);
            out.push(mk_req(&r.op, &r.text, &r.queue, &v, r.fuel, &r.src, &r.inc));
        }
        if r.inc.is_some() && !r.text.contains("!include_files") {
            out.push(mk_req(&r.op, &r.text, &r.queue, &r.vars, r.fuel, &r.src, &None));
        }
        out
    }
    fn outcome_kind(&self, imp: &str) -> String {
        imp.split(' ').next().unwrap_or("").chars().filter(|c| c.is_ascii_alphabetic() || *c == '-').collect()
    }
    fn describe(&self, req: &str) -> String {
        let r = parse_req(req);
        format!("{} script={:?} results={:?} vars={:?} source={:?} include={:?}", if r.op == "errb" { "full-SDK" } else { "scripted+family" }, r.text, r.queue, r.vars, r.src, r.inc)
    }
}
