//! C16 extensions: (A) the case-mapping tables of the installed toolchain (requests `casetab …`)
//! and non-ASCII texts for `uppercase` / `lowercase`; (B) `calc`: expression generator, an
//! independent reader of the expression text, a typed evaluator that mirrors what evalexpr
//! computes with (`i64` checked / `f64`), and an exact rational evaluator with a rigorous
//! rounding-error bound.
use crate::rng::Rng;

// ------------------------------------------------------------------------------------------
// (A) case tables, recomputed from the toolchain (same observations as src/bin/unitable.rs)
// ------------------------------------------------------------------------------------------

fn t1(c: char) -> bool {
    format!("{}\u{3a3}", c).to_lowercase().ends_with('\u{3c2}')
}
fn t2(c: char) -> bool {
    format!("a{}\u{3a3}", c).to_lowercase().ends_with('\u{3c2}')
}
fn map_table(f: fn(char) -> Vec<u32>) -> String {
    let mut out: Vec<String> = vec![];
    for cp in 0u32..=0x10FFFF {
        if let Some(c) = char::from_u32(cp) {
            let m = f(c);
            if m != vec![cp] {
                out.push(format!("{}:{}", cp, m.iter().map(|x| x.to_string()).collect::<Vec<_>>().join("+")));
            }
        }
    }
    out.join(",")
}
fn range_table(f: fn(char) -> bool) -> String {
    let mut ranges: Vec<(u32, u32)> = vec![];
    for cp in 0u32..=0x10FFFF {
        if let Some(c) = char::from_u32(cp) {
            if f(c) {
                if let Some(last) = ranges.last_mut() {
                    if last.1 + 1 == cp {
                        last.1 = cp;
                        continue;
                    }
                }
                ranges.push((cp, cp));
            }
        }
    }
    ranges.iter().map(|(a, b)| format!("{}-{}", a, b)).collect::<Vec<_>>().join(",")
}
/// the answer to `casetab <which>` computed from the toolchain
pub fn casetab_of_toolchain(which: &str) -> String {
    match which {
        "lower" => map_table(|c| c.to_lowercase().map(|x| x as u32).collect()),
        "upper" => map_table(|c| c.to_uppercase().map(|x| x as u32).collect()),
        "cased" => range_table(t1),
        "ignorable" => range_table(|c| !t1(c) && t2(c)),
        _ => "?".into(),
    }
}

/// every character `char::to_lowercase` or `char::to_uppercase` changes (computed once)
pub fn changed_chars() -> &'static Vec<char> {
    static CH: std::sync::OnceLock<Vec<char>> = std::sync::OnceLock::new();
    CH.get_or_init(|| {
        (0u32..=0x10FFFF)
            .filter_map(char::from_u32)
            .filter(|c| {
                let mut l = c.to_lowercase();
                let mut u = c.to_uppercase();
                !(l.next() == Some(*c) && l.next().is_none() && u.next() == Some(*c) && u.next().is_none())
            })
            .collect()
    })
}

/// characters with a story: sigmas, Greek capitals, multi-character mappings (İ ß ŉ ǰ ΐ ᾼ ﬁ ﬃ),
/// title-case digraphs, Kelvin/Ohm/Angstrom signs, Georgian, Cherokee, Deseret, Adlam (4-byte),
/// case-ignorable characters (apostrophe, full stop, soft hyphen, combining marks, modifier
/// letters which are cased AND ignorable), uncased letters and digits
pub const CASE_POOL: [char; 56] = [
    'Σ', 'Σ', 'Σ', 'σ', 'ς', 'Α', 'α', 'Ο', 'Δ', 'ο', '.', ' ', '\'', ':', '\u{301}', '\u{345}', '\u{ad}', '\u{2b0}',
    '\u{2019}', 'İ', 'ı', 'I', 'i', 'ß', 'ẞ', 'ǅ', 'ǆ', 'Ǆ', 'ŉ', 'ǰ', 'ΐ', 'ᾼ', 'ﬁ', 'ﬃ', 'a', 'Z', '1', '-',
    '\u{2126}', '\u{212a}', '\u{212b}', 'Ⴀ', 'ა', 'Ა', '\u{10400}', '\u{10428}', '\u{1e900}', '\u{ab70}', '\u{13f8}',
    '漢', '😀', 'Ⅷ', 'ⓐ', 'ª', 'ǲ', '\u{1c5}',
];
pub const SIGMA_TEXTS: [&str; 30] = [
    "ΟΔΟΣ", "aΣ", "a.Σ", "Σ", "ΑΣΑ", "ΑΣ.", "ΑΣ\u{301}", "ΣΣ", "aΣ Σ", "a\u{2b0}Σ", "\u{2b0}Σ", "a.Σ.b", "A.Σ",
    "İΣ", "aΣ\u{345}", "ǅΣ", "1Σ", "ΣΑ", "a'Σ'b", "a\u{ad}Σ", "ΣΣΣ", "Σ.Σ.Σ", "ΟΔΟΣ ΟΔΟΣ", "aΣ1", "aΣ漢", "漢Σ",
    "a\u{301}\u{301}Σ\u{301}\u{301}", "a\u{301}Σ\u{301}b", "ΑΣ:Α", "Α Σ",
];

pub fn gen_case_text(rng: &mut Rng) -> String {
    let max = if rng.chance(1, 30) { 300 } else { 9 };
    let n = rng.below(max + 1);
    let style = rng.below(4);
    (0..n)
        .map(|_| match style {
            // mostly Greek words around sigmas
            0 => *rng.pick(&['Σ', 'Σ', 'Α', 'α', 'Ο', '.', ' ', '\u{301}', '\'', 'a', 'σ', '1', '\u{2b0}']),
            // any character with a case mapping
            1 if rng.chance(1, 2) => {
                let all = changed_chars();
                all[rng.below(all.len())]
            }
            _ => *rng.pick(&CASE_POOL),
        })
        .collect()
}

// ------------------------------------------------------------------------------------------
// (B) calc
// ------------------------------------------------------------------------------------------

#[derive(Clone, Debug)]
pub enum E {
    Int(String),
    Dec(String),
    Add(Box<E>, Box<E>),
    Sub(Box<E>, Box<E>),
    Mul(Box<E>, Box<E>),
    Neg(Box<E>),
    Pow(Box<E>, String),
}

const INT_LITS: [&str; 28] = [
    "0", "1", "2", "3", "4", "5", "7", "10", "12", "16", "100", "255", "1000", "1024", "65536", "99999", "1000000",
    "4294967296", "3037000500", "9007199254740991", "9007199254740992", "9007199254740993", "4611686018427387904",
    "9223372036854775807", "9223372036854775808", "18446744073709551616", "007", "00",
];
const DEC_LITS: [&str; 22] = [
    "0.5", "0.25", "1.5", "0.125", "2.75", "0.0", "1.0", "2.0", "10.0", "0.1", "0.2", "0.3", "3.14", "2.5", "100.5",
    "0.0625", "1024.0", "4294967296.0", "0.000030517578125", "123456.789", "9007199254740993.0", "1.25",
];

fn gen_lit(rng: &mut Rng) -> E {
    match rng.below(10) {
        0..=3 => E::Int(rng.range(0, 20).to_string()),
        4 | 5 => E::Int(rng.pick_s(&INT_LITS).to_string()),
        6 => E::Int(rng.range(0, 100000).to_string()),
        7 | 8 => E::Dec(rng.pick_s(&DEC_LITS).to_string()),
        _ => E::Dec(format!("{}.{}", rng.range(0, 300), ["5", "25", "75", "125", "0", "1", "33", "5000"][rng.below(8)])),
    }
}
fn gen_expr(rng: &mut Rng, depth: usize) -> E {
    if depth == 0 || rng.chance(1, 4) {
        return gen_lit(rng);
    }
    let d = depth - 1;
    match rng.below(9) {
        0 | 1 => E::Add(Box::new(gen_expr(rng, d)), Box::new(gen_expr(rng, d))),
        2 | 3 => E::Sub(Box::new(gen_expr(rng, d)), Box::new(gen_expr(rng, d))),
        4 | 5 | 6 => E::Mul(Box::new(gen_expr(rng, d)), Box::new(gen_expr(rng, d))),
        7 => E::Neg(Box::new(gen_expr(rng, d))),
        _ => E::Pow(Box::new(gen_expr(rng, d)), rng.range(0, 12).to_string()),
    }
}
/// an expression whose value lies beyond 2^53 / 2^63 (what a lossy integer conversion of the
/// result would get wrong), by `^` or by products of float literals
fn gen_big(rng: &mut Rng) -> E {
    let lit = |s: &str| Box::new(if s.contains('.') { E::Dec(s.to_string()) } else { E::Int(s.to_string()) });
    let core = match rng.below(6) {
        0 => E::Pow(lit("2"), rng.range(50, 90).to_string()),
        1 => E::Pow(lit("10"), rng.range(15, 30).to_string()),
        2 => E::Pow(lit(*rng.pick(&["3", "7", "1.5", "2.5", "12", "100"])), rng.range(20, 45).to_string()),
        3 => E::Mul(Box::new(E::Mul(lit("4294967296.0"), lit("4294967296.0"))), lit(*rng.pick(&["1", "2", "4.0", "0.5", "3", "1024"]))),
        4 => E::Mul(Box::new(E::Pow(lit("2"), rng.range(30, 40).to_string())), Box::new(E::Pow(lit("2"), rng.range(20, 40).to_string()))),
        _ => E::Mul(lit("9223372036854775807"), lit(*rng.pick(&["2.0", "1.0", "4.0", "1.5"]))),
    };
    match rng.below(6) {
        0 => E::Neg(Box::new(core)),
        1 => E::Add(Box::new(core), Box::new(gen_lit(rng))),
        2 => E::Sub(Box::new(gen_lit(rng)), Box::new(core)),
        3 => E::Mul(Box::new(core), Box::new(E::Neg(lit("1")))),
        _ => core,
    }
}
pub fn gen_calc(rng: &mut Rng) -> E {
    match rng.below(10) {
        0 | 1 | 2 => gen_big(rng),
        3 => gen_expr(rng, 1),
        4 | 5 => gen_expr(rng, 2),
        6 | 7 => gen_expr(rng, 3),
        _ => gen_expr(rng, 4),
    }
}

fn level(e: &E) -> u8 {
    match e {
        E::Add(..) | E::Sub(..) => 0,
        E::Mul(..) => 1,
        E::Neg(..) => 2,
        E::Pow(..) => 3,
        _ => 4,
    }
}
/// tokens of the text; a child is parenthesised when the grammar needs it (and when `extra`
/// says so)
pub fn render(e: &E, need: u8, extra: &mut dyn FnMut() -> bool, out: &mut Vec<String>) {
    let paren = level(e) < need || extra();
    if paren {
        out.push("(".into());
    }
    match e {
        E::Int(s) | E::Dec(s) => out.push(s.clone()),
        E::Add(a, b) | E::Sub(a, b) => {
            render(a, 0, extra, out);
            out.push(if matches!(e, E::Add(..)) { "+" } else { "-" }.into());
            render(b, 1, extra, out);
        }
        E::Mul(a, b) => {
            render(a, 1, extra, out);
            out.push("*".into());
            render(b, 2, extra, out);
        }
        E::Neg(a) => {
            out.push("-".into());
            render(a, 2, extra, out);
        }
        E::Pow(a, n) => {
            render(a, 4, extra, out);
            out.push("^".into());
            out.push(n.clone());
        }
    }
    if paren {
        out.push(")".into());
    }
}
pub fn render_random(e: &E, rng: &mut Rng) -> Vec<String> {
    let mut out = vec![];
    render(e, 0, &mut || rng.chance(1, 6), &mut out);
    out
}
pub fn render_min(e: &E) -> Vec<String> {
    let mut out = vec![];
    render(e, 0, &mut || false, &mut out);
    out
}
/// smaller expressions: every proper sub-expression, and the expression with one operand
/// replaced by the literal 1
pub fn smaller(e: &E) -> Vec<E> {
    fn subs(e: &E, out: &mut Vec<E>) {
        match e {
            E::Add(a, b) | E::Sub(a, b) | E::Mul(a, b) => {
                out.push((**a).clone());
                out.push((**b).clone());
                subs(a, out);
                subs(b, out);
            }
            E::Neg(a) | E::Pow(a, _) => {
                out.push((**a).clone());
                subs(a, out);
            }
            _ => {}
        }
    }
    let mut out = vec![];
    subs(e, &mut out);
    let one = || Box::new(E::Int("1".into()));
    match e {
        E::Add(a, b) => {
            out.push(E::Add(one(), b.clone()));
            out.push(E::Add(a.clone(), one()));
        }
        E::Sub(a, b) => {
            out.push(E::Sub(one(), b.clone()));
            out.push(E::Sub(a.clone(), one()));
        }
        E::Mul(a, b) => {
            out.push(E::Mul(one(), b.clone()));
            out.push(E::Mul(a.clone(), one()));
        }
        _ => {}
    }
    out
}

/// how the tokens are handed to the command: one argument per token, one argument in all
/// (with or without blanks), or a few arguments cut at token borders
pub fn to_args(toks: &[String], rng: &mut Rng) -> Vec<String> {
    match rng.below(4) {
        0 => toks.to_vec(),
        1 => vec![toks.join(" ")],
        2 => vec![toks.join("")],
        _ => {
            let mut out: Vec<String> = vec![String::new()];
            for t in toks {
                if !out.last().unwrap().is_empty() && rng.chance(1, 3) {
                    out.push(String::new());
                }
                out.last_mut().unwrap().push_str(t);
            }
            out
        }
    }
}

// ---- an independent reader of the text (ordinary precedence; `^` binds tighter than unary
// minus; an unparenthesised chain of `^` is outside the grammar) ----
struct P<'a> {
    t: &'a [String],
    i: usize,
}
impl<'a> P<'a> {
    fn peek(&self) -> Option<&str> {
        self.t.get(self.i).map(|s| s.as_str())
    }
    fn sum(&mut self) -> Option<E> {
        let mut a = self.prod()?;
        loop {
            match self.peek() {
                Some("+") => {
                    self.i += 1;
                    a = E::Add(Box::new(a), Box::new(self.prod()?));
                }
                Some("-") => {
                    self.i += 1;
                    a = E::Sub(Box::new(a), Box::new(self.prod()?));
                }
                _ => return Some(a),
            }
        }
    }
    fn prod(&mut self) -> Option<E> {
        let mut a = self.unary()?;
        while self.peek() == Some("*") {
            self.i += 1;
            a = E::Mul(Box::new(a), Box::new(self.unary()?));
        }
        Some(a)
    }
    fn unary(&mut self) -> Option<E> {
        if self.peek() == Some("-") {
            self.i += 1;
            return Some(E::Neg(Box::new(self.unary()?)));
        }
        self.power()
    }
    fn power(&mut self) -> Option<E> {
        let a = self.atom()?;
        if self.peek() == Some("^") {
            self.i += 1;
            let n = self.peek()?.to_string();
            if n.is_empty() || !n.bytes().all(|b| b.is_ascii_digit()) {
                return None;
            }
            self.i += 1;
            if self.peek() == Some("^") {
                return None;
            }
            return Some(E::Pow(Box::new(a), n));
        }
        Some(a)
    }
    fn atom(&mut self) -> Option<E> {
        let t = self.peek()?.to_string();
        self.i += 1;
        if t == "(" {
            let e = self.sum()?;
            if self.peek() != Some(")") {
                return None;
            }
            self.i += 1;
            return Some(e);
        }
        let b = t.as_bytes();
        if b.iter().all(|c| c.is_ascii_digit()) {
            return Some(E::Int(t));
        }
        let parts: Vec<&str> = t.split('.').collect();
        if parts.len() == 2 && parts.iter().all(|p| !p.is_empty() && p.bytes().all(|c| c.is_ascii_digit())) {
            return Some(E::Dec(t));
        }
        None
    }
}
pub fn read_text(text: &str) -> Option<E> {
    let mut toks: Vec<String> = vec![];
    let cs: Vec<char> = text.chars().collect();
    let mut i = 0;
    while i < cs.len() {
        let c = cs[i];
        if c == ' ' {
            i += 1;
        } else if "+-*^()".contains(c) {
            toks.push(c.to_string());
            i += 1;
        } else if c.is_ascii_digit() || c == '.' {
            let j = (i..cs.len()).find(|&k| !(cs[k].is_ascii_digit() || cs[k] == '.')).unwrap_or(cs.len());
            toks.push(cs[i..j].iter().collect());
            i = j;
        } else {
            return None;
        }
    }
    let mut p = P { t: &toks, i: 0 };
    let e = p.sum()?;
    if p.i == toks.len() { Some(e) } else { None }
}

// ---- exact fractions over i128 (None = does not fit) ----
#[derive(Clone, Copy, Debug, PartialEq)]
pub struct Q {
    pub n: i128,
    pub d: i128,
}
/// (on magnitudes: `i128::MIN.abs()` does not exist; `Q::new` refuses that value, so the result fits)
fn gcd(a: i128, b: i128) -> i128 {
    let (mut a, mut b) = (a.unsigned_abs(), b.unsigned_abs());
    while b != 0 {
        let t = a % b;
        a = b;
        b = t;
    }
    i128::try_from(a).unwrap_or(1)
}
impl Q {
    pub fn new(n: i128, d: i128) -> Option<Q> {
        if d == 0 || n == i128::MIN || d == i128::MIN {
            return None;
        }
        let g = gcd(n, d).max(1);
        let (n, d) = (n / g, d / g);
        Some(if d < 0 { Q { n: n.checked_neg()?, d: d.checked_neg()? } } else { Q { n, d } })
    }
    fn add(self, o: Q) -> Option<Q> {
        Q::new(self.n.checked_mul(o.d)?.checked_add(o.n.checked_mul(self.d)?)?, self.d.checked_mul(o.d)?)
    }
    fn neg(self) -> Option<Q> {
        Some(Q { n: self.n.checked_neg()?, d: self.d })
    }
    fn mul(self, o: Q) -> Option<Q> {
        // cross-reduce first so that more products fit
        let (g1, g2) = (gcd(self.n, o.d).max(1), gcd(o.n, self.d).max(1));
        Q::new((self.n / g1).checked_mul(o.n / g2)?, (self.d / g2).checked_mul(o.d / g1)?)
    }
    fn pow(self, k: u32) -> Option<Q> {
        Q::new(self.n.checked_pow(k)?, self.d.checked_pow(k)?)
    }
    pub fn to_f64(self) -> f64 {
        self.n as f64 / self.d as f64
    }
}
/// a decimal text `[-]digits[.digits]` as an exact fraction
pub fn parse_decimal_exact(s: &str) -> Option<Q> {
    let (neg, body) = match s.strip_prefix('-') {
        Some(r) => (true, r),
        None => (false, s),
    };
    let (ip, fp) = match body.split_once('.') {
        Some((a, b)) => (a, b),
        None => (body, ""),
    };
    if ip.is_empty() || !ip.bytes().all(|b| b.is_ascii_digit()) || !fp.bytes().all(|b| b.is_ascii_digit()) {
        return None;
    }
    if body.contains('.') && fp.is_empty() {
        return None;
    }
    let mut n: i128 = 0;
    for b in ip.bytes().chain(fp.bytes()) {
        n = n.checked_mul(10)?.checked_add((b - b'0') as i128)?;
    }
    let d = 10i128.checked_pow(fp.len() as u32)?;
    Q::new(if neg { -n } else { n }, d)
}

// ---- what evalexpr computes with ----
#[derive(Clone, Copy, Debug)]
pub enum V {
    I(i64),
    F(f64),
}
impl V {
    pub fn f(self) -> f64 {
        match self {
            V::I(i) => i as f64,
            V::F(x) => x,
        }
    }
}
pub struct Ev {
    /// the typed value (mirror of evalexpr's `Value::Int` / `Value::Float`)
    pub v: V,
    /// the exact value, when it fits
    pub q: Option<Q>,
    /// a bound on |v - exact| (0 for integer-typed values)
    pub err: f64,
}
const U: f64 = 1.1102230246251565e-16; // 2^-53

fn as_float(x: &Ev) -> (f64, f64) {
    match x.v {
        V::I(i) => {
            let h = i as f64;
            (h, if i.unsigned_abs() >= (1u64 << 53) { h.abs() * U } else { 0.0 })
        }
        V::F(h) => (h, x.err),
    }
}
/// Err(()) = a checked `i64` operation overflows: evalexpr must fail
pub fn eval(e: &E) -> Result<Ev, ()> {
    Ok(match e {
        E::Int(s) => match s.parse::<i64>() {
            Ok(i) => Ev { v: V::I(i), q: Q::new(i as i128, 1), err: 0.0 },
            Err(_) => {
                let h: f64 = s.parse().map_err(|_| ())?;
                Ev { v: V::F(h), q: parse_decimal_exact(s), err: h.abs() * U }
            }
        },
        E::Dec(s) => {
            let h: f64 = s.parse().map_err(|_| ())?;
            Ev { v: V::F(h), q: parse_decimal_exact(s), err: h.abs() * U }
        }
        E::Add(a, b) | E::Sub(a, b) => {
            let sub = matches!(e, E::Sub(..));
            let (x, y) = (eval(a)?, eval(b)?);
            let q = match (x.q, y.q) {
                (Some(p), Some(r)) => if sub { r.neg().and_then(|r| p.add(r)) } else { p.add(r) },
                _ => None,
            };
            if let (V::I(i), V::I(j)) = (x.v, y.v) {
                let r = if sub { i.checked_sub(j) } else { i.checked_add(j) }.ok_or(())?;
                Ev { v: V::I(r), q, err: 0.0 }
            } else {
                let ((ha, ea), (hb, eb)) = (as_float(&x), as_float(&y));
                let h = if sub { ha - hb } else { ha + hb };
                Ev { v: V::F(h), q, err: ea + eb + h.abs() * U }
            }
        }
        E::Mul(a, b) => {
            let (x, y) = (eval(a)?, eval(b)?);
            let q = match (x.q, y.q) {
                (Some(p), Some(r)) => p.mul(r),
                _ => None,
            };
            if let (V::I(i), V::I(j)) = (x.v, y.v) {
                Ev { v: V::I(i.checked_mul(j).ok_or(())?), q, err: 0.0 }
            } else {
                let ((ha, ea), (hb, eb)) = (as_float(&x), as_float(&y));
                let h = ha * hb;
                Ev { v: V::F(h), q, err: ha.abs() * eb + hb.abs() * ea + ea * eb + h.abs() * U }
            }
        }
        E::Neg(a) => {
            let x = eval(a)?;
            let q = x.q.and_then(|p| p.neg());
            match x.v {
                V::I(i) => Ev { v: V::I(i.checked_neg().ok_or(())?), q, err: 0.0 },
                V::F(h) => Ev { v: V::F(-h), q, err: x.err },
            }
        }
        E::Pow(a, n) => {
            let x = eval(a)?;
            let k: u32 = n.parse().map_err(|_| ())?;
            let (ha, ea) = as_float(&x);
            let h = ha.powf(k as f64);
            let slope = if k == 0 { 0.0 } else { k as f64 * (ha.abs() + ea).powi(k as i32 - 1) };
            Ev { v: V::F(h), q: x.q.and_then(|p| p.pow(k)), err: slope * ea * 1.0000001 + h.abs() * 4.0 * U }
        }
    })
}

fn close(out: f64, want: f64, rel: f64, abs: f64) -> bool {
    if want.is_nan() {
        return out.is_nan();
    }
    if want.is_infinite() {
        return out == want;
    }
    (out - want).abs() <= rel * want.abs() + abs
}
/// the verdict on a printed result when only closeness is demanded: the text must read as a
/// number within relative error 1e-9 of the typed `f64` evaluation, and (when the exact value
/// fits) within the rigorous rounding bound (+ 1e-9 relative) of the exact value
pub fn approx_ok(ev: &Ev, text: &str) -> bool {
    let out: f64 = match text.parse() {
        Ok(x) => x,
        Err(_) => return false,
    };
    let hat = ev.v.f();
    if !close(out, hat, 1e-9, 0.0) {
        return false;
    }
    if let Some(q) = ev.q {
        if hat.is_finite() && ev.err.is_finite() {
            return close(out, q.to_f64(), 1e-9, 2.0 * ev.err + f64::MIN_POSITIVE);
        }
    }
    true
}
