//! Scripted commands registered in the real runner (mirror of lean/DuckModel/Scripted.lean):
//! every invocation is logged and consumes the next result of a queue; an exhausted queue
//! yields Exit(None).  The k-th invocation can raise the halt flag.
use crate::wire::*;
use duckscript::types::command::{Command, CommandInvocationContext, CommandResult, GoToValue};
use duckscript::types::env::Env;
use duckscript::types::error::ScriptError;
use duckscript::types::runtime::Context;
use std::cell::RefCell;
use std::collections::VecDeque;
use std::rc::Rc;
use std::sync::atomic::{AtomicBool, Ordering};
use std::sync::Arc;

pub struct Shared {
    pub queue: VecDeque<CommandResult>,
    pub log: Vec<(String, Vec<String>, usize)>,
    pub invocations: usize,
    pub halt_at: Option<usize>,
    /// the embedder's own handle on the flag; `None` = the command raises the flag through
    /// `context.env.halt` and nobody but the run's Env holds it
    pub halt: Option<Arc<AtomicBool>>,
    /// the command puts a NEW flag (already raised) into `context.env.halt` instead of raising the
    /// one that is there (an embedder's command wiring in its own cancel token)
    pub replace_flag: bool,
}

#[derive(Clone)]
pub struct Scripted {
    pub name: String,
    pub shared: Rc<RefCell<Shared>>,
}

impl Command for Scripted {
    fn name(&self) -> String {
        self.name.clone()
    }
    fn clone_and_box(&self) -> Box<dyn Command> {
        Box::new(self.clone())
    }
    fn run(&self, ctx: CommandInvocationContext) -> CommandResult {
        let mut sh = self.shared.borrow_mut();
        sh.invocations += 1;
        if sh.halt_at == Some(sh.invocations) {
            match &sh.halt {
                Some(h) => h.store(true, Ordering::SeqCst),
                None if sh.replace_flag => ctx.env.halt = Arc::new(AtomicBool::new(true)),
                None => ctx.env.halt.store(true, Ordering::SeqCst),
            }
        }
        sh.log.push((self.name.clone(), ctx.arguments.clone(), ctx.line));
        match sh.queue.pop_front() {
            Some(r) => r,
            None => CommandResult::Exit(None),
        }
    }
}

pub fn dec_result(t: &str) -> Option<CommandResult> {
    let f: Vec<&str> = t.split('/').collect();
    Some(match f[0] {
        "C" => CommandResult::Continue(dec_opt(f[1])?),
        "GL" => CommandResult::GoTo(dec_opt(f[1])?, GoToValue::Label(dec_str(f[2])?)),
        "GN" => CommandResult::GoTo(dec_opt(f[1])?, GoToValue::Line(f[2].parse().ok()?)),
        "E" => CommandResult::Error(dec_str(f[1])?),
        "X" => CommandResult::Crash(dec_str(f[1])?),
        "Q" => CommandResult::Exit(dec_opt(f[1])?),
        _ => return None,
    })
}

pub fn enc_vars(vars: &std::collections::HashMap<String, String>) -> String {
    let mut items: Vec<String> = vars.iter().map(|(k, v)| format!("{}={}", enc_str(k), enc_str(v))).collect();
    items.sort();
    if items.is_empty() { "-".to_string() } else { items.join(",") }
}

pub fn dec_vars(t: &str) -> Vec<(String, String)> {
    if t == "-" {
        return vec![];
    }
    t.split(',').map(|kv| {
        let p: Vec<&str> = kv.split('=').collect();
        (dec_str(p[0]).unwrap(), dec_str(p[1]).unwrap())
    }).collect()
}

pub struct Sink;
impl std::io::Write for Sink {
    fn write(&mut self, b: &[u8]) -> std::io::Result<usize> {
        Ok(b.len())
    }
    fn flush(&mut self) -> std::io::Result<()> {
        Ok(())
    }
}

/// a writer that accepts everything and FAILS on flush (a closed pipe behind a buffer): the
/// outcome of a run never depends on the embedder's writers being flushable
pub struct FailFlush;
impl std::io::Write for FailFlush {
    fn write(&mut self, b: &[u8]) -> std::io::Result<usize> {
        Ok(b.len())
    }
    fn flush(&mut self) -> std::io::Result<()> {
        Err(std::io::Error::new(std::io::ErrorKind::BrokenPipe, "flush refused"))
    }
}

/// run `text` (or the file at `file`) with scripted commands; canonical outcome string
pub fn run_scripted(text: &str, file: Option<&str>, names: &[String], queue: &str, halt_at: Option<usize>, vars: &[(String, String)]) -> String {
    run_scripted_with(text, file, names, queue, halt_at, vars, &[])
}

/// `real`: SDK commands (by one of their names) registered next to the scripted ones, taken from
/// a loaded SDK context — they keep all their own spellings, do not log and do not use the queue
pub fn run_scripted_with(text: &str, file: Option<&str>, names: &[String], queue: &str, halt_at: Option<usize>, vars: &[(String, String)], real: &[&str]) -> String {
    let halt = Arc::new(AtomicBool::new(false));
    let q: VecDeque<CommandResult> = if queue == "-" || queue.is_empty() { VecDeque::new() } else { queue.split(',').map(|t| dec_result(t).unwrap()).collect() };
    // who holds the flag: 0 = the embedder keeps a handle and raises it through that; 1 = the
    // command raises it through `context.env.halt` while the embedder still holds a handle;
    // 2 = through `context.env.halt`, the Env was built without an embedder flag (nobody else
    // holds it); 3 = the same with `run_script(.., None)` (default Env; texts without `!print`)
    // … 4 = a new, raised flag is put into `context.env.halt`
    let halt_mode = if !real.is_empty() { 0 } else if text.contains("!print") { (crate::hash_str(text) / 5) % 3 } else { (crate::hash_str(text) / 5) % 5 };
    // real `goto`s can loop without using a scripted result (the caller asks the total model first
    // and does not start such programs) — should a CHANGED implementation loop where the model ends,
    // the embedder's flag is raised after 3 s and the cut-short run is compared like any other
    let finished = Arc::new(AtomicBool::new(false));
    if !real.is_empty() {
        let (h, f) = (halt.clone(), finished.clone());
        std::thread::spawn(move || {
            for _ in 0..300 {
                std::thread::sleep(std::time::Duration::from_millis(10));
                if f.load(std::sync::atomic::Ordering::SeqCst) {
                    return;
                }
            }
            h.store(true, std::sync::atomic::Ordering::SeqCst);
        });
    }
    let shared = Rc::new(RefCell::new(Shared { queue: q, log: vec![], invocations: 0, halt_at, halt: if halt_mode == 0 { Some(halt.clone()) } else { None }, replace_flag: halt_mode == 4 }));
    let mut context = Context::new();
    for n in names {
        context.commands.set(Box::new(Scripted { name: n.clone(), shared: shared.clone() })).unwrap();
    }
    if !real.is_empty() {
        let sdk = crate::sdkenv::sdk_context();
        for r in real {
            context.commands.set(sdk.commands.get(r).expect("SDK command").clone_and_box()).unwrap();
        }
    }
    for (k, v) in vars {
        context.variables.insert(k.clone(), v.clone());
    }
    // every shape of `Env::new(out, err, halt)`: the embedder's flag must be the one the runner
    // polls whichever writers are given (scripted commands print nothing; a shape without `out`
    // is only used for texts without a `!print` line)
    let shape = if text.contains("!print") || !real.is_empty() { 0 } else { crate::hash_str(text) % 5 };
    let flag = |keep: bool| if keep { Some(halt.clone()) } else { None };
    let keep = halt_mode <= 1 || halt_mode == 4;
    let env = match shape {
        0 => Env::new(Some(Box::new(Sink)), Some(Box::new(Sink)), flag(keep)),
        1 => Env::new(Some(Box::new(Sink)), None, flag(keep)),
        2 => Env::new(None, Some(Box::new(Sink)), flag(keep)),
        4 => Env::new(Some(Box::new(FailFlush)), Some(Box::new(FailFlush)), flag(keep)),
        _ => Env::new(None, None, flag(keep)),
    };
    let env = if halt_mode == 3 { None } else { Some(env) };
    let res = match file {
        Some(f) => duckscript::runner::run_script_file(f, context, env),
        None => duckscript::runner::run_script(text, context, env),
    };
    finished.store(true, std::sync::atomic::Ordering::SeqCst);
    let sh = shared.borrow();
    let log = sh.log.iter().map(|(n, a, l)| format!("{}@{}{}", enc_str(n), l, enc_list(a))).collect::<Vec<_>>().join(";");
    match res {
        Ok(ctx) => {
            format!("ok | VARS {} | LOG {}", enc_vars(&ctx.variables), log)
        }
        Err(ScriptError::Runtime(msg, meta)) => {
            let m = if msg.starts_with("crash#") || msg.starts_with("Exit with error code: ") { enc_str(&msg) } else { "runner-msg".to_string() };
            format!("fail {} {} | LOG {}", m, enc_meta(&meta.unwrap_or_default()), log)
        }
        Err(e) => format!("PARSEERR {}", enc_script_error(&e)),
    }
}


// ---------------------------------------------------------------- dynamic commands (`runm`)
// mirror of lean/DuckModel/DynScripted.lean: the command table can be changed by commands while
// a script runs, commands keep private state in Context.state, one Context goes from run to run

pub struct DynShared {
    pub queue: VecDeque<CommandResult>,
    pub log: Vec<(String, Vec<String>, usize)>,
}

#[derive(Clone)]
pub struct Dyn {
    pub name: String,
    pub aliases: Vec<String>,
    pub shared: Rc<RefCell<DynShared>>,
}

const DYN_STATE_KEY: &str = "c03";

impl Command for Dyn {
    fn name(&self) -> String {
        self.name.clone()
    }
    fn aliases(&self) -> Vec<String> {
        self.aliases.clone()
    }
    fn clone_and_box(&self) -> Box<dyn Command> {
        Box::new(self.clone())
    }
    fn run(&self, ctx: CommandInvocationContext) -> CommandResult {
        use duckscript::types::runtime::StateValue;
        let a = ctx.arguments.clone();
        self.shared.borrow_mut().log.push((self.name.clone(), a.clone(), ctx.line));
        let b = |x: bool| CommandResult::Continue(Some(if x { "true".to_string() } else { "false".to_string() }));
        match self.name.as_str() {
            "reg" => {
                if a.is_empty() {
                    return CommandResult::Continue(None);
                }
                let c = Dyn { name: a[0].clone(), aliases: a[1..].to_vec(), shared: self.shared.clone() };
                b(ctx.commands.set(Box::new(c)).is_ok())
            }
            "unreg" => {
                if a.is_empty() {
                    return CommandResult::Continue(None);
                }
                b(ctx.commands.remove(&a[0]))
            }
            "stput" => {
                if a.len() >= 2 {
                    if !matches!(ctx.state.get(DYN_STATE_KEY), Some(StateValue::SubState(_))) {
                        ctx.state.insert(DYN_STATE_KEY.to_string(), StateValue::SubState(std::collections::HashMap::new()));
                    }
                    if let Some(StateValue::SubState(m)) = ctx.state.get_mut(DYN_STATE_KEY) {
                        m.insert(a[0].clone(), StateValue::String(a[1].clone()));
                    }
                }
                CommandResult::Continue(None)
            }
            "vset" => {
                if a.len() >= 2 {
                    ctx.variables.insert(a[0].clone(), a[1].clone());
                }
                CommandResult::Continue(None)
            }
            "stget" => {
                if a.is_empty() {
                    return CommandResult::Continue(None);
                }
                match ctx.state.get(DYN_STATE_KEY) {
                    Some(StateValue::SubState(m)) => match m.get(&a[0]) {
                        Some(StateValue::String(v)) => CommandResult::Continue(Some(v.clone())),
                        _ => CommandResult::Continue(None),
                    },
                    _ => CommandResult::Continue(None),
                }
            }
            _ => match self.shared.borrow_mut().queue.pop_front() {
                Some(r) => r,
                None => CommandResult::Exit(None),
            },
        }
    }
}

/// `specs` = (name, aliases) registered in order before the first run (refusals ignored);
/// the scripts run one after the other on the Context the previous run returned
pub fn run_dyn(specs: &[(String, Vec<String>)], queue: &str, vars: &[(String, String)], texts: &[String]) -> String {
    use duckscript::types::runtime::StateValue;
    let q: VecDeque<CommandResult> = if queue == "-" || queue.is_empty() { VecDeque::new() } else { queue.split(',').map(|t| dec_result(t).unwrap()).collect() };
    let shared = Rc::new(RefCell::new(DynShared { queue: q, log: vec![] }));
    let mut context = Context::new();
    for (n, al) in specs {
        let _ = context.commands.set(Box::new(Dyn { name: n.clone(), aliases: al.clone(), shared: shared.clone() }));
    }
    for (k, v) in vars {
        context.variables.insert(k.clone(), v.clone());
    }
    let mut outs: Vec<String> = vec![];
    let mut last: Option<Context> = Some(context);
    for text in texts {
        let ctx = last.take().unwrap();
        let env = Env::new(Some(Box::new(Sink)), Some(Box::new(Sink)), None);
        match duckscript::runner::run_script(text, ctx, Some(env)) {
            Ok(c) => {
                outs.push(format!("ok VARS {}", enc_vars(&c.variables)));
                last = Some(c);
            }
            Err(ScriptError::Runtime(msg, meta)) => {
                let m = if msg.starts_with("crash#") || msg.starts_with("Exit with error code: ") { enc_str(&msg) } else { "runner-msg".to_string() };
                outs.push(format!("fail {} {}", m, enc_meta(&meta.unwrap_or_default())));
                break;
            }
            Err(e) => {
                outs.push(format!("PARSEERR {}", enc_script_error(&e)));
                break;
            }
        }
    }
    let log = shared.borrow().log.iter().map(|(n, a, l)| format!("{}@{}{}", enc_str(n), l, enc_list(a))).collect::<Vec<_>>().join(";");
    let mut line = format!("{} | LOG {}", outs.join(" || "), log);
    if let Some(c) = last {
        let mut e: Vec<String> = match c.state.get(DYN_STATE_KEY) {
            Some(StateValue::SubState(m)) => m.iter().map(|(k, v)| format!("{}={}", enc_str(k), match v { StateValue::String(s) => enc_str(s), _ => "?".to_string() })).collect(),
            _ => vec![],
        };
        e.sort();
        let dangling = c.commands.aliases.iter().filter(|(_, m)| !c.commands.commands.contains_key(*m)).count();
        line.push_str(&format!(" | STATE {} | NAMES {} | DANG {}", if e.is_empty() { "-".to_string() } else { e.join(",") }, enc_list(&c.commands.get_all_command_names()), dangling));
    }
    line
}
