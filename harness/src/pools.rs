//! Adversarial string pools shared by the generators.
use crate::rng::Rng;

pub const WS: [char; 25] = [
    '\u{9}', '\u{a}', '\u{b}', '\u{c}', '\u{d}', ' ', '\u{85}', '\u{a0}', '\u{1680}', '\u{2000}',
    '\u{2001}', '\u{2002}', '\u{2003}', '\u{2004}', '\u{2005}', '\u{2006}', '\u{2007}', '\u{2008}',
    '\u{2009}', '\u{200a}', '\u{2028}', '\u{2029}', '\u{202f}', '\u{205f}', '\u{3000}',
];

pub const SYNTAX: [char; 18] = [
    ':', '=', '"', '\\', '#', '!', '$', '%', '{', '}', ' ', '\t', '\r', '\n', 'n', 'r', 't', 'a',
];

/// (typographic quotes and guillemets: ordinary characters, not quotes)
pub const ODD: [char; 16] = [
    '\0', 'é', 'ß', '漢', '😀', '\u{200b}', '\u{feff}', '\u{7f}', 'Z', '0', '-', '.', '\u{201c}', '\u{201d}', '\u{2018}', '\u{ab}',
];

/// arbitrary text: mix of syntax characters, letters, multi-byte and white space
pub fn text(rng: &mut Rng, max_len: usize) -> String {
    // one text in fifty is long (buffers, block sizes, caps): up to 40 x the usual length
    let max_len = if rng.chance(1, 50) { max_len * 40 } else { max_len };
    let n = rng.below(max_len + 1);
    let mut s = String::new();
    for _ in 0..n {
        let k = rng.below(10);
        let c = if k < 4 {
            *rng.pick(&SYNTAX)
        } else if k < 7 {
            (b'a' + rng.below(26) as u8) as char
        } else if k < 8 {
            *rng.pick(&ODD)
        } else if k < 9 {
            *rng.pick(&WS)
        } else {
            char::from_u32(rng.below(0x11_0000) as u32).unwrap_or('x')
        };
        s.push(c);
    }
    s
}

/// a plain lower-case word
pub fn word(rng: &mut Rng, max_len: usize) -> String {
    let n = 1 + rng.below(max_len);
    (0..n).map(|_| (b'a' + rng.below(26) as u8) as char).collect()
}

pub const VALUES: [&str; 50] = [
    "", " ", "a", "a b", "  x  ", "${x}", "%{x}", "\\${x}", "${", "%", "$", "\\", "\\\\", "\"",
    "\"a b\"", "a\"b", "#", "a#b", "a #b", "=", "=x", "a=b", ":", "handle:abc", "and", "or", "(",
    ")", "not", "true", "false", "0", "no", "line1\nline2", "cr\rlf", "tab\there", "é漢😀",
    "\0", "x\u{a0}", "end ",
    // words that differ from a keyword / a falsy word only in letter case
    "AND", "Or", "And", "OR", "NOT", "True", "FALSE", "No", "Not", "End",
];

pub fn value(rng: &mut Rng) -> String {
    if rng.chance(1, 2) {
        rng.pick(&VALUES).to_string()
    } else {
        text(rng, 8)
    }
}
