#!/bin/sh
# bin/mutant_check.sh <worktree> <patch.diff> <Cxx> [tier]
# Self-test helper (never used by a registered check): applies a patch to a scratch worktree
# of /repo, builds a scratch copy of the harness against that worktree and runs the
# correspondence part of the check for property Cxx (the proofs do not depend on /repo except
# through the regenerated fragments, which this helper does not regenerate).
set -e
WT="$1"; PATCH="$2"; PID="$3"; TIER="${4:-quick}"
H=/tmp/hm-$(basename "$WT")
git -C "$WT" checkout -q -- . 
git -C "$WT" apply "$PATCH"
mkdir -p "$H"
rsync -a --delete --exclude target /verif/harness/ "$H/"
sed -i "s#\.\./repo-link#$WT#g" "$H/Cargo.toml"
(cd "$H" && CARGO_NET_OFFLINE=true cargo build --release --offline 2>&1 | grep -E '^error' -A8 | head -20)
if [ "$PID" = "C20" ]; then
  (cd "$H" && CARGO_NET_OFFLINE=true cargo build --release --offline --manifest-path "$WT/duckscript_cli/Cargo.toml" --target-dir "$H/target-cli" 2>&1 | grep -E '^error' -A8 | head -20)
fi
(cd /verif && timeout 1500 "$H/target/release/harness" check "$PID" "$TIER" "${VERIF_SEED:-1}" /verif/lean/.lake/build/bin/driver "/verif/work/mut-$PID.json" >/dev/null 2>&1)
python3 - "$PID" <<'PY'
import json,sys
r=json.load(open('/verif/work/mut-%s.json'%sys.argv[1]))
f=r['failures']
print("cases=%d failures=%d property_violations=%d"%(r['evaluations'],len(f),sum(1 for x in f if x['property_violation'])))
for x in f[:2]:
    print("  case:",x['case'][:300]); print("  model:",x['model'][:200]); print("  impl :",x['impl'][:200])
import os
tag=os.environ.get("CORPUS_TAG")
if tag and f:
    d='/verif/corpus/%s'%sys.argv[1]
    os.makedirs(d,exist_ok=True)
    seen=[]
    for x in f:
        if x['request'] not in seen and len(x['request'])<4000: seen.append(x['request'])
    with open('%s/%s.case'%(d,tag),'w') as fh:
        fh.write("# inputs on which the seeded change %s makes the implementation violate %s (found by the check itself)\n"%(tag,sys.argv[1]))
        for r in seen[:4]: fh.write(r+"\n")
PY
git -C "$WT" checkout -q -- .
