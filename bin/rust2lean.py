"""bin/rust2lean.py — a small translator from a subset of Rust to Lean 4, used by the scanner
fragments (bin/fragments/scanner_*.py).

The subset is what the hand-written character scanners of duckscript are made of: the body of a
loop over characters, consisting of nested `if` / `else if` / `else` statements whose conditions
combine boolean locals, boolean parameters (flags) and comparisons of the current character with
character literals (`==`, `!=`, `&&`, `||`, `!`, parentheses), and of the statements

    <local> = true | false ;          <buffer>.push(<char literal> | <the current character>) ;
    <buffer>.push_str("<literal>") ;  index -= 1 ;   index = end_index ;   <found_end> = true ;
    break ;                           return Err(ScriptError::<Kind>(…)) ;

The statement list is executed SYMBOLICALLY along every path (continuation style: what follows an
`if` is executed in each of its branches, so an early `break` / `return` in one branch is exact),
which turns the imperative body into one expression: a tree of conditionals whose leaves are
`continue with this state`, `break with this state, this remaining input and this found_end`, or
`error of this kind`.  The index is rendered in suffix form: nothing done = the characters after
the current one remain, `index -= 1` = the current character is given back, `index = end_index` =
nothing remains.

Two further executors below serve `expand_by_wrapper` (buffers, small counters, helper calls)
and `eval_condition_for_slice` (a token loop with `match`, `Option<bool>` / integer / enum locals,
early returns and a recursive call on a slice; it has its own parser for whole function bodies).

Anything outside the subset raises SystemExit (the caller then falls back, see bin/extract.py)."""
import re

def fail(msg):
    raise SystemExit("rust2lean: " + msg)

# ---------------------------------------------------------------- locating code

def fn_body(src, name):
    m = re.search(r"fn %s\s*(<[^>]*>)?\s*\(" % re.escape(name), src)
    if not m:
        return None
    i = src.index("{", _match_paren(src, m.end() - 1))
    return src[i:_match_brace(src, i) + 1]

def _match_paren(src, i):
    depth = 0
    j = i
    while j < len(src):
        if src[j] == "(": depth += 1
        elif src[j] == ")":
            depth -= 1
            if depth == 0: return j
        j += 1
    fail("unbalanced parentheses")

def _match_brace(src, i):
    """index of the `}` matching the `{` at i (character and string literals skipped)"""
    depth = 0
    j = i
    while j < len(src):
        ch = src[j]
        if ch == "'":
            m = re.match(r"'(\\.|[^'\\])'", src[j:])
            if m:
                j += m.end(); continue
        if ch == '"':
            m = re.match(r'"(\\.|[^"\\])*"', src[j:])
            if m:
                j += m.end(); continue
        if src.startswith("//", j):
            j = src.index("\n", j); continue
        if ch == "{": depth += 1
        elif ch == "}":
            depth -= 1
            if depth == 0: return j
        j += 1
    fail("unbalanced braces")

def block_after(body, header):
    """the `{ … }` block that follows the first occurrence of `header`"""
    k = body.find(header)
    if k < 0:
        return None
    i = body.index("{", k + len(header))
    return body[i:_match_brace(body, i) + 1]

# ---------------------------------------------------------------- tokens

TOKEN = re.compile(r"""
    \s+ | //[^\n]* |
    (?P<char>'(\\.|[^'\\])') |
    (?P<str>"(\\.|[^"\\])*") |
    (?P<id>[A-Za-z_][A-Za-z_0-9]*) |
    (?P<num>[0-9]+) |
    (?P<op>==|=>|!=|&&|\|\||\+=|-=|::|\.\.|>=|<=|[{}()\[\];.,!=&<>+\-:?*|])
""", re.X)

def tokenize(text):
    out, i = [], 0
    while i < len(text):
        m = TOKEN.match(text, i)
        if not m:
            fail("cannot tokenize at: %r" % text[i:i + 30])
        i = m.end()
        for kind in ("char", "str", "id", "num", "op"):
            if m.group(kind) is not None:
                out.append((kind, m.group(kind)))
                break
    return out

ESC = {"n": "\n", "r": "\r", "t": "\t", "\\": "\\", "'": "'", '"': '"', "0": "\0"}

def unescape(body):
    out, i = [], 0
    while i < len(body):
        if body[i] == "\\":
            if body[i + 1] not in ESC:
                fail("escape \\%s is not supported" % body[i + 1])
            out.append(ESC[body[i + 1]]); i += 2
        else:
            out.append(body[i]); i += 1
    return "".join(out)

# ---------------------------------------------------------------- parser

class P:
    def __init__(self, toks):
        self.t, self.i = toks, 0
    def peek(self, k=0):
        return self.t[self.i + k] if self.i + k < len(self.t) else ("eof", "")
    def take(self, val=None):
        tok = self.peek()
        if val is not None and tok[1] != val:
            fail("expected %r, found %r" % (val, tok[1]))
        self.i += 1
        return tok
    def at(self, *vals):
        return all(self.peek(k)[1] == v for k, v in enumerate(vals))

def parse_block(text):
    p = P(tokenize(text))
    b = _block(p)
    if p.peek()[0] != "eof":
        fail("trailing tokens after the block")
    return b

def _block(p):
    p.take("{")
    out = []
    while not p.at("}"):
        out.append(_stmt(p))
    p.take("}")
    return out

def _stmt(p):
    if p.at("if"):
        return _if(p)
    if p.at("let"):
        p.take(); name = p.take()[1]; p.take("=")
        expr = []
        while not p.at(";"):
            expr.append(p.take()[1])
        p.take(";")
        return ("let", name, "".join(expr))
    if p.at("break"):
        p.take(); p.take(";")
        return ("break",)
    if p.at("continue"):
        p.take(); p.take(";")
        return ("continue",)
    if p.at("return"):
        p.take(); p.take("Err"); p.take("("); p.take("ScriptError"); p.take("::")
        kind = p.take()[1]
        depth = 1
        while depth:  # skip the payload up to the `)` closing Err(
            tok = p.take()[1]
            if tok == "(": depth += 1
            elif tok == ")": depth -= 1
        p.take(";")
        return ("reterr", kind)
    if p.peek()[0] == "id":
        name = p.take()[1]
        if p.at("."):
            p.take(); meth = p.take()[1]; p.take("(")
            tok = p.take()
            p.take(")"); p.take(";")
            if meth == "push":
                if tok[0] == "char":
                    return ("push", name, ("lit", unescape(tok[1][1:-1])))
                if tok[0] == "id":
                    return ("push", name, ("var", tok[1]))
            if meth == "push_str" and tok[0] == "str":
                return ("pushstr", name, unescape(tok[1][1:-1]))
            fail("unsupported call %s.%s(%s)" % (name, meth, tok[1]))
        if p.at("=") :
            p.take(); val = p.take()[1]; p.take(";")
            return ("assign", name, val)
        if p.at("+=") or p.at("-="):
            op = p.take()[1]; val = p.take()[1]; p.take(";")
            return ("opassign", name, op, val)
    fail("unsupported statement starting with %r" % (p.peek()[1],))

def _if(p):
    p.take("if")
    cond = _or(p)
    then = _block(p)
    els = None
    if p.at("else"):
        p.take()
        els = [_if(p)] if p.at("if") else _block(p)
    return ("if", cond, then, els)

# `||` / `&&` chains are nested to the right (the operators are associative on booleans and
# the operands have no side effects)
def _or(p):
    a = _and(p)
    if p.at("||"):
        p.take()
        return ("or", a, _or(p))
    return a

def _and(p):
    a = _not(p)
    if p.at("&&"):
        p.take()
        return ("and", a, _and(p))
    return a

def _not(p):
    if p.at("!"):
        p.take()
        return ("not", _not(p))
    return _atom(p)

def _atom(p):
    if p.at("("):
        p.take(); c = _or(p); p.take(")")
        return c
    tok = p.take()
    if tok[0] == "id":
        if p.at("==") or p.at("!="):
            op = p.take()[1]; rhs = p.take()
            if rhs[0] != "char":
                fail("comparison of %s with a non-character" % tok[1])
            return ("cheq" if op == "==" else "chne", tok[1], unescape(rhs[1][1:-1]))
        return ("var", tok[1])
    fail("unsupported condition atom %r" % (tok[1],))

# ---------------------------------------------------------------- symbolic execution

class Config:
    def __init__(self, state_var, char_var, rest_var, flags_var, locals, flags, errors, buffer, buffer_field, found_end, ret_err, char_name="character"):
        self.__dict__.update(locals_=locals, state_var=state_var, char_var=char_var, rest_var=rest_var, flags_var=flags_var, flags=flags,
                             errors=errors, buffer=buffer, buffer_field=buffer_field, found_end=found_end, ret_err=ret_err, char_name=char_name)

class Env:
    def __init__(self, upd=None, pushes=None, idx="keep", found_end=False):
        self.upd, self.pushes, self.idx, self.found_end = dict(upd or {}), list(pushes or []), idx, found_end
    def copy(self):
        return Env(self.upd, self.pushes, self.idx, self.found_end)

def translate(stmts, cfg):
    return _exec(list(stmts), Env(), cfg)

def _exec(stmts, env, cfg):
    if not stmts:
        return ("cont", env)
    s, rest = stmts[0], stmts[1:]
    kind = s[0]
    if kind == "if":
        c = _cond(s[1], env, cfg)
        if c is True:
            return _exec(list(s[2]) + rest, env.copy(), cfg)
        if c is False:
            return _exec(list(s[3] or []) + rest, env.copy(), cfg)
        return ("ite", c, _exec(list(s[2]) + rest, env.copy(), cfg), _exec(list(s[3] or []) + rest, env.copy(), cfg))
    if kind == "assign":
        name, val = s[1], s[2]
        if name == cfg.found_end and val in ("true", "false"):
            env.found_end = (val == "true")
        elif name in cfg.locals_ and val in ("true", "false"):
            env.upd[name] = (val == "true")
        elif name == "index" and val == "end_index":
            env.idx = "end"
        else:
            fail("unsupported assignment %s = %s" % (name, val))
        return _exec(rest, env, cfg)
    if kind == "opassign":
        if s[1:] == ("index", "-=", "1") and env.idx == "keep":
            env.idx = "back"
        else:
            fail("unsupported update %s %s %s" % s[1:])
        return _exec(rest, env, cfg)
    if kind == "push":
        if s[1] != cfg.buffer:
            fail("push into %s" % s[1])
        if s[2][0] == "var" and s[2][1] != cfg.char_name:
            fail("push of %s" % s[2][1])
        env.pushes.append(s[2])
        return _exec(rest, env, cfg)
    if kind == "pushstr":
        if s[1] != cfg.buffer:
            fail("push_str into %s" % s[1])
        env.pushes.extend(("lit", ch) for ch in s[2])
        return _exec(rest, env, cfg)
    if kind == "break":
        return ("brk", env)
    if kind == "reterr":
        if s[1] not in cfg.errors:
            fail("unknown error kind %s" % s[1])
        return ("err", cfg.errors[s[1]])
    fail("unsupported statement %r" % (kind,))

def _cond(c, env, cfg):
    """partial evaluation: locals assigned earlier on this path are constants"""
    k = c[0]
    if k == "var":
        name = c[1]
        if name in cfg.locals_:
            if name in env.upd:
                return env.upd[name]
            return ("local", cfg.locals_[name])
        if name in cfg.flags:
            return ("flag", cfg.flags[name])
        fail("unknown variable %s in a condition" % name)
    if k in ("cheq", "chne"):
        if c[1] != cfg.char_name:
            fail("comparison of %s" % c[1])
        return (k, c[2])
    if k == "not":
        a = _cond(c[1], env, cfg)
        if a is True: return False
        if a is False: return True
        if a[0] == "cheq": return ("chne", a[1])
        if a[0] == "chne": return ("cheq", a[1])
        return ("not", a)
    a, b = _cond(c[1], env, cfg), _cond(c[2], env, cfg)
    if k == "and":
        if a is False or b is False: return False
        if a is True: return b
        if b is True: return a
        return ("and", a, b)
    if k == "or":
        if a is True or b is True: return True
        if a is False: return b
        if b is False: return a
        return ("or", a, b)
    fail("unsupported condition")

# ---------------------------------------------------------------- rendering (Lean 4)

def lean_char(ch):
    return {"\\": "'\\\\'", "'": "'\\''", "\n": "'\\n'", "\r": "'\\r'", "\t": "'\\t'", "\0": "'\\x00'"}.get(ch, "'%s'" % ch)

class R:
    """rendering context (names of the Lean variables)"""
    def __init__(self, cfg):
        self.cfg = cfg

def _rcond(c, cfg, top=True):
    k = c[0]
    if k == "local": return "%s.%s" % (cfg.state_var, c[1])
    if k == "flag": return "%s.%s" % (cfg.flags_var, c[1])
    if k == "cheq": return "%s = %s" % (cfg.char_var, lean_char(c[1]))
    if k == "chne": return "%s ≠ %s" % (cfg.char_var, lean_char(c[1]))
    if k == "not":
        a = c[1]
        if a[0] == "local": return "%s.%s = false" % (cfg.state_var, a[1])
        if a[0] == "flag": return "%s.%s = false" % (cfg.flags_var, a[1])
        return "¬ (%s)" % _rcond(a, cfg)
    op = " ∧ " if k == "and" else " ∨ "
    a, b = _rcond(c[1], cfg, False), _rcond(c[2], cfg, False)
    if c[1][0] in ("and", "or"): a = "(%s)" % a
    if c[2][0] in ("and", "or") and c[2][0] != k: b = "(%s)" % b
    s = a + op + b
    return s

def _rstate(env, cfg):
    fields = []
    if env.pushes:
        items = ", ".join(cfg.char_var if p[0] == "var" else lean_char(p[1]) for p in env.pushes)
        fields.append("%s := %s.%s ++ [%s]" % (cfg.buffer_field, cfg.state_var, cfg.buffer_field, items))
    for name, val in env.upd.items():
        fields.append("%s := %s" % (cfg.locals_[name], "true" if val else "false"))
    if not fields:
        return cfg.state_var
    return "{ %s with %s }" % (cfg.state_var, ", ".join(fields))

_cfg = None

def render(expr, indent, cfg=None):
    global _cfg
    if cfg is not None:
        _cfg = cfg
    cfg = _cfg
    pad = "  " * indent
    k = expr[0]
    if k == "ite":
        return "%sif %s then\n%s\n%selse\n%s" % (pad, _rcond(expr[1], cfg), render(expr[2], indent + 1), pad, render(expr[3], indent + 1))
    if k == "cont":
        return "%s.cont %s" % (pad, _rstate(expr[1], cfg))
    if k == "brk":
        env = expr[1]
        rest = {"keep": cfg.rest_var, "back": "(%s :: %s)" % (cfg.char_var, cfg.rest_var), "end": "[]"}[env.idx]
        return "%s.brk %s %s %s" % (pad, _rstate(env, cfg), rest, "true" if env.found_end else "false")
    if k == "err":
        return "%s%s" % (pad, cfg.ret_err(expr[1]))
    fail("render: %r" % (k,))

# =============================================================================================
# second executor: loop bodies whose state is several buffers, small counters and booleans
# (`expand_by_wrapper`).  Every local is tracked as a SYMBOLIC Lean expression over the state at
# the start of the iteration; a leaf is the record of the locals that changed.
#
# additional statements:   <buf>.clear();   <buf>.push_str(&<buf2>);   <n> = 0 | 1;
#                          <b> = <char> == '<c>';     <helper>(&mut <buf>, <a>, <b>);
#                          if let Some(<x>) = <map>.get(&<buf>) { <buf2>.push_str(<x>) }
#                          a trailing expression statement `<b> = true` without `;`
# additional conditions:   <n> == 0 | 1,  <n> > 0,  <pred>(<char>)
# =============================================================================================

class GConfig:
    def __init__(self, state_var, char_var, char_name, bools, nats, bufs, helpers, preds, lookup):
        """bools / nats / bufs: Rust local -> Lean field; helpers: Rust fn -> Lean fn (first
        argument `&mut buf`, result = new buffer); preds: Rust fn(char) -> Lean predicate;
        lookup: (rust map name, lean expression template with {key})"""
        self.state_var, self.char_var, self.char_name = state_var, char_var, char_name
        self.bools, self.nats, self.bufs, self.helpers, self.preds, self.lookup = bools, nats, bufs, helpers, preds, lookup
    def field(self, name):
        for d in (self.bools, self.nats, self.bufs):
            if name in d: return d[name]
        fail("unknown local %s" % name)

def gparse_block(text):
    p = P(tokenize(text))
    b = _gblock(p)
    if p.peek()[0] != "eof":
        fail("trailing tokens after the block")
    return b

def _gblock(p):
    p.take("{")
    out = []
    while not p.at("}"):
        out.append(_gstmt(p))
    p.take("}")
    return out

def _gstmt(p):
    if p.at("if", "let"):
        # if let Some(x) = map.get(&key) { buf.push_str(x) } [;]
        p.take(); p.take(); p.take("Some"); p.take("("); x = p.take()[1]; p.take(")"); p.take("=")
        m = p.take()[1]; p.take("."); p.take("get"); p.take("("); p.take("&"); key = p.take()[1]; p.take(")")
        p.take("{"); buf = p.take()[1]; p.take("."); p.take("push_str"); p.take("("); y = p.take()[1]; p.take(")")
        if p.at(";"): p.take()
        p.take("}")
        if p.at(";"): p.take()
        if x != y: fail("if let: pushes %s, not the bound %s" % (y, x))
        return ("pushlookup", buf, m, key)
    if p.at("if"):
        p.take("if")
        cond = _gor(p)
        then = _gblock(p)
        els = None
        if p.at("else"):
            p.take()
            els = [_gstmt(p)] if p.at("if") else _gblock(p)
        return ("if", cond, then, els)
    tok = p.take()
    if tok[0] != "id":
        fail("unsupported statement starting with %r" % (tok[1],))
    name = tok[1]
    if p.at("."):
        p.take(); meth = p.take()[1]; p.take("(")
        if meth == "clear":
            p.take(")"); _semi(p)
            return ("clear", name)
        if meth == "push":
            a = p.take(); p.take(")"); _semi(p)
            if a[0] == "char": return ("push", name, ("lit", unescape(a[1][1:-1])))
            if a[0] == "id": return ("push", name, ("var", a[1]))
        if meth == "push_str":
            if p.at("&"):
                p.take(); other = p.take()[1]; p.take(")"); _semi(p)
                return ("pushbuf", name, other)
        fail("unsupported call %s.%s" % (name, meth))
    if p.at("("):
        # helper(&mut buf, a, b)
        p.take(); p.take("&"); p.take("mut"); buf = p.take()[1]
        args = []
        while p.at(","):
            p.take(); args.append(p.take()[1])
        p.take(")"); _semi(p)
        return ("helper", name, buf, args)
    if p.at("="):
        p.take()
        a = p.take()
        if p.at("==") :
            p.take(); rhs = p.take()
            if a[0] != "id" or rhs[0] != "char": fail("unsupported comparison assignment")
            _semi(p)
            return ("assigncmp", name, a[1], unescape(rhs[1][1:-1]))
        _semi(p)
        return ("assign", name, a[1])
    fail("unsupported statement %s …" % name)

def _semi(p):
    if p.at(";"): p.take()
    elif not p.at("}"): fail("expected `;`")

def _gor(p):
    a = _gand(p)
    if p.at("||"):
        p.take(); return ("or", a, _gor(p))
    return a

def _gand(p):
    a = _gnot(p)
    if p.at("&&"):
        p.take(); return ("and", a, _gand(p))
    return a

def _gnot(p):
    if p.at("!"):
        p.take(); return ("not", _gnot(p))
    if p.at("("):
        p.take(); c = _gor(p); p.take(")"); return c
    tok = p.take()
    if tok[0] != "id": fail("unsupported condition atom %r" % (tok[1],))
    if p.at("("):
        p.take(); arg = p.take()[1]; p.take(")")
        return ("pred", tok[1], arg)
    if p.at("==") or p.at("!=") or p.at(">"):
        op = p.take()[1]; rhs = p.take()
        if rhs[0] == "char": return ("cheq" if op == "==" else "chne", tok[1], unescape(rhs[1][1:-1]))
        if rhs[0] == "num": return ("ncmp", tok[1], op, rhs[1])
        fail("unsupported comparison")
    return ("var", tok[1])

def gtranslate(stmts, cfg):
    return _gexec(list(stmts), {}, cfg)

def _val(env, name, cfg):
    return env.get(name, "%s.%s" % (cfg.state_var, cfg.field(name)))

def _gexec(stmts, env, cfg):
    if not stmts:
        return ("leaf", dict(env))
    s, rest = stmts[0], stmts[1:]
    k = s[0]
    if k == "if":
        c = _gcond(s[1], env, cfg)
        if c is True: return _gexec(list(s[2]) + rest, dict(env), cfg)
        if c is False: return _gexec(list(s[3] or []) + rest, dict(env), cfg)
        return ("ite", c, _gexec(list(s[2]) + rest, dict(env), cfg), _gexec(list(s[3] or []) + rest, dict(env), cfg))
    env = dict(env)
    if k == "clear":
        env[s[1]] = "[]"
    elif k == "push":
        item = cfg.char_var if s[2][0] == "var" else lean_char(s[2][1])
        if s[2][0] == "var" and s[2][1] != cfg.char_name: fail("push of %s" % s[2][1])
        env[s[1]] = "%s ++ [%s]" % (_paren(_val(env, s[1], cfg)), item)
    elif k == "pushbuf":
        env[s[1]] = "%s ++ %s" % (_paren(_val(env, s[1], cfg)), _paren(_val(env, s[2], cfg)))
    elif k == "pushlookup":
        if s[2] != cfg.lookup[0]: fail("lookup in %s" % s[2])
        env[s[1]] = "%s ++ %s" % (_paren(_val(env, s[1], cfg)), cfg.lookup[1].format(key=_paren(_val(env, s[3], cfg))))
    elif k == "helper":
        if s[1] not in cfg.helpers: fail("unknown helper %s" % s[1])
        args = " ".join(_paren(_val(env, a, cfg)) if a not in ("true", "false") else a for a in s[3])
        env[s[2]] = "%s %s %s" % (cfg.helpers[s[1]], _paren(_val(env, s[2], cfg)), args)
    elif k == "assign":
        if s[2] in ("true", "false") and s[1] in cfg.bools: env[s[1]] = s[2]
        elif s[2] in ("0", "1") and s[1] in cfg.nats: env[s[1]] = s[2]
        else: fail("unsupported assignment %s = %s" % (s[1], s[2]))
    elif k == "assigncmp":
        if s[2] != cfg.char_name or s[1] not in cfg.bools: fail("unsupported comparison assignment")
        env[s[1]] = "(%s == %s)" % (cfg.char_var, lean_char(s[3]))
    else:
        fail("unsupported statement %r" % (k,))
    return _gexec(rest, env, cfg)

def _paren(e):
    return e if re.match(r"^[\w.\[\]']+$", e) else "(%s)" % e

def _gcond(c, env, cfg):
    k = c[0]
    if k == "var":
        if c[1] not in cfg.bools: fail("non-boolean %s used as a condition" % c[1])
        v = _val(env, c[1], cfg)
        if v == "true": return True
        if v == "false": return False
        return ("b", v)
    if k in ("cheq", "chne"):
        if c[1] != cfg.char_name: fail("comparison of %s" % c[1])
        return (k, c[2])
    if k == "ncmp":
        v = _val(env, c[1], cfg)
        if v in ("0", "1"):
            n, m = int(v), int(c[3])
            return {"==": n == m, "!=": n != m, ">": n > m}[c[2]]
        return ("n", v, c[2], c[3])
    if k == "pred":
        if c[1] not in cfg.preds or c[2] != cfg.char_name: fail("unknown predicate %s" % c[1])
        return ("p", cfg.preds[c[1]])
    if k == "not":
        a = _gcond(c[1], env, cfg)
        if a is True: return False
        if a is False: return True
        return ("not", a)
    a, b = _gcond(c[1], env, cfg), _gcond(c[2], env, cfg)
    if k == "and":
        if a is False or b is False: return False
        if a is True: return b
        if b is True: return a
        return ("and", a, b)
    if a is True or b is True: return True
    if a is False: return b
    if b is False: return a
    return ("or", a, b)

def _grcond(c, cfg):
    k = c[0]
    if k == "b": return c[1]
    if k == "cheq": return "%s = %s" % (cfg.char_var, lean_char(c[1]))
    if k == "chne": return "%s ≠ %s" % (cfg.char_var, lean_char(c[1]))
    if k == "n": return "%s %s %s" % (c[1], {"==": "=", "!=": "≠", ">": ">"}[c[2]], c[3])
    if k == "p": return "%s %s" % (c[1], cfg.char_var)
    if k == "not":
        a = c[1]
        if a[0] == "b": return "%s = false" % a[1]
        return "¬ (%s)" % _grcond(a, cfg)
    op = " ∧ " if k == "and" else " ∨ "
    a, b = _grcond(c[1], cfg), _grcond(c[2], cfg)
    if c[1][0] in ("and", "or"): a = "(%s)" % a
    if c[2][0] in ("and", "or") and c[2][0] != k: b = "(%s)" % b
    return a + op + b

def grender(expr, indent, cfg):
    pad = "  " * indent
    if expr[0] == "ite":
        return "%sif %s then\n%s\n%selse\n%s" % (pad, _grcond(expr[1], cfg), grender(expr[2], indent + 1, cfg), pad, grender(expr[3], indent + 1, cfg))
    env = expr[1]
    if not env:
        return pad + cfg.state_var
    return "%s{ %s with %s }" % (pad, cfg.state_var, ", ".join("%s := %s" % (cfg.field(k), v) for k, v in env.items()))

# =============================================================================================
# third executor: a token loop with `match`, `Option<bool>` / integer / enum locals, early
# `return Ok(..)` / `return Err(..)` and a recursive call on a slice (`eval_condition_for_slice`,
# duckscript_sdk/src/utils/condition.rs).
#
# The parser below reads whole function bodies:
#   statements   let [mut] x = e ;   x = e ;   x += e ;   x -= e ;   if c {..} [else if .. | else {..}]
#                match e { pat => {..} | pat => stmt , … } [;]   for x in xs {..}   return e ;
#                a trailing expression without `;` (`Ok(e)`, `Err(e)`, an assignment)
#                let x = if c { e1 } else { e2 } ;   (lifted into control flow)
#   patterns     Enum::Variant   _   Ok(x)   Err(x)
#   expressions  true false None Some(e) Ok(e) Err(e) Enum::Variant "text" 123 x  f(e, …)
#                format!("text", …)   e.method(e, …)   !e   &e   e && e   e || e
#                e == e   e != e   e < e   e > e   e + n   e - n   xs[a..b]   (e)
# The executor tracks every local as a symbolic VALUE over the state at the start of the
# iteration (booleans, `Option<bool>`, integers in the form `field + constant`, enum
# constructors), folds what is known on the path (`Some(e).unwrap()` is `e`), and renders
#   * `match <enum local>`  as a Lean `match` with one arm per variant, in DECLARATION order
#     (wildcards expanded: Rust arms of a field-less enum are order-independent up to `_`),
#   * `match <self>(&xs[a..b]) { Ok(x) => .., Err(e) => .. }` as a range check (a slice out of
#     range panics in Rust: explicit `.panic` leaf) and a `match` on the evaluator parameter,
#   * `.unwrap()` of a value not known to be `Some` as a `match` with a `.panic` arm.
# Leaves: `.cont <state>` (end of the loop body), `.ret b` / `.ok b`, `.err kind`, `.panic`.
# =============================================================================================

def cparse_block(text):
    p = P(tokenize(text))
    b = _cblock(p)
    if p.peek()[0] != "eof":
        fail("trailing tokens after the block")
    return b

def _cblock(p):
    p.take("{")
    out = []
    while not p.at("}"):
        out.append(_cstmt(p))
    p.take("}")
    return out

def _cend(p):
    """end of a simple statement: `;`, or nothing right before `}` (trailing expression)"""
    if p.at(";"):
        p.take(); return True
    if p.at("}"):
        return False
    fail("expected `;`, found %r" % (p.peek()[1],))

def _cstmt(p):
    if p.at("let"):
        p.take()
        mut = False
        if p.at("mut"):
            p.take(); mut = True
        name = p.take()
        if name[0] != "id": fail("unsupported `let` pattern")
        p.take("=")
        e = _cexpr(p)
        p.take(";")
        return ("let", name[1], mut, e)
    if p.at("if"):
        return _cif(p)
    if p.at("match"):
        p.take()
        scrut = _cexpr(p)
        p.take("{")
        arms = []
        while not p.at("}"):
            pat = _cpat(p)
            p.take("=>")
            if p.at("{"):
                body = _cblock(p)
                if p.at(","): p.take()
            else:
                body = [_csimple(p, in_arm=True)]
                if p.at(","): p.take()
                elif not p.at("}"): fail("expected `,` after a match arm")
            arms.append((pat, body))
        p.take("}")
        if p.at(";"): p.take()
        return ("match", scrut, arms)
    if p.at("for"):
        p.take(); x = p.take()
        if x[0] != "id": fail("unsupported `for` pattern")
        p.take("in")
        it = _cexpr(p)
        return ("for", x[1], it, _cblock(p))
    return _csimple(p, in_arm=False)

def _csimple(p, in_arm):
    """return / assignment / expression statement; inside a match arm no terminator is read"""
    if p.at("return"):
        p.take()
        e = _cexpr(p)
        if not in_arm: _cend(p)
        return ("return", e)
    e = _cexpr(p)
    if p.at("=") or p.at("+=") or p.at("-="):
        op = p.take()[1]
        if e[0] != "id": fail("assignment to something that is not a local")
        rhs = _cexpr(p)
        if not in_arm: _cend(p)
        return ("assign", e[1], op, rhs)
    if in_arm:
        return ("expr", e)
    if _cend(p):
        fail("expression statement with `;` has no effect in the subset")
    return ("expr", e)

def _cif(p):
    p.take("if")
    cond = _cexpr(p)
    then = _cblock(p)
    els = None
    if p.at("else"):
        p.take()
        els = [_cif(p)] if p.at("if") else _cblock(p)
    return ("if", cond, then, els)

def _cpat(p):
    tok = p.take()
    if tok[0] != "id": fail("unsupported pattern %r" % (tok[1],))
    if tok[1] == "_": return ("pwild",)
    if p.at("::"):
        p.take(); v = p.take()[1]
        return ("pctor", tok[1], v)
    if tok[1] in ("Ok", "Err") and p.at("("):
        p.take(); x = p.take()
        if x[0] != "id": fail("unsupported pattern inside %s(..)" % tok[1])
        p.take(")")
        return ("pok" if tok[1] == "Ok" else "perr", x[1])
    fail("unsupported pattern %r" % (tok[1],))

def _cexpr(p):
    a = _cexpr_and(p)
    while p.at("||"):
        p.take(); a = ("bin", "||", a, _cexpr_and(p))
    return a

def _cexpr_and(p):
    a = _cexpr_cmp(p)
    while p.at("&&"):
        p.take(); a = ("bin", "&&", a, _cexpr_cmp(p))
    return a

def _cexpr_cmp(p):
    a = _cexpr_add(p)
    if p.peek()[1] in ("==", "!=", "<", ">"):
        op = p.take()[1]
        return ("bin", op, a, _cexpr_add(p))
    return a

def _cexpr_add(p):
    a = _cexpr_unary(p)
    while p.peek()[1] in ("+", "-"):
        op = p.take()[1]; a = ("bin", op, a, _cexpr_unary(p))
    return a

def _cexpr_unary(p):
    if p.at("!"):
        p.take(); return ("not", _cexpr_unary(p))
    if p.at("&"):
        p.take()
        if p.at("mut"): fail("`&mut` is outside the subset")
        return _cexpr_unary(p)          # a shared reference is the value itself
    return _cexpr_postfix(p)

def _cargs(p):
    p.take("(")
    args = []
    while not p.at(")"):
        args.append(_cexpr(p))
        if p.at(","): p.take()
        elif not p.at(")"): fail("expected `,` or `)` in an argument list")
    p.take(")")
    return args

def _cexpr_postfix(p):
    e = _cexpr_primary(p)
    while True:
        if p.at(".") :
            p.take(); m = p.take()
            if m[0] != "id": fail("unsupported field access")
            e = ("method", e, m[1], _cargs(p))
        elif p.at("["):
            p.take()
            lo = None if p.at("..") else _cexpr_add(p)
            if not p.at(".."): fail("indexing (not slicing) is outside the subset")
            p.take("..")
            hi = None if p.at("]") else _cexpr_add(p)
            p.take("]")
            e = ("slice", e, lo, hi)
        else:
            return e

def _cexpr_primary(p):
    tok = p.take()
    if tok[0] == "str": return ("lit_str", unescape(tok[1][1:-1]))
    if tok[0] == "num": return ("num", int(tok[1]))
    if tok[1] == "(":
        e = _cexpr(p); p.take(")"); return e
    if tok[1] == "if":
        p.i -= 1
        s = _cif(p)
        return ("ifexpr",) + s[1:]
    if tok[0] != "id": fail("unsupported expression starting with %r" % (tok[1],))
    name = tok[1]
    if name in ("true", "false"): return ("bool", name == "true")
    if name == "None": return ("none",)
    if name in ("Some", "Ok", "Err") and p.at("("):
        args = _cargs(p)
        if len(args) != 1: fail("%s(..) takes one argument" % name)
        return ({"Some": "some", "Ok": "ok", "Err": "errc"}[name], args[0])
    if p.at("::"):
        p.take(); v = p.take()[1]
        return ("path", name, v)
    if p.at("!") and p.peek(1)[1] == "(":
        p.take()
        return ("macro", name, _cargs(p))
    if p.at("("):
        return ("call", name, _cargs(p))
    return ("id", name)

class CConfig:
    def __init__(self, state_var, item_name, item_var, args_name, args_var, self_name, ev_var,
                 locals, enum_name, variants, errors, funcs):
        """locals: Rust local -> (Lean field, type) with type in bool / opt / int / nat / enum;
        variants: ordered list of (Rust variant, Lean constructor); errors: message text -> Lean
        error kind; funcs: Rust fn(Option<String>) -> bool  ->  Lean function"""
        self.state_var, self.item_name, self.item_var = state_var, item_name, item_var
        self.args_name, self.args_var, self.self_name, self.ev_var = args_name, args_var, self_name, ev_var
        self.locals, self.enum_name, self.variants, self.errors, self.funcs = locals, enum_name, variants, errors, funcs

class CEnv:
    def __init__(self, vals=None, dirty=None, binds=None, fresh=0):
        self.vals, self.dirty, self.binds, self.fresh = dict(vals or {}), list(dirty or []), dict(binds or {}), fresh
    def copy(self):
        return CEnv(self.vals, self.dirty, self.binds, self.fresh)
    def set(self, name, val):
        self.vals[name] = val
        if name not in self.dirty: self.dirty.append(name)

class _Panic(Exception):
    pass

class _NeedSome(Exception):
    def __init__(self, local): self.local = local

T, F = ("T",), ("F",)

def _ctype(v):
    return {"T": "bool", "F": "bool", "b": "bool", "and": "bool", "or": "bool", "not": "bool", "getD": "bool",
            "isNone": "bool", "streq": "bool", "icmp": "bool", "app": "bool", "none": "opt", "some": "opt", "o": "opt",
            "n": "num", "ctor": "enum", "e": "enum", "s": "str", "errv": "err"}[v[0]]

def _cnot(a):
    if a == T: return F
    if a == F: return T
    if a[0] == "not": return a[1]
    return ("not", a)

def _cand(a, b):
    if a == F or b == F: return F
    if a == T: return b
    if b == T: return a
    return ("and", a, b)

def _cor(a, b):
    if a == T or b == T: return T
    if a == F: return b
    if b == F: return a
    return ("or", a, b)

def _clocal(name, env, cfg):
    if name in env.vals: return env.vals[name]
    field, ty = cfg.locals[name]
    ref = "%s.%s" % (cfg.state_var, field)
    return {"bool": ("b", ref), "opt": ("o", ref), "enum": ("e", ref),
            "int": ("n", ref, 0, "int"), "nat": ("n", ref, 0, "nat")}[ty]

def ceval(e, env, cfg, strict=True):
    """symbolic value of an expression; `strict` is False in the right operand of `&&` / `||`
    (evaluated only sometimes: a panic there cannot be lifted out)"""
    k = e[0]
    if k == "bool": return T if e[1] else F
    if k == "num": return ("n", None, e[1], None)
    if k == "none": return ("none",)
    if k == "some":
        v = ceval(e[1], env, cfg, strict)
        if _ctype(v) not in ("bool", "str"): fail("Some(..) of an unsupported value")
        return ("some", v)
    if k == "path":
        if e[1] != cfg.enum_name or e[2] not in dict(cfg.variants): fail("unknown constant %s::%s" % (e[1], e[2]))
        return ("ctor", e[2], dict(cfg.variants)[e[2]])
    if k == "id":
        name = e[1]
        if name in env.binds: return env.binds[name]
        if name in cfg.locals: return _clocal(name, env, cfg)
        if name == cfg.item_name: return ("s", cfg.item_var)
        fail("unknown variable %s" % name)
    if k == "not":
        v = ceval(e[1], env, cfg, strict)
        if _ctype(v) != "bool": fail("`!` of a non-boolean")
        return _cnot(v)
    if k == "bin":
        op = e[1]
        if op in ("&&", "||"):
            a, b = ceval(e[2], env, cfg, strict), ceval(e[3], env, cfg, False)
            if _ctype(a) != "bool" or _ctype(b) != "bool": fail("`%s` of non-booleans" % op)
            return _cand(a, b) if op == "&&" else _cor(a, b)
        a = ceval(e[2], env, cfg, strict)
        if e[3][0] == "lit_str":
            if _ctype(a) != "str" or op not in ("==", "!="): fail("unsupported comparison with a string literal")
            v = ("streq", a[1], e[3][1])
            return v if op == "==" else ("not", v)
        b = ceval(e[3], env, cfg, strict)
        if op in ("+", "-"):
            if _ctype(a) != "num" or _ctype(b) != "num" or b[1] is not None: fail("unsupported arithmetic")
            if op == "-" and a[3] != "int": fail("subtraction on an unsigned local (can panic) is outside the subset")
            return ("n", a[1], a[2] + (b[2] if op == "+" else -b[2]), a[3])
        if _ctype(a) == "num" and _ctype(b) == "num" and b[1] is None:
            if a[1] is None:
                return T if {"==": a[2] == b[2], "!=": a[2] != b[2], "<": a[2] < b[2], ">": a[2] > b[2]}[op] else F
            if op == "!=": return ("not", ("icmp", "=", a, b[2]))
            return ("icmp", {"==": "="}.get(op, op), a, b[2])
        fail("unsupported comparison")
    if k == "lit_str":
        fail("a string literal is only supported as the right-hand side of a comparison or as an error text")
    if k == "method":
        m, args = e[2], e[3]
        if m == "to_string" and not args:
            v = ceval(e[1], env, cfg, strict)
            if _ctype(v) != "str": fail("to_string of a non-string")
            return v
        r = ceval(e[1], env, cfg, strict)
        if _ctype(r) != "opt": fail("unsupported method .%s" % m)
        if m == "unwrap_or" and len(args) == 1:
            d = ceval(args[0], env, cfg, strict)
            if _ctype(d) != "bool": fail("unwrap_or of a non-boolean")
            if r[0] == "some": return r[1]
            if r[0] == "none": return d
            return ("getD", r, d)
        if m in ("is_none", "is_some") and not args:
            v = T if r[0] == "none" else F if r[0] == "some" else ("isNone", r)
            return v if m == "is_none" else _cnot(v)
        if m == "unwrap" and not args:
            if r[0] == "some": return r[1]
            if not strict: fail("unwrap() in a short-circuited operand")
            if r[0] == "none": raise _Panic()
            if e[1][0] == "id" and e[1][1] in cfg.locals: raise _NeedSome(e[1][1])
            fail("unwrap() of a compound expression")
        fail("unsupported method .%s" % m)
    if k == "call":
        if e[1] in cfg.funcs and len(e[2]) == 1:
            a = ceval(e[2][0], env, cfg, strict)
            if a[0] == "none" or (a[0] == "some" and _ctype(a[1]) == "str"):
                return ("app", cfg.funcs[e[1]], a)
        fail("unsupported call of %s" % e[1])
    fail("unsupported expression %r" % (k,))

def _cerrkind(e, env, cfg):
    """the payload of `Err(..)`: a message text (mapped to its kind) or a passed-through error"""
    while e[0] == "method" and e[2] == "to_string" and not e[3]:
        e = e[1]
    if e[0] == "macro" and e[1] == "format" and e[2] and e[2][0][0] == "lit_str":
        text = e[2][0][1]
    elif e[0] == "lit_str":
        text = e[1]
    elif e[0] == "id" and env.binds.get(e[1], ("?",))[0] == "errv":
        return ("errpass", e[1])
    else:
        fail("unsupported error value")
    if text not in cfg.errors: fail("unknown error text %r" % text)
    return ("err", cfg.errors[text])

def ctranslate(stmts, cfg, mode, binds=None):
    """mode `step`: a loop body (falling off the end = next iteration); mode `final`: code whose
    last expression is the function's result"""
    return _cexec(list(stmts), CEnv(binds=binds), cfg, mode)

def _cresult(e, env, cfg):
    if e[0] == "ok":
        v = ceval(e[1], env, cfg)
        if _ctype(v) != "bool": fail("Ok(..) of a non-boolean")
        return ("ret", v)
    if e[0] == "errc":
        return _cerrkind(e[1], env, cfg)
    fail("unsupported result expression")

def _cexec(stmts, env, cfg, mode):
    if not stmts:
        if mode == "step": return ("cont", env)
        fail("control reaches the end of the function without a result")
    s, rest = stmts[0], stmts[1:]
    try:
        return _cexec1(s, rest, env.copy(), cfg, mode)
    except _Panic:
        return ("panic",)
    except _NeedSome as need:
        # `<local>.unwrap()` of a value that is not known: split on it, panic in the `None` arm
        var = "v%d" % env.fresh
        e2 = env.copy(); e2.fresh += 1
        scrut = ropt(_clocal(need.local, env, cfg))
        e2.vals[need.local] = ("some", ("b", var))      # known, not assigned: not marked dirty
        return ("matchopt", scrut, var, _cexec(stmts, e2, cfg, mode), ("panic",))

def _cexec1(s, rest, env, cfg, mode):
    k = s[0]
    if k == "let":
        if s[3][0] == "ifexpr":
            # let x = if c { .. e1 } else { .. e2 };   ==>   if c { .. let x = e1; } else { .. let x = e2; }
            def tail(block):
                if not block or block[-1][0] != "expr": fail("`if` expression without a value")
                return list(block[:-1]) + [("let", s[1], s[2], block[-1][1])]
            if s[3][3] is None: fail("`if` expression without `else`")
            return _cexec([("if", s[3][1], tail(s[3][2]), tail(s[3][3]))] + rest, env, cfg, mode)
        if s[2]: fail("a mutable local declared inside the translated code")
        env.binds[s[1]] = ceval(s[3], env, cfg)
        return _cexec(rest, env, cfg, mode)
    if k == "assign":
        name, op = s[1], s[2]
        if name not in cfg.locals: fail("assignment to %s" % name)
        ty = cfg.locals[name][1]
        rhs = s[3] if op == "=" else ("bin", op[0], ("id", name), s[3])
        v = ceval(rhs, env, cfg)
        vt = _ctype(v)
        if vt == "num":
            if ty not in ("int", "nat") or (v[3] is not None and v[3] != ty): fail("ill-typed assignment to %s" % name)
            if ty == "nat" and v[2] < 0: fail("negative value for an unsigned local")
            v = ("n", v[1], v[2], ty)
        elif vt == "opt":
            if ty != "opt" or (v[0] == "some" and _ctype(v[1]) != "bool"): fail("ill-typed assignment to %s" % name)
        elif vt != ty:
            fail("ill-typed assignment to %s" % name)
        env.set(name, v)
        return _cexec(rest, env, cfg, mode)
    if k == "if":
        c = ceval(s[1], env, cfg)
        if _ctype(c) != "bool": fail("non-boolean condition")
        if c == T: return _cexec(list(s[2]) + rest, env, cfg, mode)
        if c == F: return _cexec(list(s[3] or []) + rest, env, cfg, mode)
        return ("ite", c, _cexec(list(s[2]) + rest, env.copy(), cfg, mode), _cexec(list(s[3] or []) + rest, env.copy(), cfg, mode))
    if k == "return":
        return _cresult(s[1], env, cfg)
    if k == "expr":
        if rest or mode != "final": fail("an expression statement that is not the function's result")
        return _cresult(s[1], env, cfg)
    if k == "match":
        scrut, arms = s[1], s[2]
        if scrut[0] == "call" and scrut[1] == cfg.self_name:
            return _cmatch_self(scrut, arms, rest, env, cfg, mode)
        if scrut[0] != "id" or scrut[1] not in cfg.locals or cfg.locals[scrut[1]][1] != "enum":
            fail("`match` on something that is neither an enum local nor the recursive call")
        v = _clocal(scrut[1], env, cfg)
        def arm_for(variant):
            for pat, body in arms:
                if pat == ("pwild",) or pat == ("pctor", cfg.enum_name, variant):
                    return body
                if pat[0] != "pctor" or pat[1] != cfg.enum_name or pat[2] not in dict(cfg.variants):
                    fail("unsupported pattern in a match on %s" % cfg.enum_name)
            fail("match on %s does not cover %s" % (cfg.enum_name, variant))
        if v[0] == "ctor":
            return _cexec(list(arm_for(v[1])) + rest, env, cfg, mode)
        return ("matchenum", v[1], [(lean, _cexec(list(arm_for(rv)) + rest, env.copy(), cfg, mode)) for rv, lean in cfg.variants])
    fail("unsupported statement %r" % (k,))

def _cmatch_self(scrut, arms, rest, env, cfg, mode):
    a = scrut[2]
    if len(a) != 1 or a[0][0] != "slice" or a[0][1] != ("id", cfg.args_name) or a[0][2] is None or a[0][3] is None:
        fail("the recursive call is not on a slice `%s[a..b]`" % cfg.args_name)
    lo, hi = ceval(a[0][2], env, cfg), ceval(a[0][3], env, cfg)
    for b in (lo, hi):
        if _ctype(b) != "num" or b[3] == "int": fail("slice bounds must be unsigned locals")
    pats = [p[0] for p, _ in arms]
    if sorted(pats) != ["perr", "pok"]: fail("the match on the recursive call must have the arms Ok(x) and Err(e)")
    trees = {}
    for pat, body in arms:
        e2 = env.copy()
        e2.binds[pat[1]] = ("b", pat[1]) if pat[0] == "pok" else ("errv", pat[1])
        trees[pat[0]] = (pat[1], _cexec(list(body) + rest, e2, cfg, mode))
    return ("matchev", rnum(lo), rnum(hi), trees["pok"], trees["perr"])

# ------------------------------------------------------------- rendering of the third executor

def _atomic(s):
    return re.match(r"^[\w.']+$", s) is not None

def _par(s):
    return s if _atomic(s) or (s[0] == "(" and _match_paren(s, 0) == len(s) - 1) else "(%s)" % s

def lean_strlit(s):
    out = ['"']
    for ch in s:
        out.append({'"': '\\"', "\\": "\\\\", "\n": "\\n", "\t": "\\t", "\r": "\\r"}.get(ch, ch))
    return "".join(out) + '".toList'

def rnum(v):
    base, off = v[1], v[2]
    if base is None: return str(off) if off >= 0 else "(%d)" % off
    if off == 0: return base
    return "%s %s %d" % (base, "+" if off > 0 else "-", abs(off))

def ropt(v):
    if v[0] == "none": return "none"
    if v[0] == "some": return "some %s" % _par(rval(v[1]))
    return v[1]

def rval(v):
    """a value as a Lean term of its own type (booleans as `Bool`)"""
    k = v[0]
    if k == "T": return "true"
    if k == "F": return "false"
    if k in ("b", "e", "s"): return v[1]
    if k == "ctor": return v[2]
    if k == "and": return "(%s && %s)" % (rval(v[1]), rval(v[2]))
    if k == "or": return "(%s || %s)" % (rval(v[1]), rval(v[2]))
    if k == "not": return "(!%s)" % _par(rval(v[1]))
    if k == "getD": return "%s.getD %s" % (_par(ropt(v[1])), _par(rval(v[2])))
    if k == "isNone": return "%s.isNone" % _par(ropt(v[1]))
    if k == "streq": return "(%s == %s)" % (v[1], lean_strlit(v[2]))
    if k == "icmp": return "decide (%s %s %d)" % (rnum(v[2]), v[1], v[3])
    if k == "app": return "%s %s" % (v[1], _par(ropt(v[2])))
    if k in ("none", "some", "o"): return ropt(v)
    if k == "n": return rnum(v)
    fail("render: value %r" % (k,))

def rprop(v, top=True):
    """a boolean value as the condition of a Lean `if`"""
    k = v[0]
    if k == "streq": return "%s = %s" % (v[1], lean_strlit(v[2]))
    if k == "icmp": return "%s %s %d" % (rnum(v[2]), v[1], v[3])
    if k in ("and", "or"):
        a, b = rprop(v[1], False), rprop(v[2], False)
        if v[1][0] in ("and", "or") and v[1][0] != k: a = "(%s)" % a
        if v[2][0] in ("and", "or") and v[2][0] != k: b = "(%s)" % b
        return a + (" ∧ " if k == "and" else " ∨ ") + b
    if k == "not":
        a = v[1]
        if a[0] == "streq": return "%s ≠ %s" % (a[1], lean_strlit(a[2]))
        if a[0] in ("icmp", "and", "or"): return "¬ (%s)" % rprop(a)
        return "%s = false" % rval(a)
    return rval(v)

def crender(expr, indent, cfg, mode):
    pad = "  " * indent
    k = expr[0]
    if k == "ite":
        return "%sif %s then\n%s\n%selse\n%s" % (pad, rprop(expr[1]), crender(expr[2], indent + 1, cfg, mode), pad, crender(expr[3], indent + 1, cfg, mode))
    if k == "matchenum":
        out = "%smatch %s with" % (pad, expr[1])
        for ctor, tree in expr[2]:
            out += "\n%s| %s =>\n%s" % (pad, ctor, crender(tree, indent + 1, cfg, mode))
        return out
    if k == "matchopt":
        return "%smatch %s with\n%s| some %s =>\n%s\n%s| none =>\n%s" % (
            pad, expr[1], pad, expr[2], crender(expr[3], indent + 1, cfg, mode), pad, crender(expr[4], indent + 1, cfg, mode))
    if k == "matchev":
        lo, hi, (okv, okt), (errv, errt) = expr[1:]
        a = cfg.args_var
        out = "%sif %s ≤ %s ∧ %s ≤ %s.length then\n" % (pad, lo, hi, hi, a)
        out += "%s  match %s ((%s.drop %s).take (%s - %s)) with\n" % (pad, cfg.ev_var, a, _par(lo), hi, _par(lo))
        out += "%s  | .ok %s =>\n%s\n" % (pad, okv, crender(okt, indent + 2, cfg, mode))
        out += "%s  | .err %s =>\n%s\n" % (pad, errv, crender(errt, indent + 2, cfg, mode))
        out += "%s  | .panic =>\n%s    .panic\n" % (pad, pad)
        out += "%selse\n%s  .panic" % (pad, pad)
        return out
    if k == "cont":
        env = expr[1]
        if not env.dirty: return "%s.cont %s" % (pad, cfg.state_var)
        return "%s.cont { %s with %s }" % (pad, cfg.state_var, ", ".join(
            "%s := %s" % (cfg.locals[n][0], rval(env.vals[n])) for n in env.dirty))
    if k == "ret":
        return "%s%s %s" % (pad, ".ret" if mode == "step" else ".ok", _par(rval(expr[1])))
    if k == "err":
        return "%s.err .%s" % (pad, expr[1])
    if k == "errpass":
        return "%s.err %s" % (pad, expr[1])
    if k == "panic":
        return "%s.panic" % pad
    fail("render: %r" % (k,))

# =============================================================================================
# fourth executor: whole straight-line FUNCTIONS over a line (`&Vec<char>`) and a hand-moved index
# (the functions of duckscript/src/parser.rs built on `parse_next_value`).
#
# The translation is INDEX FAITHFUL and total: a function `fn f(..) -> Result<T, ScriptError>`
# becomes `def fGen (..) : IOut T'` (`IOut` of DuckModel/ParserIndexed.lean: `.ok v`, `.err kind`,
# `.panic`), with `.panic` produced exactly where Rust would unwind.
#
#   statements   let [mut] x [: T] = e ;   let (a, b) = e ;   x = e ;   x.f = e ;   x += n ;   x -= n ;
#                if c {..} [else if .. | else {..}]     if let Some(x) = e {..} [else {..}] [;]
#                match e { pat => {..} | pat => stmt|expr , … } [;]
#                for _i in a..b {..}      loop {..}      break ;      return e ;
#                x.push(e) ;  x.push_str(e) ;           a trailing expression (the value of the block)
#                x = match .. {..} ;  let x = if .. {..} else {..} ;  let x = match .. {..} ;
#                let x = f(..)? ;   x = f(..)? ;      (the early return of the `Err`)
#   patterns     Ok(x)  Ok((a, b))  Err(e)  Some(x)  None  _
#   expressions  literals (bool, char, "text", 123), locals, CONSTANTS (`static N: T = literal;`),
#                None Some(e) Ok(e) Err(e) (a, b)   x.f   xs[i]   f(e, …)   Type::new()  vec![]
#                Enum::Variant   Enum::Variant(e)   Struct { f, g: e }   &e   &mut x   !e
#                e && e   e || e   == != < > <= >=   e + n   e - n
#                .len() .is_empty() .clone() .to_string() .chars().collect() .trim() .trim_start()
#                .trim_end() .trim_start_matches(c|"s") .trim_end_matches(c) .starts_with(c|"s")
#                .is_some() .is_none() .unwrap()
#
# How things are rendered:
#   * every local is a symbolic VALUE (integers as `base + constant`, so `index += 1; … index -= 1`
#     folds and needs no underflow check; strings as a concatenation of literal pieces and
#     expressions; `Option`s as `none` / `some v` / an opaque expression; a struct local as the map
#     of its fields); what is known on the path is folded;
#   * `xs[i]`                    →  `match rd xs i with | none => .panic | some x => …`
#   * `i -= 1` not known ≥ 1     →  `match decr i with | none => .panic | some i' => …`
#   * a call `f(..)` of a function listed in the configuration → a call of its Lean counterpart
#     (a `…Gen` function of the same file, or the hand model's index-faithful function), the
#     `InstructionMetaInfo` arguments dropped; `match f(..) { Ok(p) => A, Err(e) => B }` →
#     `match <call> with | .panic => .panic | .err e => B | .ok p => A`  (a tuple `p` is taken
#     apart in the pattern); a `&mut Struct` argument comes back as a second component of `.ok`;
#   * `if x.is_none()` / `if x.is_some()` / `if let Some(v) = x` on an opaque option `x` →
#     `match x with | none => … | some v => …`, the value being KNOWN in either arm (so a later
#     `x.unwrap()` is `v` and needs no panic arm); `.unwrap()` of an opaque option anywhere else →
#     the same `match` with `.panic` in the `none` arm;
#   * `for _i in a..b { body }`  →  `match iFor (<fn>BodyGen params) (b - a) <state> with …`: the
#     range is evaluated once, the STATE is the tuple of the locals the body assigns (ordered by
#     type — Nat, Bool, Char, Str, Option, List — then by declaration, so neither a renamed local
#     nor reordered declarations change it); the body becomes a definition of its own with the
#     leaves `.next state` (end of the body), `.brk state` (`break`), `.err kind`, `.panic`;
#   * `loop { body }`            →  the same with `iLoop` and the fuel given in the configuration
#     (running out of fuel is `.panic`: the equality theorem shows it never happens);
#   * `Instruction { meta_info, instruction_type: X }` → `X` (the model has no meta info here).
# =============================================================================================

FPRELUDE = {
    "dropPrefixes": "/-- `str::trim_start_matches(\"p\")` for a non-empty literal `p`: the prefix `p` removed as often as it\n"
                    "    occurs (at most `l.length` times) -/\n"
                    "def dropPrefixes (p : Str) : Nat → Str → Str\n  | 0, l => l\n"
                    "  | n + 1, l => if p.isPrefixOf l then dropPrefixes p n (l.drop p.length) else l\n\n",
}

def camel(name):
    parts = name.strip("_").split("_")
    out = parts[0] + "".join(q.capitalize() for q in parts[1:])
    if out in ("end", "at", "from", "meta", "open", "then", "do", "fun", "let", "have", "show", "by", "in", "with", "match", "if", "else", "where", "def", "at", "s"):
        out += "_"
    return out

def fn_signature(src, name):
    """(parameters as [(name, type text without blanks)], return type text) of `fn name`"""
    m = re.search(r"fn %s\s*\(" % re.escape(name), src)
    if not m: return None
    close = _match_paren(src, m.end() - 1)
    params = []
    depth, cur = 0, ""
    for ch in src[m.end():close] + ",":
        if ch in "<([": depth += 1
        elif ch in ">)]": depth -= 1
        if ch == "," and depth == 0:
            if cur.strip():
                if ":" not in cur: fail("parameter without a type in %s" % name)
                n, t = cur.split(":", 1)
                params.append((n.strip(), re.sub(r"\s+", "", t)))
            cur = ""
        else:
            cur += ch
    brace = src.index("{", close)
    ret = re.sub(r"\s+", "", src[close + 1:brace])
    if ret.startswith("->"): ret = ret[2:]
    return params, ret

def constants(src):
    """`static NAME: type = literal;` / `const NAME: type = literal;` at the top level"""
    out = {}
    for m in re.finditer(r"^(?:pub\s+)?(?:static|const)\s+([A-Z_0-9]+)\s*:\s*([^=]+?)\s*=\s*(.+?);\s*$", src, re.M):
        toks = tokenize(m.group(3))
        if len(toks) == 1 and toks[0][0] == "char": out[m.group(1)] = ("char", unescape(toks[0][1][1:-1]))
        elif len(toks) == 1 and toks[0][0] == "str": out[m.group(1)] = ("lit_str", unescape(toks[0][1][1:-1]))
        elif len(toks) == 1 and toks[0][0] == "num": out[m.group(1)] = ("num", int(toks[0][1]))
    return out

# ------------------------------------------------------------------ parser of the fourth executor

def fparse_block(text):
    p = P(tokenize(text))
    b = _fblock(p)
    if p.peek()[0] != "eof": fail("trailing tokens after the block")
    return b

def _fblock(p):
    p.take("{")
    out = []
    while not p.at("}"):
        out.append(_fstmt(p))
    p.take("}")
    return out

def _fend(p, in_arm=False):
    if in_arm: return False
    if p.at(";"):
        p.take(); return True
    if p.at("}"): return False
    fail("expected `;`, found %r" % (p.peek()[1],))

def _fskip_type(p):
    depth = 0
    while True:
        t = p.peek()
        if t[0] == "eof": fail("unterminated type annotation")
        if depth == 0 and t[1] in ("=", ";"): return
        if t[1] in ("<", "(", "["): depth += 1
        if t[1] in (">", ")", "]"): depth -= 1
        p.take()

def _fstmt(p, in_arm=False):
    if p.at("let"):
        p.take()
        mut = False
        if p.at("mut"):
            p.take(); mut = True
        if p.at("("):
            p.take(); names = []
            while not p.at(")"):
                t = p.take()
                if t[0] != "id": fail("unsupported `let` pattern")
                names.append(t[1])
                if p.at(","): p.take()
            p.take(")")
            pat = ("ptuple", names)
        else:
            t = p.take()
            if t[0] != "id": fail("unsupported `let` pattern")
            pat = ("pid", t[1])
        if p.at(":"):
            p.take(); _fskip_type(p)
        if not p.at("="): fail("`let` without an initial value")
        p.take("=")
        e = _fexpr(p)
        p.take(";")
        return ("let", pat, mut, e)
    if p.at("if"):
        s = _fif(p)
        if p.at(";"): p.take()
        return s
    if p.at("match"):
        s = _fmatch(p)
        if p.at(";"): p.take()
        return ("match",) + s
    if p.at("for"):
        p.take(); x = p.take()
        if x[0] != "id": fail("unsupported `for` pattern")
        p.take("in")
        lo = _fexpr_add(p); p.take(".."); hi = _fexpr_add(p)
        return ("for", x[1], lo, hi, _fblock(p))
    if p.at("loop"):
        p.take()
        return ("loop", _fblock(p))
    if p.at("while"):
        fail("`while` is outside the subset")
    if p.at("break"):
        p.take(); _fend(p, in_arm)
        return ("break",)
    if p.at("continue"):
        fail("`continue` is outside the subset")
    if p.at("return"):
        p.take(); e = _fexpr(p); _fend(p, in_arm)
        return ("return", e)
    e = _fexpr(p)
    if p.at("=") or p.at("+=") or p.at("-="):
        op = p.take()[1]
        if e[0] == "id": target = e[1]
        elif e[0] == "field" and e[1][0] == "id": target = e[1][1] + "." + e[2]
        else: fail("assignment to something that is neither a local nor a field of a local")
        rhs = _fexpr(p)
        _fend(p, in_arm)
        return ("assign", target, op, rhs)
    if in_arm: return ("expr", e)
    if _fend(p): return ("exprstmt", e)
    return ("expr", e)

def _fif(p):
    p.take("if")
    if p.at("let"):
        p.take(); pat = _fpat(p); p.take("=")
        e = _fexpr(p, nostruct=True)
        then = _fblock(p)
        els = None
        if p.at("else"):
            p.take(); els = [_fif(p)] if p.at("if") else _fblock(p)
        return ("iflet", pat, e, then, els)
    cond = _fexpr(p, nostruct=True)
    then = _fblock(p)
    els = None
    if p.at("else"):
        p.take(); els = [_fif(p)] if p.at("if") else _fblock(p)
    return ("if", cond, then, els)

def _fmatch(p):
    p.take("match")
    scrut = _fexpr(p, nostruct=True)
    p.take("{")
    arms = []
    while not p.at("}"):
        pat = _fpat(p)
        p.take("=>")
        if p.at("{"):
            body = _fblock(p)
            if p.at(","): p.take()
        else:
            body = [_fstmt(p, in_arm=True)]
            if p.at(","): p.take()
            elif not p.at("}"): fail("expected `,` after a match arm")
        arms.append((pat, body))
    p.take("}")
    return (scrut, arms)

def _fpat(p):
    t = p.take()
    if t[0] != "id": fail("unsupported pattern %r" % (t[1],))
    if t[1] == "_": return ("pwild",)
    if t[1] == "None": return ("pnone",)
    if t[1] in ("Ok", "Err", "Some") and p.at("("):
        p.take()
        if p.at("("):
            p.take(); names = []
            while not p.at(")"):
                x = p.take()
                if x[0] != "id": fail("unsupported tuple pattern")
                names.append(x[1])
                if p.at(","): p.take()
            p.take(")"); p.take(")")
            if t[1] != "Ok": fail("tuple pattern inside %s(..)" % t[1])
            return ("poktuple", names)
        x = p.take()
        if x[0] != "id": fail("unsupported pattern inside %s(..)" % t[1])
        if p.at("mut"): fail("`mut` binding in a pattern")
        p.take(")")
        return ({"Ok": "pok", "Err": "perr", "Some": "psome"}[t[1]], x[1])
    fail("unsupported pattern %r" % (t[1],))

_NOSTRUCT = [False]

def _fexpr(p, nostruct=False):
    saved = _NOSTRUCT[0]
    _NOSTRUCT[0] = nostruct
    try:
        a = _fexpr_and(p)
        while p.at("||"):
            p.take(); a = ("bin", "||", a, _fexpr_and(p))
        return a
    finally:
        _NOSTRUCT[0] = saved

def _fexpr_and(p):
    a = _fexpr_cmp(p)
    while p.at("&&"):
        p.take(); a = ("bin", "&&", a, _fexpr_cmp(p))
    return a

def _fexpr_cmp(p):
    a = _fexpr_add(p)
    if p.peek()[1] in ("==", "!=", "<", ">", "<=", ">="):
        op = p.take()[1]
        return ("bin", op, a, _fexpr_add(p))
    return a

def _fexpr_add(p):
    a = _fexpr_unary(p)
    while p.peek()[1] in ("+", "-"):
        op = p.take()[1]; a = ("bin", op, a, _fexpr_unary(p))
    return a

def _fexpr_unary(p):
    if p.at("!"):
        p.take(); return ("not", _fexpr_unary(p))
    if p.at("&"):
        p.take()
        if p.at("mut"):
            p.take(); return ("refmut", _fexpr_unary(p))
        return _fexpr_unary(p)
    if p.at("*"):
        p.take(); return _fexpr_unary(p)
    return _fexpr_postfix(p)

def _fargs(p, open_="(", close=")"):
    p.take(open_)
    saved = _NOSTRUCT[0]; _NOSTRUCT[0] = False
    args = []
    while not p.at(close):
        args.append(_fexpr(p))
        if p.at(","): p.take()
        elif not p.at(close): fail("expected `,` or `%s` in an argument list" % close)
    p.take(close)
    _NOSTRUCT[0] = saved
    return args

def _fexpr_postfix(p):
    e = _fexpr_primary(p)
    while True:
        if p.at("."):
            p.take(); m = p.take()
            if m[0] == "num":
                e = ("proj", e, int(m[1]))
            elif m[0] != "id": fail("unsupported field access")
            elif p.at("("):
                e = ("method", e, m[1], _fargs(p))
            else:
                e = ("field", e, m[1])
        elif p.at("["):
            p.take()
            saved = _NOSTRUCT[0]; _NOSTRUCT[0] = False
            i = _fexpr(p)
            _NOSTRUCT[0] = saved
            if p.at(".."): fail("slicing is outside the subset")
            p.take("]")
            e = ("index", e, i)
        elif p.at("?"):
            p.take()
            e = ("try", e)
        else:
            return e

def _fexpr_primary(p):
    tok = p.take()
    if tok[0] == "str": return ("lit_str", unescape(tok[1][1:-1]))
    if tok[0] == "char": return ("char", unescape(tok[1][1:-1]))
    if tok[0] == "num": return ("num", int(tok[1]))
    if tok[1] == "(":
        saved = _NOSTRUCT[0]; _NOSTRUCT[0] = False
        e = _fexpr(p)
        if p.at(","):
            items = [e]
            while p.at(","):
                p.take()
                if p.at(")"): break
                items.append(_fexpr(p))
            e = ("tuple", items)
        p.take(")")
        _NOSTRUCT[0] = saved
        return e
    if tok[1] == "if":
        p.i -= 1
        s = _fif(p)
        return ("ifexpr", s)
    if tok[1] == "match":
        p.i -= 1
        return ("matchexpr",) + _fmatch(p)
    if tok[0] != "id": fail("unsupported expression starting with %r" % (tok[1],))
    name = tok[1]
    if name in ("true", "false"): return ("bool", name == "true")
    if name == "None": return ("none",)
    if name in ("Some", "Ok", "Err") and p.at("("):
        args = _fargs(p)
        if len(args) != 1: fail("%s(..) takes one argument" % name)
        return ({"Some": "some", "Ok": "ok", "Err": "errc"}[name], args[0])
    if p.at("::"):
        p.take(); v = p.take()[1]
        if p.at("("): return ("pathcall", name, v, _fargs(p))
        return ("path", name, v)
    if p.at("!") and p.peek(1)[1] in ("(", "["):
        p.take()
        return ("macro", name, _fargs(p) if p.at("(") else _fargs(p, "[", "]"))
    if p.at("("):
        return ("call", name, _fargs(p))
    if p.at("{") and not _NOSTRUCT[0] and name[0].isupper():
        p.take(); fields = []
        while not p.at("}"):
            f = p.take()
            if f[0] != "id": fail("unsupported struct literal")
            if p.at(":"):
                p.take(); fields.append((f[1], _fexpr(p)))
            else:
                fields.append((f[1], ("id", f[1])))
            if p.at(","): p.take()
            elif not p.at("}"): fail("expected `,` in a struct literal")
        p.take("}")
        return ("struct", name, fields)
    return ("id", name)

# ------------------------------------------------------------------ values of the fourth executor
#
#   ("nat", base | None, off)          ("cond", tree)          ("char", lean text)
#   ("str", [("lit", s) | ("e", lean text)])                  ("opt", elem type | None, state)
#        state = ("none",) | ("some", value) | ("opaque", lean text)
#   ("list", elem type, lean text)     ("tuple", [values])     ("struct", rust name, {field: value})
#   ("callres", lean text, callee)     ("err", lean text)      ("ity", lean text)  (InstructionType)
#   ("res_ok", value) / ("res_err", value)                     ("dropped",)  (meta info)
# cond trees:  T | F | ("b", Bool text) | ("p", Prop text) | ("not", c) | ("and", a, b) | ("or", a, b)

RANK = {"Nat": 0, "Bool": 1, "Char": 2, "Str": 3}

def ftype(v):
    k = v[0]
    if k == "nat": return "Nat"
    if k == "cond": return "Bool"
    if k == "char": return "Char"
    if k == "str": return "Str"
    if k == "opt":
        t = v[1]
        if t is None and v[2][0] == "some": t = ftype(v[2][1])
        return None if t is None else "Option %s" % _par(t)
    if k == "list": return None if v[1] is None else "List %s" % _par(v[1])
    if k == "ity": return "InstrType"
    if k == "tuple":
        ts = [ftype(x) for x in v[1]]
        return None if None in ts else " × ".join(_par(t) if "×" in t else t for t in ts)
    fail("a value of kind %s has no Lean type here" % k)

def frank(t):
    if t in RANK: return RANK[t]
    if t is None or t.startswith("Option"): return 4
    return 5

def fnat(v):
    base, off = v[1], v[2]
    if base is None: return str(off)
    if off == 0: return base
    if off > 0: return "%s + %d" % (base, off)
    fail("negative offset")

def fstr(v):
    parts = []
    for kind, x in v[1]:
        if kind == "lit" and parts and parts[-1][0] == "lit": parts[-1] = ("lit", parts[-1][1] + x)
        elif kind == "lit" and x == "": continue
        else: parts.append((kind, x))
    if not parts: return "[]"
    out = []
    for kind, x in parts:
        out.append("[%s]" % ", ".join(lean_char(c) for c in x) if kind == "lit" else x)
    return " ++ ".join(_fpar(x) if len(out) > 1 else x for x in out)

def _fpar(s):
    if re.match(r"^[\w.'!]+$", s) and not s.startswith("!"): return s
    if s[0] == "[" and s.endswith("]") and s.count("[") == 1: return s
    if s[0] == "(" and _match_paren(s, 0) == len(s) - 1: return s
    if s[0] == "{" and s.endswith("}"): return s
    return "(%s)" % s

def fcond_bool(c):
    """a condition as a Lean `Bool` term"""
    if c == T: return "true"
    if c == F: return "false"
    k = c[0]
    if k == "b": return c[1]
    if k == "p": return "decide (%s)" % c[1]
    if k == "not": return "!%s" % _fpar(fcond_bool(c[1]))
    return "(%s %s %s)" % (fcond_bool(c[1]), "&&" if k == "and" else "||", fcond_bool(c[2]))

def fcond_prop(c):
    """a condition as the condition of a Lean `if`"""
    k = c[0]
    if c == T: return "True"
    if c == F: return "False"
    if k == "b": return c[1]
    if k == "p": return c[1]
    if k == "not":
        a = c[1]
        if a[0] == "b": return "%s = false" % a[1] if re.match(r"^[\w.']+$", a[1]) else "(%s) = false" % a[1]
        if a[0] == "p" and a[2:] and a[2][0] in ("=",):
            return "%s ≠ %s" % (a[2][1], a[2][2])
        return "¬ (%s)" % fcond_prop(a)
    a, b = fcond_prop(c[1]), fcond_prop(c[2])
    if c[1][0] in ("and", "or") and c[1][0] != k: a = "(%s)" % a
    if c[2][0] in ("and", "or") and c[2][0] != k: b = "(%s)" % b
    return a + (" ∧ " if k == "and" else " ∨ ") + b

def fval(v):
    """a value as a Lean term"""
    k = v[0]
    if k == "nat": return fnat(v)
    if k == "cond": return fcond_bool(v[1])
    if k == "char": return v[1]
    if k == "str": return fstr(v)
    if k == "opt":
        st = v[2]
        if st[0] == "none": return "none"
        if st[0] == "some": return "some %s" % _fpar(fval(st[1]))
        return st[1]
    if k == "list": return v[2]
    if k == "tuple": return "(%s)" % ", ".join(fval(x) for x in v[1])
    if k in ("err", "ity"): return v[1]
    fail("a value of kind %s cannot be rendered" % k)

class FConfig:
    def __init__(self, consts, errors, structs, variants, callees, types, loop_fuel, wrappers):
        """consts: Rust constant -> AST literal; errors: ScriptError variant -> Lean PErr constructor;
        structs: Rust struct -> {"fields": [(rust field, lean field, lean type)], "lean": type name};
        variants: (Enum, Variant) -> function from argument values to a value;
        callees: Rust fn -> dict(lean, params [(name, type)], ret, flags) — how a call is rendered;
        types: Rust type text -> Lean type (None = dropped); loop_fuel: Rust fn -> Lean fuel text
        for its `loop`; wrappers: Rust struct names whose literal is rendered as one of its fields"""
        self.consts, self.errors, self.structs, self.variants = consts, errors, structs, variants
        self.callees, self.types, self.loop_fuel, self.wrappers = callees, types, loop_fuel, wrappers
        self.prelude_used = set()      # names of FPRELUDE definitions the translated text uses

class FEnv:
    def __init__(self, vals=None, order=None):
        self.vals, self.order = dict(vals or {}), list(order or [])
    def copy(self):
        return FEnv(self.vals, self.order)
    def declare(self, name, v):
        if name in self.order: self.order.remove(name)
        self.order.append(name)
        self.vals[name] = v
    def set(self, name, v):
        if name not in self.vals: fail("assignment to the undeclared %s" % name)
        self.vals[name] = v

class FCtx:
    def __init__(self, cfg, fn_name, mode, names, leanvars, aux, mutparam=None, state=None, svar=None):
        self.cfg, self.fn_name, self.mode, self.names, self.leanvars, self.aux = cfg, fn_name, mode, names, leanvars, aux
        self.mutparam, self.state, self.svar = mutparam, state, svar
        self.leaf_types = []
    def fresh(self, rust_name, ty):
        base = camel(rust_name) or "x"
        name, k = base, 1
        while name in self.names:
            k += 1; name = "%s%d" % (base, k)
        self.names.add(name)
        self.leanvars.append((name, ty))
        return name
    def sub(self, mode, state, svar):
        c = FCtx(self.cfg, self.fn_name, mode, self.names, self.leanvars, self.aux, self.mutparam, state, svar)
        return c

def fopaque(ty, text):
    """the symbolic value of a Lean variable / expression of the given Lean type"""
    if ty == "Nat": return ("nat", text, 0)
    if ty == "Bool": return ("cond", ("b", text))
    if ty == "Char": return ("char", text)
    if ty == "Str": return ("str", [("e", text)])
    if ty is not None and ty.startswith("Option "):
        inner = ty[len("Option "):]
        if inner.startswith("(") and inner.endswith(")"): inner = inner[1:-1]
        return ("opt", inner, ("opaque", text))
    if ty is not None and ty.startswith("List "):
        inner = ty[len("List "):]
        if inner.startswith("(") and inner.endswith(")"): inner = inner[1:-1]
        return ("list", inner, text)
    if ty == "InstrType": return ("ity", text)
    fail("no symbolic value for the Lean type %s" % ty)

def fstruct_opaque(cfg, sname, text):
    return ("struct", sname, {rf: fopaque(lt, "%s.%s" % (text, lf)) for rf, lf, lt in cfg.structs[sname]["fields"]})

def fstruct_render(cfg, v):
    info = cfg.structs[v[1]]
    return "{ %s }" % ", ".join("%s := %s" % (lf, fval(v[2][rf])) for rf, lf, lt in info["fields"])

class _Guard(Exception):
    """an expression needs a check before it has a value: ("rd", xs, i) | ("decr", i) | ("unwrap", opt text, lvalue)"""
    def __init__(self, what): self.what = what

def flvalue(e):
    if e[0] == "id": return e[1]
    if e[0] == "field" and e[1][0] == "id": return e[1][1] + "." + e[2]
    return None

def fget(name, env, ctx):
    if name in env.vals: return env.vals[name]
    if "." in name:
        base, f = name.split(".", 1)
        if base in env.vals and env.vals[base][0] == "struct" and f in env.vals[base][2]:
            return env.vals[base][2][f]
    if name in ctx.cfg.consts: return feval(ctx.cfg.consts[name], env, ctx)
    fail("unknown variable %s" % name)

def fput(name, v, env):
    if "." in name:
        base, f = name.split(".", 1)
        if base not in env.vals or env.vals[base][0] != "struct" or f not in env.vals[base][2]:
            fail("assignment to the unknown field %s" % name)
        fields = dict(env.vals[base][2]); fields[f] = v
        env.vals[base] = ("struct", env.vals[base][1], fields)
    else:
        env.set(name, v)

def fcmp(op, a, b):
    lop = {"==": "=", "!=": "≠", "<": "<", ">": ">", "<=": "≤", ">=": "≥"}[op]
    if a[0] == "nat" and b[0] == "nat":
        if a[1] is None and b[1] is None:
            return T if {"==": a[2] == b[2], "!=": a[2] != b[2], "<": a[2] < b[2], ">": a[2] > b[2], "<=": a[2] <= b[2], ">=": a[2] >= b[2]}[op] else F
        x, y = fnat(a), fnat(b)
    elif a[0] == "char" and b[0] == "char":
        if op not in ("==", "!="): fail("ordering of characters")
        x, y = a[1], b[1]
    elif a[0] == "str" and b[0] == "str":
        if op not in ("==", "!="): fail("ordering of strings")
        x, y = fstr(a), fstr(b)
    else:
        fail("unsupported comparison")
    if op == "!=": return ("not", ("p", "%s = %s" % (x, y), ("=", x, y)))
    return ("p", "%s %s %s" % (x, lop, y), (lop, x, y))

def feval(e, env, ctx, strict=True):
    cfg = ctx.cfg
    k = e[0]
    if k == "bool": return ("cond", T if e[1] else F)
    if k == "num": return ("nat", None, e[1])
    if k == "char": return ("char", lean_char(e[1]))
    if k == "lit_str": return ("str", [("lit", e[1])])
    if k == "none": return ("opt", None, ("none",))
    if k == "some":
        v = feval(e[1], env, ctx, strict)
        return ("opt", ftype(v), ("some", v))
    if k == "ok": return ("res_ok", feval(e[1], env, ctx, strict))
    if k == "errc": return ("res_err", feval(e[1], env, ctx, strict))
    if k == "tuple": return ("tuple", [feval(x, env, ctx, strict) for x in e[1]])
    if k == "id": return fget(e[1], env, ctx)
    if k == "refmut":
        fail("`&mut` outside a call argument")
    if k == "field":
        name = flvalue(e)
        if name is None: fail("unsupported field access")
        return fget(name, env, ctx)
    if k == "proj":
        v = feval(e[1], env, ctx, strict)
        if v[0] != "tuple" or e[2] >= len(v[1]): fail("unsupported projection")
        return v[1][e[2]]
    if k == "not":
        v = feval(e[1], env, ctx, strict)
        if v[0] != "cond": fail("`!` of a non-boolean")
        return ("cond", _cnot(v[1]))
    if k == "index":
        if not strict: fail("indexing in a short-circuited operand")
        xs, i = feval(e[1], env, ctx), feval(e[2], env, ctx)
        if xs[0] != "str" or i[0] != "nat": fail("unsupported indexing")
        raise _Guard(("rd", fstr(xs), fnat(i), e))
    if k == "bin":
        op = e[1]
        if op in ("&&", "||"):
            a, b = feval(e[2], env, ctx, strict), feval(e[3], env, ctx, False)
            if a[0] != "cond" or b[0] != "cond": fail("`%s` of non-booleans" % op)
            return ("cond", _cand(a[1], b[1]) if op == "&&" else _cor(a[1], b[1]))
        a, b = feval(e[2], env, ctx, strict), feval(e[3], env, ctx, strict)
        if op in ("+", "-"):
            if a[0] != "nat" or b[0] != "nat" or b[1] is not None: fail("unsupported arithmetic")
            if op == "+": return ("nat", a[1], a[2] + b[2])
            if a[2] >= b[2]: return ("nat", a[1], a[2] - b[2])
            if not strict: fail("a subtraction that can underflow in a short-circuited operand")
            if a[1] is None: raise _Guard(("panic",))
            if b[2] - a[2] != 1: fail("subtraction of more than one from an index")
            raise _Guard(("decr", a[1], e))
        return ("cond", fcmp(op, a, b))
    if k == "macro":
        if e[1] == "vec" and not e[2]: return ("list", None, "[]")
        fail("unsupported macro %s!" % e[1])
    if k == "path":
        if (e[1], e[2]) in cfg.variants: return cfg.variants[(e[1], e[2])]([])
        fail("unknown constant %s::%s" % (e[1], e[2]))
    if k == "pathcall":
        if e[2] == "new" and not e[3]:
            if e[1] == "String": return ("str", [])
            if e[1] == "Vec": return ("list", None, "[]")
            if e[1] in cfg.structs:
                return ("struct", e[1], {rf: fdefault(lt) for rf, lf, lt in cfg.structs[e[1]]["fields"]})
            fail("unknown constructor %s::new()" % e[1])
        if e[1] == "ScriptError":
            if e[2] not in cfg.errors: fail("unknown error kind %s" % e[2])
            return ("err", ".%s" % cfg.errors[e[2]])
        if (e[1], e[2]) in cfg.variants:
            return cfg.variants[(e[1], e[2])]([feval(a, env, ctx, strict) for a in e[3]])
        fail("unsupported call %s::%s" % (e[1], e[2]))
    if k == "struct":
        if e[1] in cfg.wrappers:
            for f, x in e[2]:
                if f == cfg.wrappers[e[1]]: return feval(x, env, ctx, strict)
            fail("struct literal %s without the field %s" % (e[1], cfg.wrappers[e[1]]))
        fail("unsupported struct literal %s" % e[1])
    if k == "call":
        return fcall(e, env, ctx, strict)
    if k == "method":
        return fmethod(e, env, ctx, strict)
    if k in ("ifexpr", "matchexpr"):
        fail("`if` / `match` as a sub-expression")
    fail("unsupported expression %r" % (k,))

def fdefault(lt):
    if lt.startswith("Option"): return fopaque_known_none(lt)
    fail("no default for %s" % lt)

def fopaque_known_none(lt):
    v = fopaque(lt, "none")
    return ("opt", v[1], ("none",))

def fcall(e, env, ctx, strict):
    cfg = ctx.cfg
    name, args = e[1], e[2]
    if name not in cfg.callees: fail("call of the unknown function %s" % name)
    cal = cfg.callees[name]
    if len(args) != len(cal["params"]): fail("wrong number of arguments in a call of %s" % name)
    vals, mutarg = {}, None
    for (pn, pt), a in zip(cal["params"], args):
        if pt not in cfg.types: fail("parameter type %s of %s" % (pt, name))
        lt = cfg.types[pt]
        if lt is None: continue                     # meta info: dropped
        if pt.startswith("&mut"):
            if a[0] != "refmut" or a[1][0] != "id": fail("a `&mut` parameter needs `&mut <local>`, or the `&mut` parameter itself")
            mutarg = a[1][1]
            v = fget(mutarg, env, ctx)
            if v[0] != "struct": fail("`&mut` of a non-struct")
            vals[pn] = fstruct_render(cfg, v)
            continue
        if a[0] == "id" and ctx.mutparam == a[1]:
            fail("the `&mut` parameter passed on by value")
        v = feval(a, env, ctx, strict)
        if ftype(v) != lt: fail("argument %s of %s has the type %s, not %s" % (pn, name, ftype(v), lt))
        vals[pn] = fval(v)
    text = cal["render"](vals)
    return ("callres", text, name, mutarg)

def fmethod(e, env, ctx, strict):
    recv, m, args = e[1], e[2], e[3]
    if m in ("clone", "to_string", "to_owned", "as_str", "as_slice", "to_vec") and not args:
        return feval(recv, env, ctx, strict)
    if m == "collect" and not args and recv[0] == "method" and recv[2] == "chars" and not recv[3]:
        v = feval(recv[1], env, ctx, strict)           # `s.chars().collect()`: a string IS its characters
        if v[0] != "str": fail(".chars() of a non-string")
        return v
    r = feval(recv, env, ctx, strict)
    if r[0] == "opt":
        st = r[2]
        if m in ("is_none", "is_some") and not args:
            c = T if st[0] == "none" else F if st[0] == "some" else ("b", "%s.isNone" % _fpar(st[1]))
            return ("cond", c if m == "is_none" else _cnot(c))
        if m == "unwrap" and not args:
            if st[0] == "some": return st[1]
            if not strict: fail("unwrap() in a short-circuited operand")
            if st[0] == "none": raise _Guard(("panic",))
            raise _Guard(("unwrap", r, flvalue(recv), e))
        fail("unsupported method .%s of an Option" % m)
    if r[0] == "str":
        if m == "len" and not args:
            ps = [q for q in r[1] if not (q[0] == "lit" and q[1] == "")]
            if all(q[0] == "lit" for q in ps): return ("nat", None, sum(len(q[1]) for q in ps))
            return ("nat", "%s.length" % _fpar(fstr(r)), 0)
        if m == "is_empty" and not args:
            ps = [q for q in r[1] if not (q[0] == "lit" and q[1] == "")]
            if not ps: return ("cond", T)
            if any(q[0] == "lit" for q in ps): return ("cond", F)
            return ("cond", ("b", "%s.isEmpty" % _fpar(fstr(r))))
        if m in ("trim", "trim_start", "trim_end") and not args:
            return ("str", [("e", "%s %s" % ({"trim": "trim", "trim_start": "trimStart", "trim_end": "trimEnd"}[m], _fpar(fstr(r))))])
        if m in ("trim_start_matches", "starts_with") and len(args) == 1:
            a = feval(args[0], env, ctx, strict)
            if m == "starts_with":
                pre = "[%s]" % a[1] if a[0] == "char" else fstr(a) if a[0] == "str" else fail("starts_with of an unsupported pattern")
                return ("cond", ("b", "%s.isPrefixOf %s" % (_fpar(pre), _fpar(fstr(r)))))
            if a[0] == "char":
                return ("str", [("e", "%s.dropWhile (fun c => c == %s)" % (_fpar(fstr(r)), a[1]))])
            if a[0] == "str" and a[1] and all(q[0] == "lit" for q in a[1]) and fstr(a) != "[]":
                ctx.cfg.prelude_used.add("dropPrefixes")
                return ("str", [("e", "dropPrefixes %s %s.length %s" % (_fpar(fstr(a)), _fpar(fstr(r)), _fpar(fstr(r))))])
            fail("trim_start_matches of an unsupported pattern")
        if m == "trim_end_matches" and len(args) == 1:
            a = feval(args[0], env, ctx, strict)
            if a[0] == "char":
                return ("str", [("e", "(%s.reverse.dropWhile (fun c => c == %s)).reverse" % (_fpar(fstr(r)), a[1]))])
            fail("trim_end_matches of an unsupported pattern")
        fail("unsupported method .%s of a string" % m)
    if r[0] == "list":
        if m == "is_empty" and not args:
            if r[2] == "[]": return ("cond", T)
            return ("cond", ("b", "%s.isEmpty" % _fpar(r[2])))
        if m == "len" and not args: return ("nat", "%s.length" % _fpar(r[2]), 0)
        fail("unsupported method .%s of a vector" % m)
    fail("unsupported method .%s" % m)

# ------------------------------------------------------------------ execution of the fourth executor

def fassigned(stmts, out):
    """targets assigned (or pushed into) anywhere in the statements, in order of appearance"""
    def add(n):
        if n not in out: out.append(n)
    def expr(e):
        if isinstance(e, tuple):
            if e and e[0] == "call":
                for a in e[2]:
                    if a[0] == "refmut" and a[1][0] == "id": add(a[1][1] + ".*")
            if e and e[0] in ("ifexpr",): stmt(e[1])
            if e and e[0] == "matchexpr":
                for _, b in e[2]: fassigned(b, out)
            for x in e: expr(x)
        elif isinstance(e, list):
            for x in e: expr(x)
    def stmt(s):
        k = s[0]
        if k == "assign": add(s[1]); expr(s[3])
        elif k == "let": expr(s[3])
        elif k == "if": expr(s[1]); fassigned(s[2], out); fassigned(s[3] or [], out)
        elif k == "iflet": expr(s[2]); fassigned(s[3], out); fassigned(s[4] or [], out)
        elif k == "match":
            expr(s[1])
            for _, b in s[2]: fassigned(b, out)
        elif k in ("for",): fassigned(s[4], out)
        elif k == "loop": fassigned(s[1], out)
        elif k in ("exprstmt", "expr", "return"):
            e = s[1]
            if k == "exprstmt" and e[0] == "method" and e[2] in ("push", "push_str", "clear", "append", "insert", "pop", "remove", "reverse", "truncate"):
                n = flvalue(e[1])
                if n: add(n)
            expr(e)
    for s in stmts: stmt(s)
    return out

def ftranslate_fn(src, name, cfg, lean_name, aux_prefix):
    """returns the Lean text of the definitions translated from `fn name` (loop bodies first)"""
    sig = fn_signature(src, name)
    body = fn_body(src, name)
    if sig is None or body is None: fail("%s not found" % name)
    params, ret = sig
    if ret not in cfg.types or cfg.types[ret] is None: fail("return type %s of %s" % (ret, name))
    stmts = fparse_block(body)
    names, leanvars, aux = set(["s"]), [], []
    ctx = FCtx(cfg, name, "fn", names, leanvars, aux)
    ctx.aux_prefix = aux_prefix
    env = FEnv()
    lparams = []
    for pn, pt in params:
        if pt not in cfg.types: fail("parameter type %s of %s" % (pt, name))
        lt = cfg.types[pt]
        if lt is None:
            env.declare(pn, ("dropped",)); continue
        if pt.startswith("&mut"):
            if ctx.mutparam is not None: fail("two `&mut` parameters")
            sname = pt[len("&mut"):]
            ln = ctx.fresh(pn, lt)
            ctx.mutparam = pn
            env.declare(pn, fstruct_opaque(cfg, sname, ln))
        else:
            ln = ctx.fresh(pn, lt)
            env.declare(pn, fopaque(lt, ln))
        lparams.append("(%s : %s)" % (ln, lt))
    ctx.ret = cfg.types[ret]
    tree = fexec(stmts, env, ctx)
    rt = ctx.ret
    if ctx.mutparam is not None:
        rt = "%s × %s" % (_par(rt) if "×" in rt else rt, cfg.structs[[pt for pn, pt in params if pn == ctx.mutparam][0][len("&mut"):]]["lean"])
    text = "".join(aux)
    text += "/-- `%s` -/\n" % name
    text += "def %s %s : IOut %s :=\n%s\n" % (lean_name, " ".join(lparams), _par(rt), frender(tree, 1))
    return text

def fexec(stmts, env, ctx):
    if not stmts:
        if ctx.mode == "loop": return ("leaf", ".next %s" % fstate(env, ctx))
        fail("control reaches the end of %s without a result" % ctx.fn_name)
    s, rest = stmts[0], stmts[1:]
    env = env.copy()
    try:
        return fexec1(s, rest, env, ctx)
    except _Guard as g:
        w = g.what
        if w[0] == "panic":
            return ("leaf", ".panic")
        if w[0] == "rd":
            var = ctx.fresh(_hint(s, w[3]) or "c", "Char")
            return ("matchrd", w[1], w[2], var, fexec([_subst(s, w[3], ("leanvar", var, "Char"))] + rest, env, ctx))
        if w[0] == "decr":
            var = ctx.fresh("i", "Nat")
            return ("matchdecr", w[1], var, fexec([_subst(s, w[2], ("leanvar", var, "Nat"))] + rest, env, ctx))
        if w[0] == "unwrap":
            r, lv, ex = w[1], w[2], w[3]
            var = ctx.fresh("v", r[1])
            known = ("opt", r[1], ("some", fopaque(r[1], var)))
            e2 = env.copy()
            if lv is not None: fput_any(lv, known, e2)
            return ("matchopt", r[2][1], var, fexec([_subst(s, ex, ("leanvar", var, r[1]))] + rest, e2, ctx), ("leaf", ".panic"))
        raise

def fput_any(name, v, env):
    if name in env.vals or "." in name: fput(name, v, env)

def _hint(s, ex):
    """the Rust name the checked value is bound to, if the statement is `let x = <ex>;`"""
    if s[0] == "let" and s[1][0] == "pid" and s[3] is ex: return s[1][1]
    return None

def _subst(node, target, repl):
    """the AST with the sub-expression `target` (by identity) replaced"""
    if node is target: return repl
    if isinstance(node, tuple): return tuple(_subst(x, target, repl) for x in node)
    if isinstance(node, list): return [_subst(x, target, repl) for x in node]
    return node

_feval0 = feval
def feval(e, env, ctx, strict=True):
    if e[0] == "leanvar": return fopaque(e[2], e[1])
    return _feval0(e, env, ctx, strict)

def fstate(env, ctx):
    vals = [fget(n, env, ctx) for n in ctx.state]
    ctx.leaf_types.append([ftype(v) for v in vals])
    return ftuple([fval(v) for v in vals])

def ftuple(items):
    return items[0] if len(items) == 1 else "(%s)" % ", ".join(items)

def fproj(var, k, n):
    if n == 1: return var
    if k < n - 1: return "%s%s.1" % (var, ".2" * k)
    return "%s%s" % (var, ".2" * k)

def fresult(e, env, ctx):
    """the value of the function: Ok(..) / Err(..) / a call passed on"""
    if ctx.mode == "loop":
        v = feval(e, env, ctx)
        if v[0] == "res_err" and v[1][0] == "err": return ("leaf", ".err %s" % v[1][1])
        fail("a loop body can only leave the function with `return Err(..)`")
    if e[0] in ("ifexpr",): return fexec([e[1]], env, ctx)
    if e[0] == "matchexpr": return fexec([("match", e[1], e[2])], env, ctx)
    v = feval(e, env, ctx)
    if v[0] == "res_err":
        if v[1][0] != "err": fail("Err(..) of something that is not an error")
        return ("leaf", ".err %s" % v[1][1])
    if v[0] == "res_ok":
        return ("leaf", ".ok %s" % _fpar(fwith_mut(v[1], env, ctx)))
    if v[0] == "callres":
        cal = ctx.cfg.callees[v[2]]
        if cal["ret"] != ctx.ret or v[3] is not None or ctx.mutparam is not None:
            fail("the result of %s passed on with a different type" % v[2])
        return ("leaf", v[1])
    fail("unsupported result expression")

def fwith_mut(v, env, ctx):
    if ftype(v) is None: v = fcoerce(v, ctx.ret)
    if ftype(v) != ctx.ret: fail("the result has the type %s, not %s" % (ftype(v), ctx.ret))
    if ctx.mutparam is None: return fval(v)
    return "(%s, %s)" % (fval(v), fstruct_render(ctx.cfg, fget(ctx.mutparam, env, ctx)))

def fcoerce(v, ty):
    """gives `None` / `vec![]` / tuples containing them the expected type"""
    if v[0] == "opt" and v[1] is None and ty.startswith("Option "): return ("opt", fopaque(ty, "x")[1], v[2])
    if v[0] == "list" and v[1] is None and ty.startswith("List "): return ("list", fopaque(ty, "x")[1], v[2])
    if v[0] == "tuple":
        parts = _split_prod(ty)
        if len(parts) == len(v[1]): return ("tuple", [fcoerce(x, t) if ftype(x) is None else x for x, t in zip(v[1], parts)])
    return v

def _split_prod(ty):
    out, depth, cur = [], 0, ""
    for ch in ty:
        if ch == "(": depth += 1
        if ch == ")": depth -= 1
        if ch == "×" and depth == 0:
            out.append(cur.strip()); cur = ""
        else: cur += ch
    out.append(cur.strip())
    return [t[1:-1] if t.startswith("(") and t.endswith(")") and "×" in t else t for t in out]

def fsplit_opt(target_expr, env, ctx):
    """(opaque option value, lvalue) if the expression is an lvalue holding an opaque option"""
    lv = flvalue(_strip_clone(target_expr))
    if lv is None: return None
    try:
        v = fget(lv, env, ctx)
    except SystemExit:
        return None
    if v[0] == "opt" and v[2][0] == "opaque": return v, lv
    return None

def _strip_clone(e):
    while e[0] == "method" and e[2] in ("clone", "as_ref", "to_owned") and not e[3]: e = e[1]
    return e

def fexec1(s, rest, env, ctx):
    cfg = ctx.cfg
    k = s[0]
    if k == "let":
        pat, e = s[1], s[3]
        if e[0] == "ifexpr":
            i = e[1]
            def tail(block):
                if block is None: fail("`if` expression without `else`")
                if len(block) == 1 and block[0][0] in ("if", "iflet"): return [_lift_if(block[0], tail)]
                if not block or block[-1][0] != "expr": fail("`if` expression without a value")
                return list(block[:-1]) + [("let", pat, s[2], block[-1][1])]
            return fexec([_lift_if(i, tail)] + rest, env, ctx)
        if e[0] == "matchexpr":
            arms = [(p_, _arm_tail(b, lambda x: ("let", pat, s[2], x))) for p_, b in e[2]]
            return fexec([("match", e[1], arms)] + rest, env, ctx)
        if e[0] == "try":
            # let x = f(..)?;   ==>   match f(..) { Ok(t) => { let x = t; .. }, Err(e) => return Err(e) }
            arms = [(("pok", "tried"), [("let", pat, s[2], ("id", "tried"))]), (("perr", "error"), [("return", ("errc", ("id", "error")))])]
            return fexec([("match", e[1], arms)] + rest, env, ctx)
        v = feval(e, env, ctx)
        if pat[0] == "ptuple":
            if v[0] != "tuple" or len(v[1]) != len(pat[1]): fail("`let (..) =` of something that is not a tuple of that size")
            for n, x in zip(pat[1], v[1]): env.declare(n, x)
        else:
            if v[0] in ("callres", "res_ok", "res_err"): fail("a `Result` kept in a local")
            env.declare(pat[1], v)
        return fexec(rest, env, ctx)
    if k == "assign":
        name, op, rhs = s[1], s[2], s[3]
        if op == "=" and rhs[0] == "matchexpr":
            arms = [(p_, _arm_tail(b, lambda x: ("assign", name, "=", x))) for p_, b in rhs[2]]
            return fexec([("match", rhs[1], arms)] + rest, env, ctx)
        if op == "=" and rhs[0] == "try":
            arms = [(("pok", "tried"), [("assign", name, "=", ("id", "tried"))]), (("perr", "error"), [("return", ("errc", ("id", "error")))])]
            return fexec([("match", rhs[1], arms)] + rest, env, ctx)
        if op == "=" and rhs[0] == "ifexpr":
            def tail(block):
                if block is None: fail("`if` expression without `else`")
                if len(block) == 1 and block[0][0] in ("if", "iflet"): return [_lift_if(block[0], tail)]
                if not block or block[-1][0] != "expr": fail("`if` expression without a value")
                return list(block[:-1]) + [("assign", name, "=", block[-1][1])]
            return fexec([_lift_if(rhs[1], tail)] + rest, env, ctx)
        if op != "=":
            return fexec([("assign", name, "=", ("bin", op[0], _lv_expr(name), rhs))] + rest, env, ctx)
        v = feval(rhs, env, ctx)
        old = fget(name, env, ctx)
        if v[0] in ("callres", "res_ok", "res_err", "struct", "dropped"): fail("unsupported assignment to %s" % name)
        to, tn = ftype(old), ftype(v)
        if to is not None and tn is None: v = fcoerce(v, to); tn = ftype(v)
        if to is not None and tn is not None and to != tn: fail("ill-typed assignment to %s (%s := %s)" % (name, to, tn))
        fput(name, v, env)
        return fexec(rest, env, ctx)
    if k == "exprstmt":
        e = s[1]
        if e[0] == "method" and e[2] in ("push", "push_str") and len(e[3]) == 1:
            name = flvalue(e[1])
            if name is None: fail("push into something that is not a local")
            old = fget(name, env, ctx)
            a = feval(e[3][0], env, ctx)
            if old[0] == "str" and e[2] == "push" and a[0] == "char":
                m = re.match(r"^'(\\.|[^'\\])'$", a[1])
                piece = ("lit", unescape(a[1][1:-1])) if m and not a[1].startswith("'\\x") else ("e", "[%s]" % a[1])
                fput(name, ("str", old[1] + [piece]), env)
            elif old[0] == "str" and e[2] == "push_str" and a[0] == "str":
                fput(name, ("str", old[1] + a[1]), env)
            elif old[0] == "list" and e[2] == "push":
                t = ftype(a)
                if old[1] is not None and old[1] != t: fail("push of a %s into a vector of %s" % (t, old[1]))
                text = "[%s]" % fval(a) if old[2] == "[]" else "%s ++ [%s]" % (_fpar(old[2]), fval(a))
                fput(name, ("list", t, text), env)
            else:
                fail("unsupported %s into %s" % (e[2], name))
            return fexec(rest, env, ctx)
        fail("an expression statement without an effect the subset knows")
    if k == "if":
        cond = s[1]
        neg, c0 = False, cond
        while c0[0] == "not":
            neg, c0 = not neg, c0[1]
        if c0[0] == "method" and c0[2] in ("is_none", "is_some") and not c0[3]:
            sp = fsplit_opt(c0[1], env, ctx)
            if sp is not None:
                v, lv = sp
                some_first = (c0[2] == "is_some") != neg
                var = ctx.fresh("v", v[1])
                e_some, e_none = env.copy(), env.copy()
                fput(lv, ("opt", v[1], ("some", fopaque(v[1], var))), e_some)
                fput(lv, ("opt", v[1], ("none",)), e_none)
                t_some = fexec(list(s[2] if some_first else (s[3] or [])) + rest, e_some, ctx)
                t_none = fexec(list((s[3] or []) if some_first else s[2]) + rest, e_none, ctx)
                return ("matchopt", v[2][1], var, t_some, t_none)
        c = feval(cond, env, ctx)
        if c[0] != "cond": fail("non-boolean condition")
        if c[1] == T: return fexec(list(s[2]) + rest, env, ctx)
        if c[1] == F: return fexec(list(s[3] or []) + rest, env, ctx)
        return ("ite", c[1], fexec(list(s[2]) + rest, env.copy(), ctx), fexec(list(s[3] or []) + rest, env.copy(), ctx))
    if k == "iflet":
        pat, e = s[1], s[2]
        if pat[0] != "psome": fail("`if let` with a pattern other than Some(x)")
        return fmatch_opt(e, [(pat, s[3]), (("pwild",), s[4] or [])], rest, env, ctx)
    if k == "match":
        scrut, arms = s[1], s[2]
        kinds = set(p_[0] for p_, _ in arms)
        if kinds & {"pok", "perr", "poktuple"}:
            return fmatch_call(scrut, arms, rest, env, ctx)
        if kinds & {"psome", "pnone"}:
            return fmatch_opt(scrut, arms, rest, env, ctx)
        fail("unsupported `match`")
    if k == "for":
        return floop(s, rest, env, ctx, "for")
    if k == "loop":
        return floop(s, rest, env, ctx, "loop")
    if k == "break":
        if ctx.mode != "loop": fail("`break` outside a loop")
        return ("leaf", ".brk %s" % fstate(env, ctx))
    if k == "return":
        return fresult(s[1], env, ctx)
    if k == "expr":
        if rest: fail("an expression statement that is not the value of its block")
        if ctx.mode == "loop": fail("a loop body with a value")
        return fresult(s[1], env, ctx)
    fail("unsupported statement %r" % (k,))

def _lv_expr(name):
    if "." in name:
        b, f = name.split(".", 1)
        return ("field", ("id", b), f)
    return ("id", name)

def _lift_if(i, tail):
    if i[0] == "if": return ("if", i[1], tail(i[2]), tail(i[3]))
    return ("iflet", i[1], i[2], tail(i[3]), tail(i[4]))

def _arm_tail(body, mk):
    """an arm of a `match` used as a value: its last expression becomes `mk(expr)`; an arm that
    leaves (`return ..`) stays"""
    if body and body[-1][0] == "expr": return list(body[:-1]) + [mk(body[-1][1])]
    if body and body[-1][0] == "return": return list(body)
    fail("a match arm without a value")

def fmatch_opt(scrut, arms, rest, env, ctx):
    inner = _strip_clone(scrut)
    v = feval(inner, env, ctx)
    if v[0] != "opt": fail("`match` / `if let` with Some / None patterns on a non-Option")
    lv = flvalue(inner)
    def arm(kind):
        for p_, b in arms:
            if p_[0] == kind or p_[0] == "pwild": return p_, b
        fail("the match does not cover %s" % kind)
    st = v[2]
    if st[0] == "none":
        return fexec(list(arm("pnone")[1]) + rest, env, ctx)
    if st[0] == "some":
        p_, b = arm("psome")
        e2 = env.copy()
        if p_[0] == "psome": e2.declare(p_[1], st[1])
        return fexec(list(b) + rest, e2, ctx)
    p_, b = arm("psome")
    var = ctx.fresh(p_[1] if p_[0] == "psome" else "v", v[1])
    e_some, e_none = env.copy(), env.copy()
    inner_v = fopaque(v[1], var)
    if lv is not None:
        fput_any(lv, ("opt", v[1], ("some", inner_v)), e_some)
        fput_any(lv, ("opt", v[1], ("none",)), e_none)
    if p_[0] == "psome": e_some.declare(p_[1], inner_v)
    t_some = fexec(list(b) + rest, e_some, ctx)
    t_none = fexec(list(arm("pnone")[1]) + rest, e_none, ctx)
    return ("matchopt", st[1], var, t_some, t_none)

def fmatch_call(scrut, arms, rest, env, ctx):
    cfg = ctx.cfg
    v = feval(scrut, env, ctx)
    if v[0] != "callres": fail("`match` with Ok / Err patterns on something that is not a call")
    cal = cfg.callees[v[2]]
    ok = [a for a in arms if a[0][0] in ("pok", "poktuple")]
    er = [a for a in arms if a[0][0] == "perr"]
    if len(ok) != 1 or len(er) != 1 or len(arms) != 2: fail("the match on a call must have the arms Ok(..) and Err(..)")
    (okp, okb), (erp, erb) = ok[0], er[0]
    parts = _split_prod(cal["ret"])
    e_ok = env.copy()
    okb = list(okb)
    if len(parts) > 1:
        if okp[0] == "poktuple": rnames = okp[1]
        elif okb and okb[0][0] == "let" and okb[0][1][0] == "ptuple" and okb[0][3] == ("id", okp[1]) and len(okb[0][1][1]) == len(parts):
            rnames = okb[0][1][1]          # `Ok(output) => { let (a, b) = output; ..`: the pattern takes the tuple apart
        else: rnames = ["%s_%d" % (okp[1], i + 1) for i in range(len(parts))]
        if len(rnames) != len(parts): fail("tuple pattern of the wrong size")
        lvars = [ctx.fresh(n, t) for n, t in zip(rnames, parts)]
        tv = ("tuple", [fopaque(t, lv_) for t, lv_ in zip(parts, lvars)])
        if okp[0] == "poktuple":
            for n, x in zip(okp[1], tv[1]): e_ok.declare(n, x)
        else: e_ok.declare(okp[1], tv)
        pat = "(%s)" % ", ".join(lvars)
    else:
        if okp[0] == "poktuple": fail("tuple pattern on a result that is not a tuple")
        lv_ = ctx.fresh(okp[1], parts[0])
        e_ok.declare(okp[1], fopaque(parts[0], lv_))
        pat = lv_
    if v[3] is not None:
        sname = env.vals[v[3]][1]
        sv = ctx.fresh(v[3], cfg.structs[sname]["lean"])
        e_ok.vals[v[3]] = fstruct_opaque(cfg, sname, sv)
        pat = "(%s, %s)" % (pat, sv)
    ev = ctx.fresh(erp[1], "PErr")
    t_ok = fexec(okb + rest, e_ok, ctx)
    e_er = env.copy()
    e_er.declare(erp[1], ("err", ev))
    t_er = fexec(list(erb) + rest, e_er, ctx)
    return ("matchcall", v[1], pat, t_ok, ev, t_er)

def floop(s, rest, env, ctx, kind):
    cfg = ctx.cfg
    if ctx.mode == "loop": fail("nested loops")
    body = s[4] if kind == "for" else s[1]
    if kind == "for":
        if not s[1].startswith("_"): fail("the loop variable %s must be unused (`_…`)" % s[1])
        lo, hi = feval(s[2], env, ctx), feval(s[3], env, ctx)
        if lo[0] != "nat" or hi[0] != "nat": fail("range bounds must be integers")
        count = "%s - %s" % (_fpar(fnat(hi)), _fpar(fnat(lo)))
    else:
        if ctx.fn_name not in cfg.loop_fuel: fail("no fuel configured for the `loop` of %s" % ctx.fn_name)
        count = None
    targets = []
    for t in fassigned(body, []):
        if t.endswith(".*"): fail("a `&mut` call inside a loop")
        base = t.split(".", 1)[0]
        if base in env.vals and t not in targets: targets.append(t)
    if not targets: fail("a loop that assigns nothing")
    entry = {t: fget(t, env, ctx) for t in targets}
    for t, v in entry.items():
        if v[0] not in ("nat", "cond", "char", "str", "opt", "list"): fail("the loop assigns %s, which is not a scalar" % t)
    def decl_pos(t):
        base = t.split(".", 1)[0]
        sub = 0
        if "." in t:
            fields = [rf for rf, lf, lt in cfg.structs[env.vals[base][1]]["fields"]]
            sub = fields.index(t.split(".", 1)[1])
        return (env.order.index(base) if base in env.order else -1, sub)
    # first pass with the types known at the entry; a second pass when a leaf told more
    types = {t: ftype(entry[t]) for t in targets}
    for attempt in range(3):
        order = sorted(targets, key=lambda t: (frank(types[t]), decl_pos(t)))
        svar = "s"
        benv = env.copy()
        for i, t in enumerate(order):
            ty = types[t]
            pv = fopaque(ty, fproj(svar, i, len(order))) if ty is not None else entry[t]
            fput(t, pv, benv)
        snapshot_names, snapshot_vars, snapshot_aux = set(ctx.names), list(ctx.leanvars), list(ctx.aux)
        bctx = ctx.sub("loop", order, svar)
        bctx.aux_prefix = ctx.aux_prefix
        tree = fexec(list(body), benv, bctx)
        new = dict(types)
        for lt in bctx.leaf_types:
            for t, ty in zip(order, lt):
                if ty is not None:
                    if new[t] is None: new[t] = ty
                    elif new[t] != ty: fail("the loop local %s has the types %s and %s" % (t, new[t], ty))
        if new == types: break
        types = new
        ctx.names.clear(); ctx.names.update(snapshot_names)
        del ctx.leanvars[:]; ctx.leanvars.extend(snapshot_vars)
        del ctx.aux[:]; ctx.aux.extend(snapshot_aux)
    else:
        fail("the types of the loop state do not settle")
    if any(types[t] is None for t in targets): fail("the type of a loop local cannot be inferred")
    sty = " × ".join(_par(types[t]) if "×" in types[t] else types[t] for t in order)
    body_text = frender(tree, 1)
    used = [(n, ty) for n, ty in snapshot_vars if re.search(r"(?<![\w.'])%s(?![\w'])" % re.escape(n), body_text)]
    ctx.nloops = getattr(ctx, "nloops", 0) + 1
    bname = "%sBodyGen%s" % (ctx.aux_prefix, "" if ctx.nloops == 1 else str(ctx.nloops))
    what = "`for %s in %s..%s`" % (s[1], _src(s[2]), _src(s[3])) if kind == "for" else "`loop`"
    text = "/-- one iteration of the %s of `%s`; the state `s` = (%s) -/\n" % (what, ctx.fn_name, ", ".join(order))
    text += "def %s %s (s : %s) : IStep (%s) :=\n%s\n\n" % (bname, " ".join("(%s : %s)" % u for u in used), sty, sty, body_text)
    ctx.aux.append(text)
    init = ftuple([fval(fcoerce(entry[t], types[t]) if ftype(entry[t]) is None else entry[t]) for t in order])
    call = " ".join([bname] + [n for n, _ in used])
    if kind == "for":
        loop_text = "iFor (%s) (%s) %s" % (call, count, init)
    else:
        fuel = cfg.loop_fuel[ctx.fn_name](lambda n: fval(fget(n, env, ctx)))
        loop_text = "iLoop (%s) (%s) %s" % (call, fuel, init)
    rvar = ctx.fresh("st", sty)
    for i, t in enumerate(order):
        fput(t, fopaque(types[t], fproj(rvar, i, len(order))), env)
    return ("matchloop", loop_text, rvar, fexec(rest, env, ctx))

def _src(e):
    if e[0] == "id": return e[1]
    if e[0] == "num": return str(e[1])
    return "…"

def frender(t, indent):
    pad = "  " * indent
    k = t[0]
    if k == "leaf": return pad + t[1]
    if k == "ite":
        return "%sif %s then\n%s\n%selse\n%s" % (pad, fcond_prop(t[1]), frender(t[2], indent + 1), pad, frender(t[3], indent + 1))
    if k == "matchopt":
        return "%smatch %s with\n%s| none =>\n%s\n%s| some %s =>\n%s" % (pad, t[1], pad, frender(t[4], indent + 1), pad, t[2], frender(t[3], indent + 1))
    if k == "matchrd":
        return "%smatch rd %s %s with\n%s| none => .panic\n%s| some %s =>\n%s" % (pad, _fpar(t[1]), _fpar(t[2]), pad, pad, t[3], frender(t[4], indent + 1))
    if k == "matchdecr":
        return "%smatch decr %s with\n%s| none => .panic\n%s| some %s =>\n%s" % (pad, _fpar(t[1]), pad, pad, t[2], frender(t[3], indent + 1))
    if k == "matchcall":
        return "%smatch %s with\n%s| .panic => .panic\n%s| .err %s =>\n%s\n%s| .ok %s =>\n%s" % (
            pad, t[1], pad, pad, t[4], frender(t[5], indent + 1), pad, t[2], frender(t[3], indent + 1))
    if k == "matchloop":
        return "%smatch %s with\n%s| .panic => .panic\n%s| .err e => .err e\n%s| .ok %s =>\n%s" % (
            pad, t[1], pad, pad, pad, t[2], frender(t[3], indent + 1))
    fail("render: %r" % (k,))
