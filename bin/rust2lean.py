"""bin/rust2lean.py — a small translator from a subset of Rust to Lean 4, used by the scanner
fragments (bin/fragments/scanner_*.py).

The subset is what the hand-written character scanners of duckscript are made of: the body of a
loop over characters, consisting of nested `if` / `else if` / `else` statements whose conditions
combine boolean locals, boolean parameters (flags) and comparisons of the current character with
character literals (`==`, `!=`, `&&`, `||`, `!`, parentheses), and of the statements

    <local> = true | false ;          <buffer>.push(<char literal> | <the current character>) ;
    <buffer>.push_str("<literal>") ;  index -= 1 ;   index = end_index ;   <found_end> = true ;
    break ;                           return Err(ScriptError::<Kind>(…)) ;

The statement list is executed SYMBOLICALLY along every path (continuation style: what follows an
`if` is executed in each of its branches, so an early `break` / `return` in one branch is exact),
which turns the imperative body into one expression: a tree of conditionals whose leaves are
`continue with this state`, `break with this state, this remaining input and this found_end`, or
`error of this kind`.  The index is rendered in suffix form: nothing done = the characters after
the current one remain, `index -= 1` = the current character is given back, `index = end_index` =
nothing remains.

Two further executors below serve `expand_by_wrapper` (buffers, small counters, helper calls)
and `eval_condition_for_slice` (a token loop with `match`, `Option<bool>` / integer / enum locals,
early returns and a recursive call on a slice; it has its own parser for whole function bodies).

Anything outside the subset raises SystemExit (the caller then falls back, see bin/extract.py)."""
import re

def fail(msg):
    raise SystemExit("rust2lean: " + msg)

# ---------------------------------------------------------------- locating code

def fn_body(src, name):
    m = re.search(r"fn %s\s*(<[^>]*>)?\s*\(" % re.escape(name), src)
    if not m:
        return None
    i = src.index("{", _match_paren(src, m.end() - 1))
    return src[i:_match_brace(src, i) + 1]

def _match_paren(src, i):
    depth = 0
    j = i
    while j < len(src):
        if src[j] == "(": depth += 1
        elif src[j] == ")":
            depth -= 1
            if depth == 0: return j
        j += 1
    fail("unbalanced parentheses")

def _match_brace(src, i):
    """index of the `}` matching the `{` at i (character and string literals skipped)"""
    depth = 0
    j = i
    while j < len(src):
        ch = src[j]
        if ch == "'":
            m = re.match(r"'(\\.|[^'\\])'", src[j:])
            if m:
                j += m.end(); continue
        if ch == '"':
            m = re.match(r'"(\\.|[^"\\])*"', src[j:])
            if m:
                j += m.end(); continue
        if src.startswith("//", j):
            j = src.index("\n", j); continue
        if ch == "{": depth += 1
        elif ch == "}":
            depth -= 1
            if depth == 0: return j
        j += 1
    fail("unbalanced braces")

def block_after(body, header):
    """the `{ … }` block that follows the first occurrence of `header`"""
    k = body.find(header)
    if k < 0:
        return None
    i = body.index("{", k + len(header))
    return body[i:_match_brace(body, i) + 1]

# ---------------------------------------------------------------- tokens

TOKEN = re.compile(r"""
    \s+ | //[^\n]* |
    (?P<char>'(\\.|[^'\\])') |
    (?P<str>"(\\.|[^"\\])*") |
    (?P<id>[A-Za-z_][A-Za-z_0-9]*) |
    (?P<num>[0-9]+) |
    (?P<op>==|=>|!=|&&|\|\||\+=|-=|::|\.\.|[{}()\[\];.,!=&<>+\-])
""", re.X)

def tokenize(text):
    out, i = [], 0
    while i < len(text):
        m = TOKEN.match(text, i)
        if not m:
            fail("cannot tokenize at: %r" % text[i:i + 30])
        i = m.end()
        for kind in ("char", "str", "id", "num", "op"):
            if m.group(kind) is not None:
                out.append((kind, m.group(kind)))
                break
    return out

ESC = {"n": "\n", "r": "\r", "t": "\t", "\\": "\\", "'": "'", '"': '"', "0": "\0"}

def unescape(body):
    out, i = [], 0
    while i < len(body):
        if body[i] == "\\":
            if body[i + 1] not in ESC:
                fail("escape \\%s is not supported" % body[i + 1])
            out.append(ESC[body[i + 1]]); i += 2
        else:
            out.append(body[i]); i += 1
    return "".join(out)

# ---------------------------------------------------------------- parser

class P:
    def __init__(self, toks):
        self.t, self.i = toks, 0
    def peek(self, k=0):
        return self.t[self.i + k] if self.i + k < len(self.t) else ("eof", "")
    def take(self, val=None):
        tok = self.peek()
        if val is not None and tok[1] != val:
            fail("expected %r, found %r" % (val, tok[1]))
        self.i += 1
        return tok
    def at(self, *vals):
        return all(self.peek(k)[1] == v for k, v in enumerate(vals))

def parse_block(text):
    p = P(tokenize(text))
    b = _block(p)
    if p.peek()[0] != "eof":
        fail("trailing tokens after the block")
    return b

def _block(p):
    p.take("{")
    out = []
    while not p.at("}"):
        out.append(_stmt(p))
    p.take("}")
    return out

def _stmt(p):
    if p.at("if"):
        return _if(p)
    if p.at("let"):
        p.take(); name = p.take()[1]; p.take("=")
        expr = []
        while not p.at(";"):
            expr.append(p.take()[1])
        p.take(";")
        return ("let", name, "".join(expr))
    if p.at("break"):
        p.take(); p.take(";")
        return ("break",)
    if p.at("continue"):
        p.take(); p.take(";")
        return ("continue",)
    if p.at("return"):
        p.take(); p.take("Err"); p.take("("); p.take("ScriptError"); p.take("::")
        kind = p.take()[1]
        depth = 1
        while depth:  # skip the payload up to the `)` closing Err(
            tok = p.take()[1]
            if tok == "(": depth += 1
            elif tok == ")": depth -= 1
        p.take(";")
        return ("reterr", kind)
    if p.peek()[0] == "id":
        name = p.take()[1]
        if p.at("."):
            p.take(); meth = p.take()[1]; p.take("(")
            tok = p.take()
            p.take(")"); p.take(";")
            if meth == "push":
                if tok[0] == "char":
                    return ("push", name, ("lit", unescape(tok[1][1:-1])))
                if tok[0] == "id":
                    return ("push", name, ("var", tok[1]))
            if meth == "push_str" and tok[0] == "str":
                return ("pushstr", name, unescape(tok[1][1:-1]))
            fail("unsupported call %s.%s(%s)" % (name, meth, tok[1]))
        if p.at("=") :
            p.take(); val = p.take()[1]; p.take(";")
            return ("assign", name, val)
        if p.at("+=") or p.at("-="):
            op = p.take()[1]; val = p.take()[1]; p.take(";")
            return ("opassign", name, op, val)
    fail("unsupported statement starting with %r" % (p.peek()[1],))

def _if(p):
    p.take("if")
    cond = _or(p)
    then = _block(p)
    els = None
    if p.at("else"):
        p.take()
        els = [_if(p)] if p.at("if") else _block(p)
    return ("if", cond, then, els)

# `||` / `&&` chains are nested to the right (the operators are associative on booleans and
# the operands have no side effects)
def _or(p):
    a = _and(p)
    if p.at("||"):
        p.take()
        return ("or", a, _or(p))
    return a

def _and(p):
    a = _not(p)
    if p.at("&&"):
        p.take()
        return ("and", a, _and(p))
    return a

def _not(p):
    if p.at("!"):
        p.take()
        return ("not", _not(p))
    return _atom(p)

def _atom(p):
    if p.at("("):
        p.take(); c = _or(p); p.take(")")
        return c
    tok = p.take()
    if tok[0] == "id":
        if p.at("==") or p.at("!="):
            op = p.take()[1]; rhs = p.take()
            if rhs[0] != "char":
                fail("comparison of %s with a non-character" % tok[1])
            return ("cheq" if op == "==" else "chne", tok[1], unescape(rhs[1][1:-1]))
        return ("var", tok[1])
    fail("unsupported condition atom %r" % (tok[1],))

# ---------------------------------------------------------------- symbolic execution

class Config:
    def __init__(self, state_var, char_var, rest_var, flags_var, locals, flags, errors, buffer, buffer_field, found_end, ret_err, char_name="character"):
        self.__dict__.update(locals_=locals, state_var=state_var, char_var=char_var, rest_var=rest_var, flags_var=flags_var, flags=flags,
                             errors=errors, buffer=buffer, buffer_field=buffer_field, found_end=found_end, ret_err=ret_err, char_name=char_name)

class Env:
    def __init__(self, upd=None, pushes=None, idx="keep", found_end=False):
        self.upd, self.pushes, self.idx, self.found_end = dict(upd or {}), list(pushes or []), idx, found_end
    def copy(self):
        return Env(self.upd, self.pushes, self.idx, self.found_end)

def translate(stmts, cfg):
    return _exec(list(stmts), Env(), cfg)

def _exec(stmts, env, cfg):
    if not stmts:
        return ("cont", env)
    s, rest = stmts[0], stmts[1:]
    kind = s[0]
    if kind == "if":
        c = _cond(s[1], env, cfg)
        if c is True:
            return _exec(list(s[2]) + rest, env.copy(), cfg)
        if c is False:
            return _exec(list(s[3] or []) + rest, env.copy(), cfg)
        return ("ite", c, _exec(list(s[2]) + rest, env.copy(), cfg), _exec(list(s[3] or []) + rest, env.copy(), cfg))
    if kind == "assign":
        name, val = s[1], s[2]
        if name == cfg.found_end and val in ("true", "false"):
            env.found_end = (val == "true")
        elif name in cfg.locals_ and val in ("true", "false"):
            env.upd[name] = (val == "true")
        elif name == "index" and val == "end_index":
            env.idx = "end"
        else:
            fail("unsupported assignment %s = %s" % (name, val))
        return _exec(rest, env, cfg)
    if kind == "opassign":
        if s[1:] == ("index", "-=", "1") and env.idx == "keep":
            env.idx = "back"
        else:
            fail("unsupported update %s %s %s" % s[1:])
        return _exec(rest, env, cfg)
    if kind == "push":
        if s[1] != cfg.buffer:
            fail("push into %s" % s[1])
        if s[2][0] == "var" and s[2][1] != cfg.char_name:
            fail("push of %s" % s[2][1])
        env.pushes.append(s[2])
        return _exec(rest, env, cfg)
    if kind == "pushstr":
        if s[1] != cfg.buffer:
            fail("push_str into %s" % s[1])
        env.pushes.extend(("lit", ch) for ch in s[2])
        return _exec(rest, env, cfg)
    if kind == "break":
        return ("brk", env)
    if kind == "reterr":
        if s[1] not in cfg.errors:
            fail("unknown error kind %s" % s[1])
        return ("err", cfg.errors[s[1]])
    fail("unsupported statement %r" % (kind,))

def _cond(c, env, cfg):
    """partial evaluation: locals assigned earlier on this path are constants"""
    k = c[0]
    if k == "var":
        name = c[1]
        if name in cfg.locals_:
            if name in env.upd:
                return env.upd[name]
            return ("local", cfg.locals_[name])
        if name in cfg.flags:
            return ("flag", cfg.flags[name])
        fail("unknown variable %s in a condition" % name)
    if k in ("cheq", "chne"):
        if c[1] != cfg.char_name:
            fail("comparison of %s" % c[1])
        return (k, c[2])
    if k == "not":
        a = _cond(c[1], env, cfg)
        if a is True: return False
        if a is False: return True
        if a[0] == "cheq": return ("chne", a[1])
        if a[0] == "chne": return ("cheq", a[1])
        return ("not", a)
    a, b = _cond(c[1], env, cfg), _cond(c[2], env, cfg)
    if k == "and":
        if a is False or b is False: return False
        if a is True: return b
        if b is True: return a
        return ("and", a, b)
    if k == "or":
        if a is True or b is True: return True
        if a is False: return b
        if b is False: return a
        return ("or", a, b)
    fail("unsupported condition")

# ---------------------------------------------------------------- rendering (Lean 4)

def lean_char(ch):
    return {"\\": "'\\\\'", "'": "'\\''", "\n": "'\\n'", "\r": "'\\r'", "\t": "'\\t'", "\0": "'\\x00'"}.get(ch, "'%s'" % ch)

class R:
    """rendering context (names of the Lean variables)"""
    def __init__(self, cfg):
        self.cfg = cfg

def _rcond(c, cfg, top=True):
    k = c[0]
    if k == "local": return "%s.%s" % (cfg.state_var, c[1])
    if k == "flag": return "%s.%s" % (cfg.flags_var, c[1])
    if k == "cheq": return "%s = %s" % (cfg.char_var, lean_char(c[1]))
    if k == "chne": return "%s ≠ %s" % (cfg.char_var, lean_char(c[1]))
    if k == "not":
        a = c[1]
        if a[0] == "local": return "%s.%s = false" % (cfg.state_var, a[1])
        if a[0] == "flag": return "%s.%s = false" % (cfg.flags_var, a[1])
        return "¬ (%s)" % _rcond(a, cfg)
    op = " ∧ " if k == "and" else " ∨ "
    a, b = _rcond(c[1], cfg, False), _rcond(c[2], cfg, False)
    if c[1][0] in ("and", "or"): a = "(%s)" % a
    if c[2][0] in ("and", "or") and c[2][0] != k: b = "(%s)" % b
    s = a + op + b
    return s

def _rstate(env, cfg):
    fields = []
    if env.pushes:
        items = ", ".join(cfg.char_var if p[0] == "var" else lean_char(p[1]) for p in env.pushes)
        fields.append("%s := %s.%s ++ [%s]" % (cfg.buffer_field, cfg.state_var, cfg.buffer_field, items))
    for name, val in env.upd.items():
        fields.append("%s := %s" % (cfg.locals_[name], "true" if val else "false"))
    if not fields:
        return cfg.state_var
    return "{ %s with %s }" % (cfg.state_var, ", ".join(fields))

_cfg = None

def render(expr, indent, cfg=None):
    global _cfg
    if cfg is not None:
        _cfg = cfg
    cfg = _cfg
    pad = "  " * indent
    k = expr[0]
    if k == "ite":
        return "%sif %s then\n%s\n%selse\n%s" % (pad, _rcond(expr[1], cfg), render(expr[2], indent + 1), pad, render(expr[3], indent + 1))
    if k == "cont":
        return "%s.cont %s" % (pad, _rstate(expr[1], cfg))
    if k == "brk":
        env = expr[1]
        rest = {"keep": cfg.rest_var, "back": "(%s :: %s)" % (cfg.char_var, cfg.rest_var), "end": "[]"}[env.idx]
        return "%s.brk %s %s %s" % (pad, _rstate(env, cfg), rest, "true" if env.found_end else "false")
    if k == "err":
        return "%s%s" % (pad, cfg.ret_err(expr[1]))
    fail("render: %r" % (k,))

# =============================================================================================
# second executor: loop bodies whose state is several buffers, small counters and booleans
# (`expand_by_wrapper`).  Every local is tracked as a SYMBOLIC Lean expression over the state at
# the start of the iteration; a leaf is the record of the locals that changed.
#
# additional statements:   <buf>.clear();   <buf>.push_str(&<buf2>);   <n> = 0 | 1;
#                          <b> = <char> == '<c>';     <helper>(&mut <buf>, <a>, <b>);
#                          if let Some(<x>) = <map>.get(&<buf>) { <buf2>.push_str(<x>) }
#                          a trailing expression statement `<b> = true` without `;`
# additional conditions:   <n> == 0 | 1,  <n> > 0,  <pred>(<char>)
# =============================================================================================

class GConfig:
    def __init__(self, state_var, char_var, char_name, bools, nats, bufs, helpers, preds, lookup):
        """bools / nats / bufs: Rust local -> Lean field; helpers: Rust fn -> Lean fn (first
        argument `&mut buf`, result = new buffer); preds: Rust fn(char) -> Lean predicate;
        lookup: (rust map name, lean expression template with {key})"""
        self.state_var, self.char_var, self.char_name = state_var, char_var, char_name
        self.bools, self.nats, self.bufs, self.helpers, self.preds, self.lookup = bools, nats, bufs, helpers, preds, lookup
    def field(self, name):
        for d in (self.bools, self.nats, self.bufs):
            if name in d: return d[name]
        fail("unknown local %s" % name)

def gparse_block(text):
    p = P(tokenize(text))
    b = _gblock(p)
    if p.peek()[0] != "eof":
        fail("trailing tokens after the block")
    return b

def _gblock(p):
    p.take("{")
    out = []
    while not p.at("}"):
        out.append(_gstmt(p))
    p.take("}")
    return out

def _gstmt(p):
    if p.at("if", "let"):
        # if let Some(x) = map.get(&key) { buf.push_str(x) } [;]
        p.take(); p.take(); p.take("Some"); p.take("("); x = p.take()[1]; p.take(")"); p.take("=")
        m = p.take()[1]; p.take("."); p.take("get"); p.take("("); p.take("&"); key = p.take()[1]; p.take(")")
        p.take("{"); buf = p.take()[1]; p.take("."); p.take("push_str"); p.take("("); y = p.take()[1]; p.take(")")
        if p.at(";"): p.take()
        p.take("}")
        if p.at(";"): p.take()
        if x != y: fail("if let: pushes %s, not the bound %s" % (y, x))
        return ("pushlookup", buf, m, key)
    if p.at("if"):
        p.take("if")
        cond = _gor(p)
        then = _gblock(p)
        els = None
        if p.at("else"):
            p.take()
            els = [_gstmt(p)] if p.at("if") else _gblock(p)
        return ("if", cond, then, els)
    tok = p.take()
    if tok[0] != "id":
        fail("unsupported statement starting with %r" % (tok[1],))
    name = tok[1]
    if p.at("."):
        p.take(); meth = p.take()[1]; p.take("(")
        if meth == "clear":
            p.take(")"); _semi(p)
            return ("clear", name)
        if meth == "push":
            a = p.take(); p.take(")"); _semi(p)
            if a[0] == "char": return ("push", name, ("lit", unescape(a[1][1:-1])))
            if a[0] == "id": return ("push", name, ("var", a[1]))
        if meth == "push_str":
            if p.at("&"):
                p.take(); other = p.take()[1]; p.take(")"); _semi(p)
                return ("pushbuf", name, other)
        fail("unsupported call %s.%s" % (name, meth))
    if p.at("("):
        # helper(&mut buf, a, b)
        p.take(); p.take("&"); p.take("mut"); buf = p.take()[1]
        args = []
        while p.at(","):
            p.take(); args.append(p.take()[1])
        p.take(")"); _semi(p)
        return ("helper", name, buf, args)
    if p.at("="):
        p.take()
        a = p.take()
        if p.at("==") :
            p.take(); rhs = p.take()
            if a[0] != "id" or rhs[0] != "char": fail("unsupported comparison assignment")
            _semi(p)
            return ("assigncmp", name, a[1], unescape(rhs[1][1:-1]))
        _semi(p)
        return ("assign", name, a[1])
    fail("unsupported statement %s …" % name)

def _semi(p):
    if p.at(";"): p.take()
    elif not p.at("}"): fail("expected `;`")

def _gor(p):
    a = _gand(p)
    if p.at("||"):
        p.take(); return ("or", a, _gor(p))
    return a

def _gand(p):
    a = _gnot(p)
    if p.at("&&"):
        p.take(); return ("and", a, _gand(p))
    return a

def _gnot(p):
    if p.at("!"):
        p.take(); return ("not", _gnot(p))
    if p.at("("):
        p.take(); c = _gor(p); p.take(")"); return c
    tok = p.take()
    if tok[0] != "id": fail("unsupported condition atom %r" % (tok[1],))
    if p.at("("):
        p.take(); arg = p.take()[1]; p.take(")")
        return ("pred", tok[1], arg)
    if p.at("==") or p.at("!=") or p.at(">"):
        op = p.take()[1]; rhs = p.take()
        if rhs[0] == "char": return ("cheq" if op == "==" else "chne", tok[1], unescape(rhs[1][1:-1]))
        if rhs[0] == "num": return ("ncmp", tok[1], op, rhs[1])
        fail("unsupported comparison")
    return ("var", tok[1])

def gtranslate(stmts, cfg):
    return _gexec(list(stmts), {}, cfg)

def _val(env, name, cfg):
    return env.get(name, "%s.%s" % (cfg.state_var, cfg.field(name)))

def _gexec(stmts, env, cfg):
    if not stmts:
        return ("leaf", dict(env))
    s, rest = stmts[0], stmts[1:]
    k = s[0]
    if k == "if":
        c = _gcond(s[1], env, cfg)
        if c is True: return _gexec(list(s[2]) + rest, dict(env), cfg)
        if c is False: return _gexec(list(s[3] or []) + rest, dict(env), cfg)
        return ("ite", c, _gexec(list(s[2]) + rest, dict(env), cfg), _gexec(list(s[3] or []) + rest, dict(env), cfg))
    env = dict(env)
    if k == "clear":
        env[s[1]] = "[]"
    elif k == "push":
        item = cfg.char_var if s[2][0] == "var" else lean_char(s[2][1])
        if s[2][0] == "var" and s[2][1] != cfg.char_name: fail("push of %s" % s[2][1])
        env[s[1]] = "%s ++ [%s]" % (_paren(_val(env, s[1], cfg)), item)
    elif k == "pushbuf":
        env[s[1]] = "%s ++ %s" % (_paren(_val(env, s[1], cfg)), _paren(_val(env, s[2], cfg)))
    elif k == "pushlookup":
        if s[2] != cfg.lookup[0]: fail("lookup in %s" % s[2])
        env[s[1]] = "%s ++ %s" % (_paren(_val(env, s[1], cfg)), cfg.lookup[1].format(key=_paren(_val(env, s[3], cfg))))
    elif k == "helper":
        if s[1] not in cfg.helpers: fail("unknown helper %s" % s[1])
        args = " ".join(_paren(_val(env, a, cfg)) if a not in ("true", "false") else a for a in s[3])
        env[s[2]] = "%s %s %s" % (cfg.helpers[s[1]], _paren(_val(env, s[2], cfg)), args)
    elif k == "assign":
        if s[2] in ("true", "false") and s[1] in cfg.bools: env[s[1]] = s[2]
        elif s[2] in ("0", "1") and s[1] in cfg.nats: env[s[1]] = s[2]
        else: fail("unsupported assignment %s = %s" % (s[1], s[2]))
    elif k == "assigncmp":
        if s[2] != cfg.char_name or s[1] not in cfg.bools: fail("unsupported comparison assignment")
        env[s[1]] = "(%s == %s)" % (cfg.char_var, lean_char(s[3]))
    else:
        fail("unsupported statement %r" % (k,))
    return _gexec(rest, env, cfg)

def _paren(e):
    return e if re.match(r"^[\w.\[\]']+$", e) else "(%s)" % e

def _gcond(c, env, cfg):
    k = c[0]
    if k == "var":
        if c[1] not in cfg.bools: fail("non-boolean %s used as a condition" % c[1])
        v = _val(env, c[1], cfg)
        if v == "true": return True
        if v == "false": return False
        return ("b", v)
    if k in ("cheq", "chne"):
        if c[1] != cfg.char_name: fail("comparison of %s" % c[1])
        return (k, c[2])
    if k == "ncmp":
        v = _val(env, c[1], cfg)
        if v in ("0", "1"):
            n, m = int(v), int(c[3])
            return {"==": n == m, "!=": n != m, ">": n > m}[c[2]]
        return ("n", v, c[2], c[3])
    if k == "pred":
        if c[1] not in cfg.preds or c[2] != cfg.char_name: fail("unknown predicate %s" % c[1])
        return ("p", cfg.preds[c[1]])
    if k == "not":
        a = _gcond(c[1], env, cfg)
        if a is True: return False
        if a is False: return True
        return ("not", a)
    a, b = _gcond(c[1], env, cfg), _gcond(c[2], env, cfg)
    if k == "and":
        if a is False or b is False: return False
        if a is True: return b
        if b is True: return a
        return ("and", a, b)
    if a is True or b is True: return True
    if a is False: return b
    if b is False: return a
    return ("or", a, b)

def _grcond(c, cfg):
    k = c[0]
    if k == "b": return c[1]
    if k == "cheq": return "%s = %s" % (cfg.char_var, lean_char(c[1]))
    if k == "chne": return "%s ≠ %s" % (cfg.char_var, lean_char(c[1]))
    if k == "n": return "%s %s %s" % (c[1], {"==": "=", "!=": "≠", ">": ">"}[c[2]], c[3])
    if k == "p": return "%s %s" % (c[1], cfg.char_var)
    if k == "not":
        a = c[1]
        if a[0] == "b": return "%s = false" % a[1]
        return "¬ (%s)" % _grcond(a, cfg)
    op = " ∧ " if k == "and" else " ∨ "
    a, b = _grcond(c[1], cfg), _grcond(c[2], cfg)
    if c[1][0] in ("and", "or"): a = "(%s)" % a
    if c[2][0] in ("and", "or") and c[2][0] != k: b = "(%s)" % b
    return a + op + b

def grender(expr, indent, cfg):
    pad = "  " * indent
    if expr[0] == "ite":
        return "%sif %s then\n%s\n%selse\n%s" % (pad, _grcond(expr[1], cfg), grender(expr[2], indent + 1, cfg), pad, grender(expr[3], indent + 1, cfg))
    env = expr[1]
    if not env:
        return pad + cfg.state_var
    return "%s{ %s with %s }" % (pad, cfg.state_var, ", ".join("%s := %s" % (cfg.field(k), v) for k, v in env.items()))

# =============================================================================================
# third executor: a token loop with `match`, `Option<bool>` / integer / enum locals, early
# `return Ok(..)` / `return Err(..)` and a recursive call on a slice (`eval_condition_for_slice`,
# duckscript_sdk/src/utils/condition.rs).
#
# The parser below reads whole function bodies:
#   statements   let [mut] x = e ;   x = e ;   x += e ;   x -= e ;   if c {..} [else if .. | else {..}]
#                match e { pat => {..} | pat => stmt , … } [;]   for x in xs {..}   return e ;
#                a trailing expression without `;` (`Ok(e)`, `Err(e)`, an assignment)
#                let x = if c { e1 } else { e2 } ;   (lifted into control flow)
#   patterns     Enum::Variant   _   Ok(x)   Err(x)
#   expressions  true false None Some(e) Ok(e) Err(e) Enum::Variant "text" 123 x  f(e, …)
#                format!("text", …)   e.method(e, …)   !e   &e   e && e   e || e
#                e == e   e != e   e < e   e > e   e + n   e - n   xs[a..b]   (e)
# The executor tracks every local as a symbolic VALUE over the state at the start of the
# iteration (booleans, `Option<bool>`, integers in the form `field + constant`, enum
# constructors), folds what is known on the path (`Some(e).unwrap()` is `e`), and renders
#   * `match <enum local>`  as a Lean `match` with one arm per variant, in DECLARATION order
#     (wildcards expanded: Rust arms of a field-less enum are order-independent up to `_`),
#   * `match <self>(&xs[a..b]) { Ok(x) => .., Err(e) => .. }` as a range check (a slice out of
#     range panics in Rust: explicit `.panic` leaf) and a `match` on the evaluator parameter,
#   * `.unwrap()` of a value not known to be `Some` as a `match` with a `.panic` arm.
# Leaves: `.cont <state>` (end of the loop body), `.ret b` / `.ok b`, `.err kind`, `.panic`.
# =============================================================================================

def cparse_block(text):
    p = P(tokenize(text))
    b = _cblock(p)
    if p.peek()[0] != "eof":
        fail("trailing tokens after the block")
    return b

def _cblock(p):
    p.take("{")
    out = []
    while not p.at("}"):
        out.append(_cstmt(p))
    p.take("}")
    return out

def _cend(p):
    """end of a simple statement: `;`, or nothing right before `}` (trailing expression)"""
    if p.at(";"):
        p.take(); return True
    if p.at("}"):
        return False
    fail("expected `;`, found %r" % (p.peek()[1],))

def _cstmt(p):
    if p.at("let"):
        p.take()
        mut = False
        if p.at("mut"):
            p.take(); mut = True
        name = p.take()
        if name[0] != "id": fail("unsupported `let` pattern")
        p.take("=")
        e = _cexpr(p)
        p.take(";")
        return ("let", name[1], mut, e)
    if p.at("if"):
        return _cif(p)
    if p.at("match"):
        p.take()
        scrut = _cexpr(p)
        p.take("{")
        arms = []
        while not p.at("}"):
            pat = _cpat(p)
            p.take("=>")
            if p.at("{"):
                body = _cblock(p)
                if p.at(","): p.take()
            else:
                body = [_csimple(p, in_arm=True)]
                if p.at(","): p.take()
                elif not p.at("}"): fail("expected `,` after a match arm")
            arms.append((pat, body))
        p.take("}")
        if p.at(";"): p.take()
        return ("match", scrut, arms)
    if p.at("for"):
        p.take(); x = p.take()
        if x[0] != "id": fail("unsupported `for` pattern")
        p.take("in")
        it = _cexpr(p)
        return ("for", x[1], it, _cblock(p))
    return _csimple(p, in_arm=False)

def _csimple(p, in_arm):
    """return / assignment / expression statement; inside a match arm no terminator is read"""
    if p.at("return"):
        p.take()
        e = _cexpr(p)
        if not in_arm: _cend(p)
        return ("return", e)
    e = _cexpr(p)
    if p.at("=") or p.at("+=") or p.at("-="):
        op = p.take()[1]
        if e[0] != "id": fail("assignment to something that is not a local")
        rhs = _cexpr(p)
        if not in_arm: _cend(p)
        return ("assign", e[1], op, rhs)
    if in_arm:
        return ("expr", e)
    if _cend(p):
        fail("expression statement with `;` has no effect in the subset")
    return ("expr", e)

def _cif(p):
    p.take("if")
    cond = _cexpr(p)
    then = _cblock(p)
    els = None
    if p.at("else"):
        p.take()
        els = [_cif(p)] if p.at("if") else _cblock(p)
    return ("if", cond, then, els)

def _cpat(p):
    tok = p.take()
    if tok[0] != "id": fail("unsupported pattern %r" % (tok[1],))
    if tok[1] == "_": return ("pwild",)
    if p.at("::"):
        p.take(); v = p.take()[1]
        return ("pctor", tok[1], v)
    if tok[1] in ("Ok", "Err") and p.at("("):
        p.take(); x = p.take()
        if x[0] != "id": fail("unsupported pattern inside %s(..)" % tok[1])
        p.take(")")
        return ("pok" if tok[1] == "Ok" else "perr", x[1])
    fail("unsupported pattern %r" % (tok[1],))

def _cexpr(p):
    a = _cexpr_and(p)
    while p.at("||"):
        p.take(); a = ("bin", "||", a, _cexpr_and(p))
    return a

def _cexpr_and(p):
    a = _cexpr_cmp(p)
    while p.at("&&"):
        p.take(); a = ("bin", "&&", a, _cexpr_cmp(p))
    return a

def _cexpr_cmp(p):
    a = _cexpr_add(p)
    if p.peek()[1] in ("==", "!=", "<", ">"):
        op = p.take()[1]
        return ("bin", op, a, _cexpr_add(p))
    return a

def _cexpr_add(p):
    a = _cexpr_unary(p)
    while p.peek()[1] in ("+", "-"):
        op = p.take()[1]; a = ("bin", op, a, _cexpr_unary(p))
    return a

def _cexpr_unary(p):
    if p.at("!"):
        p.take(); return ("not", _cexpr_unary(p))
    if p.at("&"):
        p.take()
        if p.at("mut"): fail("`&mut` is outside the subset")
        return _cexpr_unary(p)          # a shared reference is the value itself
    return _cexpr_postfix(p)

def _cargs(p):
    p.take("(")
    args = []
    while not p.at(")"):
        args.append(_cexpr(p))
        if p.at(","): p.take()
        elif not p.at(")"): fail("expected `,` or `)` in an argument list")
    p.take(")")
    return args

def _cexpr_postfix(p):
    e = _cexpr_primary(p)
    while True:
        if p.at(".") :
            p.take(); m = p.take()
            if m[0] != "id": fail("unsupported field access")
            e = ("method", e, m[1], _cargs(p))
        elif p.at("["):
            p.take()
            lo = None if p.at("..") else _cexpr_add(p)
            if not p.at(".."): fail("indexing (not slicing) is outside the subset")
            p.take("..")
            hi = None if p.at("]") else _cexpr_add(p)
            p.take("]")
            e = ("slice", e, lo, hi)
        else:
            return e

def _cexpr_primary(p):
    tok = p.take()
    if tok[0] == "str": return ("lit_str", unescape(tok[1][1:-1]))
    if tok[0] == "num": return ("num", int(tok[1]))
    if tok[1] == "(":
        e = _cexpr(p); p.take(")"); return e
    if tok[1] == "if":
        p.i -= 1
        s = _cif(p)
        return ("ifexpr",) + s[1:]
    if tok[0] != "id": fail("unsupported expression starting with %r" % (tok[1],))
    name = tok[1]
    if name in ("true", "false"): return ("bool", name == "true")
    if name == "None": return ("none",)
    if name in ("Some", "Ok", "Err") and p.at("("):
        args = _cargs(p)
        if len(args) != 1: fail("%s(..) takes one argument" % name)
        return ({"Some": "some", "Ok": "ok", "Err": "errc"}[name], args[0])
    if p.at("::"):
        p.take(); v = p.take()[1]
        return ("path", name, v)
    if p.at("!") and p.peek(1)[1] == "(":
        p.take()
        return ("macro", name, _cargs(p))
    if p.at("("):
        return ("call", name, _cargs(p))
    return ("id", name)

class CConfig:
    def __init__(self, state_var, item_name, item_var, args_name, args_var, self_name, ev_var,
                 locals, enum_name, variants, errors, funcs):
        """locals: Rust local -> (Lean field, type) with type in bool / opt / int / nat / enum;
        variants: ordered list of (Rust variant, Lean constructor); errors: message text -> Lean
        error kind; funcs: Rust fn(Option<String>) -> bool  ->  Lean function"""
        self.state_var, self.item_name, self.item_var = state_var, item_name, item_var
        self.args_name, self.args_var, self.self_name, self.ev_var = args_name, args_var, self_name, ev_var
        self.locals, self.enum_name, self.variants, self.errors, self.funcs = locals, enum_name, variants, errors, funcs

class CEnv:
    def __init__(self, vals=None, dirty=None, binds=None, fresh=0):
        self.vals, self.dirty, self.binds, self.fresh = dict(vals or {}), list(dirty or []), dict(binds or {}), fresh
    def copy(self):
        return CEnv(self.vals, self.dirty, self.binds, self.fresh)
    def set(self, name, val):
        self.vals[name] = val
        if name not in self.dirty: self.dirty.append(name)

class _Panic(Exception):
    pass

class _NeedSome(Exception):
    def __init__(self, local): self.local = local

T, F = ("T",), ("F",)

def _ctype(v):
    return {"T": "bool", "F": "bool", "b": "bool", "and": "bool", "or": "bool", "not": "bool", "getD": "bool",
            "isNone": "bool", "streq": "bool", "icmp": "bool", "app": "bool", "none": "opt", "some": "opt", "o": "opt",
            "n": "num", "ctor": "enum", "e": "enum", "s": "str", "errv": "err"}[v[0]]

def _cnot(a):
    if a == T: return F
    if a == F: return T
    if a[0] == "not": return a[1]
    return ("not", a)

def _cand(a, b):
    if a == F or b == F: return F
    if a == T: return b
    if b == T: return a
    return ("and", a, b)

def _cor(a, b):
    if a == T or b == T: return T
    if a == F: return b
    if b == F: return a
    return ("or", a, b)

def _clocal(name, env, cfg):
    if name in env.vals: return env.vals[name]
    field, ty = cfg.locals[name]
    ref = "%s.%s" % (cfg.state_var, field)
    return {"bool": ("b", ref), "opt": ("o", ref), "enum": ("e", ref),
            "int": ("n", ref, 0, "int"), "nat": ("n", ref, 0, "nat")}[ty]

def ceval(e, env, cfg, strict=True):
    """symbolic value of an expression; `strict` is False in the right operand of `&&` / `||`
    (evaluated only sometimes: a panic there cannot be lifted out)"""
    k = e[0]
    if k == "bool": return T if e[1] else F
    if k == "num": return ("n", None, e[1], None)
    if k == "none": return ("none",)
    if k == "some":
        v = ceval(e[1], env, cfg, strict)
        if _ctype(v) not in ("bool", "str"): fail("Some(..) of an unsupported value")
        return ("some", v)
    if k == "path":
        if e[1] != cfg.enum_name or e[2] not in dict(cfg.variants): fail("unknown constant %s::%s" % (e[1], e[2]))
        return ("ctor", e[2], dict(cfg.variants)[e[2]])
    if k == "id":
        name = e[1]
        if name in env.binds: return env.binds[name]
        if name in cfg.locals: return _clocal(name, env, cfg)
        if name == cfg.item_name: return ("s", cfg.item_var)
        fail("unknown variable %s" % name)
    if k == "not":
        v = ceval(e[1], env, cfg, strict)
        if _ctype(v) != "bool": fail("`!` of a non-boolean")
        return _cnot(v)
    if k == "bin":
        op = e[1]
        if op in ("&&", "||"):
            a, b = ceval(e[2], env, cfg, strict), ceval(e[3], env, cfg, False)
            if _ctype(a) != "bool" or _ctype(b) != "bool": fail("`%s` of non-booleans" % op)
            return _cand(a, b) if op == "&&" else _cor(a, b)
        a = ceval(e[2], env, cfg, strict)
        if e[3][0] == "lit_str":
            if _ctype(a) != "str" or op not in ("==", "!="): fail("unsupported comparison with a string literal")
            v = ("streq", a[1], e[3][1])
            return v if op == "==" else ("not", v)
        b = ceval(e[3], env, cfg, strict)
        if op in ("+", "-"):
            if _ctype(a) != "num" or _ctype(b) != "num" or b[1] is not None: fail("unsupported arithmetic")
            if op == "-" and a[3] != "int": fail("subtraction on an unsigned local (can panic) is outside the subset")
            return ("n", a[1], a[2] + (b[2] if op == "+" else -b[2]), a[3])
        if _ctype(a) == "num" and _ctype(b) == "num" and b[1] is None:
            if a[1] is None:
                return T if {"==": a[2] == b[2], "!=": a[2] != b[2], "<": a[2] < b[2], ">": a[2] > b[2]}[op] else F
            if op == "!=": return ("not", ("icmp", "=", a, b[2]))
            return ("icmp", {"==": "="}.get(op, op), a, b[2])
        fail("unsupported comparison")
    if k == "lit_str":
        fail("a string literal is only supported as the right-hand side of a comparison or as an error text")
    if k == "method":
        m, args = e[2], e[3]
        if m == "to_string" and not args:
            v = ceval(e[1], env, cfg, strict)
            if _ctype(v) != "str": fail("to_string of a non-string")
            return v
        r = ceval(e[1], env, cfg, strict)
        if _ctype(r) != "opt": fail("unsupported method .%s" % m)
        if m == "unwrap_or" and len(args) == 1:
            d = ceval(args[0], env, cfg, strict)
            if _ctype(d) != "bool": fail("unwrap_or of a non-boolean")
            if r[0] == "some": return r[1]
            if r[0] == "none": return d
            return ("getD", r, d)
        if m in ("is_none", "is_some") and not args:
            v = T if r[0] == "none" else F if r[0] == "some" else ("isNone", r)
            return v if m == "is_none" else _cnot(v)
        if m == "unwrap" and not args:
            if r[0] == "some": return r[1]
            if not strict: fail("unwrap() in a short-circuited operand")
            if r[0] == "none": raise _Panic()
            if e[1][0] == "id" and e[1][1] in cfg.locals: raise _NeedSome(e[1][1])
            fail("unwrap() of a compound expression")
        fail("unsupported method .%s" % m)
    if k == "call":
        if e[1] in cfg.funcs and len(e[2]) == 1:
            a = ceval(e[2][0], env, cfg, strict)
            if a[0] == "none" or (a[0] == "some" and _ctype(a[1]) == "str"):
                return ("app", cfg.funcs[e[1]], a)
        fail("unsupported call of %s" % e[1])
    fail("unsupported expression %r" % (k,))

def _cerrkind(e, env, cfg):
    """the payload of `Err(..)`: a message text (mapped to its kind) or a passed-through error"""
    while e[0] == "method" and e[2] == "to_string" and not e[3]:
        e = e[1]
    if e[0] == "macro" and e[1] == "format" and e[2] and e[2][0][0] == "lit_str":
        text = e[2][0][1]
    elif e[0] == "lit_str":
        text = e[1]
    elif e[0] == "id" and env.binds.get(e[1], ("?",))[0] == "errv":
        return ("errpass", e[1])
    else:
        fail("unsupported error value")
    if text not in cfg.errors: fail("unknown error text %r" % text)
    return ("err", cfg.errors[text])

def ctranslate(stmts, cfg, mode, binds=None):
    """mode `step`: a loop body (falling off the end = next iteration); mode `final`: code whose
    last expression is the function's result"""
    return _cexec(list(stmts), CEnv(binds=binds), cfg, mode)

def _cresult(e, env, cfg):
    if e[0] == "ok":
        v = ceval(e[1], env, cfg)
        if _ctype(v) != "bool": fail("Ok(..) of a non-boolean")
        return ("ret", v)
    if e[0] == "errc":
        return _cerrkind(e[1], env, cfg)
    fail("unsupported result expression")

def _cexec(stmts, env, cfg, mode):
    if not stmts:
        if mode == "step": return ("cont", env)
        fail("control reaches the end of the function without a result")
    s, rest = stmts[0], stmts[1:]
    try:
        return _cexec1(s, rest, env.copy(), cfg, mode)
    except _Panic:
        return ("panic",)
    except _NeedSome as need:
        # `<local>.unwrap()` of a value that is not known: split on it, panic in the `None` arm
        var = "v%d" % env.fresh
        e2 = env.copy(); e2.fresh += 1
        scrut = ropt(_clocal(need.local, env, cfg))
        e2.vals[need.local] = ("some", ("b", var))      # known, not assigned: not marked dirty
        return ("matchopt", scrut, var, _cexec(stmts, e2, cfg, mode), ("panic",))

def _cexec1(s, rest, env, cfg, mode):
    k = s[0]
    if k == "let":
        if s[3][0] == "ifexpr":
            # let x = if c { .. e1 } else { .. e2 };   ==>   if c { .. let x = e1; } else { .. let x = e2; }
            def tail(block):
                if not block or block[-1][0] != "expr": fail("`if` expression without a value")
                return list(block[:-1]) + [("let", s[1], s[2], block[-1][1])]
            if s[3][3] is None: fail("`if` expression without `else`")
            return _cexec([("if", s[3][1], tail(s[3][2]), tail(s[3][3]))] + rest, env, cfg, mode)
        if s[2]: fail("a mutable local declared inside the translated code")
        env.binds[s[1]] = ceval(s[3], env, cfg)
        return _cexec(rest, env, cfg, mode)
    if k == "assign":
        name, op = s[1], s[2]
        if name not in cfg.locals: fail("assignment to %s" % name)
        ty = cfg.locals[name][1]
        rhs = s[3] if op == "=" else ("bin", op[0], ("id", name), s[3])
        v = ceval(rhs, env, cfg)
        vt = _ctype(v)
        if vt == "num":
            if ty not in ("int", "nat") or (v[3] is not None and v[3] != ty): fail("ill-typed assignment to %s" % name)
            if ty == "nat" and v[2] < 0: fail("negative value for an unsigned local")
            v = ("n", v[1], v[2], ty)
        elif vt == "opt":
            if ty != "opt" or (v[0] == "some" and _ctype(v[1]) != "bool"): fail("ill-typed assignment to %s" % name)
        elif vt != ty:
            fail("ill-typed assignment to %s" % name)
        env.set(name, v)
        return _cexec(rest, env, cfg, mode)
    if k == "if":
        c = ceval(s[1], env, cfg)
        if _ctype(c) != "bool": fail("non-boolean condition")
        if c == T: return _cexec(list(s[2]) + rest, env, cfg, mode)
        if c == F: return _cexec(list(s[3] or []) + rest, env, cfg, mode)
        return ("ite", c, _cexec(list(s[2]) + rest, env.copy(), cfg, mode), _cexec(list(s[3] or []) + rest, env.copy(), cfg, mode))
    if k == "return":
        return _cresult(s[1], env, cfg)
    if k == "expr":
        if rest or mode != "final": fail("an expression statement that is not the function's result")
        return _cresult(s[1], env, cfg)
    if k == "match":
        scrut, arms = s[1], s[2]
        if scrut[0] == "call" and scrut[1] == cfg.self_name:
            return _cmatch_self(scrut, arms, rest, env, cfg, mode)
        if scrut[0] != "id" or scrut[1] not in cfg.locals or cfg.locals[scrut[1]][1] != "enum":
            fail("`match` on something that is neither an enum local nor the recursive call")
        v = _clocal(scrut[1], env, cfg)
        def arm_for(variant):
            for pat, body in arms:
                if pat == ("pwild",) or pat == ("pctor", cfg.enum_name, variant):
                    return body
                if pat[0] != "pctor" or pat[1] != cfg.enum_name or pat[2] not in dict(cfg.variants):
                    fail("unsupported pattern in a match on %s" % cfg.enum_name)
            fail("match on %s does not cover %s" % (cfg.enum_name, variant))
        if v[0] == "ctor":
            return _cexec(list(arm_for(v[1])) + rest, env, cfg, mode)
        return ("matchenum", v[1], [(lean, _cexec(list(arm_for(rv)) + rest, env.copy(), cfg, mode)) for rv, lean in cfg.variants])
    fail("unsupported statement %r" % (k,))

def _cmatch_self(scrut, arms, rest, env, cfg, mode):
    a = scrut[2]
    if len(a) != 1 or a[0][0] != "slice" or a[0][1] != ("id", cfg.args_name) or a[0][2] is None or a[0][3] is None:
        fail("the recursive call is not on a slice `%s[a..b]`" % cfg.args_name)
    lo, hi = ceval(a[0][2], env, cfg), ceval(a[0][3], env, cfg)
    for b in (lo, hi):
        if _ctype(b) != "num" or b[3] == "int": fail("slice bounds must be unsigned locals")
    pats = [p[0] for p, _ in arms]
    if sorted(pats) != ["perr", "pok"]: fail("the match on the recursive call must have the arms Ok(x) and Err(e)")
    trees = {}
    for pat, body in arms:
        e2 = env.copy()
        e2.binds[pat[1]] = ("b", pat[1]) if pat[0] == "pok" else ("errv", pat[1])
        trees[pat[0]] = (pat[1], _cexec(list(body) + rest, e2, cfg, mode))
    return ("matchev", rnum(lo), rnum(hi), trees["pok"], trees["perr"])

# ------------------------------------------------------------- rendering of the third executor

def _atomic(s):
    return re.match(r"^[\w.']+$", s) is not None

def _par(s):
    return s if _atomic(s) or (s[0] == "(" and _match_paren(s, 0) == len(s) - 1) else "(%s)" % s

def lean_strlit(s):
    out = ['"']
    for ch in s:
        out.append({'"': '\\"', "\\": "\\\\", "\n": "\\n", "\t": "\\t", "\r": "\\r"}.get(ch, ch))
    return "".join(out) + '".toList'

def rnum(v):
    base, off = v[1], v[2]
    if base is None: return str(off) if off >= 0 else "(%d)" % off
    if off == 0: return base
    return "%s %s %d" % (base, "+" if off > 0 else "-", abs(off))

def ropt(v):
    if v[0] == "none": return "none"
    if v[0] == "some": return "some %s" % _par(rval(v[1]))
    return v[1]

def rval(v):
    """a value as a Lean term of its own type (booleans as `Bool`)"""
    k = v[0]
    if k == "T": return "true"
    if k == "F": return "false"
    if k in ("b", "e", "s"): return v[1]
    if k == "ctor": return v[2]
    if k == "and": return "(%s && %s)" % (rval(v[1]), rval(v[2]))
    if k == "or": return "(%s || %s)" % (rval(v[1]), rval(v[2]))
    if k == "not": return "(!%s)" % _par(rval(v[1]))
    if k == "getD": return "%s.getD %s" % (_par(ropt(v[1])), _par(rval(v[2])))
    if k == "isNone": return "%s.isNone" % _par(ropt(v[1]))
    if k == "streq": return "(%s == %s)" % (v[1], lean_strlit(v[2]))
    if k == "icmp": return "decide (%s %s %d)" % (rnum(v[2]), v[1], v[3])
    if k == "app": return "%s %s" % (v[1], _par(ropt(v[2])))
    if k in ("none", "some", "o"): return ropt(v)
    if k == "n": return rnum(v)
    fail("render: value %r" % (k,))

def rprop(v, top=True):
    """a boolean value as the condition of a Lean `if`"""
    k = v[0]
    if k == "streq": return "%s = %s" % (v[1], lean_strlit(v[2]))
    if k == "icmp": return "%s %s %d" % (rnum(v[2]), v[1], v[3])
    if k in ("and", "or"):
        a, b = rprop(v[1], False), rprop(v[2], False)
        if v[1][0] in ("and", "or") and v[1][0] != k: a = "(%s)" % a
        if v[2][0] in ("and", "or") and v[2][0] != k: b = "(%s)" % b
        return a + (" ∧ " if k == "and" else " ∨ ") + b
    if k == "not":
        a = v[1]
        if a[0] == "streq": return "%s ≠ %s" % (a[1], lean_strlit(a[2]))
        if a[0] in ("icmp", "and", "or"): return "¬ (%s)" % rprop(a)
        return "%s = false" % rval(a)
    return rval(v)

def crender(expr, indent, cfg, mode):
    pad = "  " * indent
    k = expr[0]
    if k == "ite":
        return "%sif %s then\n%s\n%selse\n%s" % (pad, rprop(expr[1]), crender(expr[2], indent + 1, cfg, mode), pad, crender(expr[3], indent + 1, cfg, mode))
    if k == "matchenum":
        out = "%smatch %s with" % (pad, expr[1])
        for ctor, tree in expr[2]:
            out += "\n%s| %s =>\n%s" % (pad, ctor, crender(tree, indent + 1, cfg, mode))
        return out
    if k == "matchopt":
        return "%smatch %s with\n%s| some %s =>\n%s\n%s| none =>\n%s" % (
            pad, expr[1], pad, expr[2], crender(expr[3], indent + 1, cfg, mode), pad, crender(expr[4], indent + 1, cfg, mode))
    if k == "matchev":
        lo, hi, (okv, okt), (errv, errt) = expr[1:]
        a = cfg.args_var
        out = "%sif %s ≤ %s ∧ %s ≤ %s.length then\n" % (pad, lo, hi, hi, a)
        out += "%s  match %s ((%s.drop %s).take (%s - %s)) with\n" % (pad, cfg.ev_var, a, _par(lo), hi, _par(lo))
        out += "%s  | .ok %s =>\n%s\n" % (pad, okv, crender(okt, indent + 2, cfg, mode))
        out += "%s  | .err %s =>\n%s\n" % (pad, errv, crender(errt, indent + 2, cfg, mode))
        out += "%s  | .panic =>\n%s    .panic\n" % (pad, pad)
        out += "%selse\n%s  .panic" % (pad, pad)
        return out
    if k == "cont":
        env = expr[1]
        if not env.dirty: return "%s.cont %s" % (pad, cfg.state_var)
        return "%s.cont { %s with %s }" % (pad, cfg.state_var, ", ".join(
            "%s := %s" % (cfg.locals[n][0], rval(env.vals[n])) for n in env.dirty))
    if k == "ret":
        return "%s%s %s" % (pad, ".ret" if mode == "step" else ".ok", _par(rval(expr[1])))
    if k == "err":
        return "%s.err .%s" % (pad, expr[1])
    if k == "errpass":
        return "%s.err %s" % (pad, expr[1])
    if k == "panic":
        return "%s.panic" % pad
    fail("render: %r" % (k,))
